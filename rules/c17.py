"""C17 — a parameter sweep equals running each parameter set on its own (DESIGN §4 C17)."""
from __future__ import annotations

import ast
import copy as _copy
import itertools
import re
from typing import Dict, List, Optional

from engine import AnalysisError
from engine.srcmodel import walk_shallow, norm, parent, ancestors, set_parents, FunctionInfo
from engine.util import call_name, contains, _reads, _rebinds
from engine.cfg import stmt_of
from engine.dataflow import assigned_value, target_names

PROPERTY = "C17"
UT = "pyrates/utility.py"
CIRC = "pyrates/frontend/template/circuit.py"

EXPLANATION = (
    "Equality of the swept time series with individual runs is not decidable statically; the check is thin and says so.  Decided "
    "(structural necessary conditions on pyrates/utility.py): R1 each grid row owns a private copy and the rows stay uncoupled - in "
    "adapt_circuit the template that receives update_var originates from copy.deepcopy on every path and is what is returned "
    "(CircuitTemplate.update_var returns self); in grid_search the sub-circuit added per row is the value returned by adapt_circuit "
    "for the caller's template and parameter map, and the top-level circuit that is run is only ever an empty CircuitTemplate "
    "extended through update_template(circuits={...}) - no edges, no nodes, no other mutation.  R2 one key per row: the sub-circuit "
    "key and the name appended to the label list are the same value in the same iteration, the key contains the row label (unique), "
    "the loop runs over param_grid.index, that list becomes param_grid.index after the loop and that table is returned.  R3 row "
    "values reach what the parameter map addresses: the per-row dict is filled with param_grid[key][row]; in adapt_circuit the value, "
    "the map entry and the update record use one key; node records are `<node>/<var>` of the map's own lists; every edge record is "
    "resolved with the (source, target, idx) of one map entry and carries idx on to update_var, whose edge loop hands "
    "(source, target, idx) of the record to get_edge and re-registers the edge under the same idx.  R4 inputs and outputs are "
    "re-addressed to every sub-circuit with the prefix `all/`, the run receives them together with the caller's simulation_time, "
    "step_size and sampling_step_size, and its result is returned.  R5 linearize_grid keeps column j of the permuted grid with key j "
    "(values and keys appended in lock-step, meshgrid stacked along the last axis, reshaped to (-1, n)).  R7 every swept circuit's output "
    "is located with that circuit's own node key: in CircuitTemplate.get_variable_positions whatever is stored per node (inside a loop / "
    "comprehension over the nodes found by get_nodes, or over keys built from them one by one) into the two returned maps - position "
    "and backend variable - depends on the loop's node through every definition that reaches it (a value bound before the loop, or only "
    "on some iterations, is the value of another node unless all nodes were merged into one backend variable).  R8 the object a per-node override is written into "
    "shares nothing on the write path: in CircuitTemplate.update_var (private helpers spliced in) every call whose callee mutates a "
    "container inside its receiver (effect summary, e.g. self.operators[*]) has a receiver that is a deep copy, or an object whose "
    "constructor - followed through the deriving method's `return self.__class__(...)` and super().__init__ - stores fresh "
    "containers at every written path; a shared / shallow-copied / derived-but-aliasing template is a violation.  NOT decided: everything "
    "behavioural - wildcard expansion (C06), that overrides reach their targets (C07), vectorisation of the combined circuit (C04), "
    "the numerical equality itself."
)
RULE_TEXT = ("instances = reaching definitions of the copied template and of the top-level circuit, the per-row key uses, update "
             "records of adapt_circuit, the edge loop of CircuitTemplate.update_var, re-addressing stores, forwarded run arguments; "
             "non-trivial = decided by reaching definitions / value identity / template parsing.  All of it is evaluated on normalised "
             "copies of grid_search, adapt_circuit, linearize_grid and CircuitTemplate.update_var: private helpers inlined, parallel "
             "assignments split, loops merged under a flag case-split; values are identified by role (which element of which container, "
             "definitions behind aliases), not by local names or one spelling; a form that is not recognised is an analysis error, "
             "never a violation")
ASSUMPTIONS = [
    "copy.deepcopy returns an object that shares no mutable state with its argument (library semantics).",
    "CircuitTemplate.update_template(circuits=...) adds sub-circuits without connecting them (it forwards the existing edge list only).",
    "Looking through a private helper by inlining it preserves the facts the rules use (which value reaches which call / store); helpers "
    "with *args/**kwargs, generators, nested functions or a return inside a loop are not inlined - the anchor they hide is then "
    "reported as an analysis error.",
    "The rules describe the functions as they run with today's defaults: an early `return`/`raise` guarded by a never re-bound "
    "parameter whose constant boolean default does not take it (an optional other mode such as `dry_run=False`) is not followed.",
]


# ============================================================================================
# Normalisation layer.  The rules below never look at the functions as written; they look at a *synthetic* copy in which
#   * calls of private helpers (same module, name starts with `_`, or a single call site in the package) are inlined: parameters
#     that the helper never re-binds are substituted by plain-name / constant arguments, the other parameters become
#     `<param> = <argument>` statements, the helper's locals get fresh names, and `return X` in tail position becomes the assignment
#     (or expression) the call stood for - so an extracted loop looks exactly like the loop written in place;
#   * `a, b = x, y` is split into `a = x; b = y` when the right-hand side does not read a target;
#   * (adapt_circuit only) a loop-invariant boolean flag that is tested at several places is case-split: one copy of the function per
#     truth value, with the tests folded - so two loops that were merged under a flag look like the two loops again.
# On top of it `expand` (substitute single-definition locals), `elem_of` (which element of which container does a name denote:
# for-targets, comprehension targets, enumerate / items / index loops, tuple unpacking of the loop variable) and `terminal_defs`
# (definitions behind plain aliases) let the rules identify values by role rather than by spelling.
# ============================================================================================

_FUNCS = (ast.FunctionDef, ast.AsyncFunctionDef)
COMPS = (ast.ListComp, ast.SetComp, ast.DictComp, ast.GeneratorExp)
# functions the rules anchor on: never inlined
ANCHORS = frozenset({"grid_search", "adapt_circuit", "linearize_grid", "update_var", "update_template", "get_edge", "run", "from_yaml",
                     "get_nodes", "get_node_template", "add_node_template", "apply"})


# the sweep itself: an optional mode that leaves it early (before anything is simulated) is outside the property
FOLD_OPTIONAL_EXITS = frozenset({"grid_search"})


class SynFunc(FunctionInfo):
    """A normalised copy of a function.  Hashes differently from the original (own CFG / reaching definitions in ctx) but reports
    under the original's qualified name."""

    def __init__(self, orig: FunctionInfo, node, tag: str):
        FunctionInfo.__init__(self, name=orig.name, qualname=f"{orig.qualname}⟨{tag}⟩", module=orig.module, node=node, cls=orig.cls,
                              parent=orig.parent)
        self.orig = orig

    @property
    def qual(self):
        return self.orig.qual


def _cp(n, ren=None, sub=None):
    """Structural copy (no parent pointers); `ren` renames names, `sub` replaces loads of a name by an expression."""
    if isinstance(n, list):
        return [_cp(x, ren, sub) for x in n]
    if not isinstance(n, ast.AST):
        return n
    if sub and isinstance(n, ast.Name) and isinstance(n.ctx, ast.Load) and n.id in sub:
        return _cp(sub[n.id])
    new = _copy.copy(n)
    new.__dict__.pop("_parent", None)
    new._orig = getattr(n, "_orig", n)
    for field, val in ast.iter_fields(n):
        if isinstance(val, (list, ast.AST)):
            setattr(new, field, _cp(val, ren, sub))
    if ren:
        if isinstance(new, ast.Name) and new.id in ren:
            new.id = ren[new.id]
        elif isinstance(new, ast.ExceptHandler) and new.name in ren:
            new.name = ren[new.name]
    return new


def _at(new, ref):
    ast.copy_location(new, ref)
    ast.fix_missing_locations(new)
    return new


def _number(node):
    i = 0
    stack = [node]
    while stack:
        n = stack.pop()
        n._ord = i
        i += 1
        stack.extend(reversed(list(ast.iter_child_nodes(n))))


def ordered(nodes):
    return sorted(nodes, key=lambda n: (getattr(n, "_ord", 0), getattr(n, "lineno", 0), getattr(n, "col_offset", 0)))


def _has_ret(x) -> bool:
    xs = x if isinstance(x, list) else [x]
    return any(isinstance(n, ast.Return) for s in xs for n in ast.walk(s))


def _terminates(stmts) -> bool:
    if not stmts:
        return False
    last = stmts[-1]
    if isinstance(last, (ast.Return, ast.Raise)):
        return True
    if isinstance(last, ast.If):
        return _terminates(last.body) and _terminates(last.orelse)
    return False


def _tail(stmts, emit):
    """Rewrite a helper body so that every `return X` (all must be in tail position) becomes emit(X); None if that is impossible."""
    out = []
    for i, st in enumerate(stmts):
        rest = stmts[i + 1:]
        if isinstance(st, ast.Return):
            return out + emit(st.value, st)
        if isinstance(st, ast.Raise):
            return out + [st]
        if not _has_ret(st):
            out.append(st)
            continue
        if not isinstance(st, ast.If):
            return None
        bt, et = _terminates(st.body), _terminates(st.orelse)
        body = st.body if bt else st.body + rest
        orelse = st.orelse if et else st.orelse + (_cp(rest) if not bt else rest)
        nb, ne = _tail(body, emit), _tail(orelse, emit)
        if nb is None or ne is None:
            return None
        st.body = nb or [_at(ast.Pass(), st)]
        st.orelse = ne
        return out + [st]
    return out + emit(None, None)


def _safe_calls(e):
    """Calls inside `e` that are evaluated exactly once whenever `e` is (innermost first)."""
    if isinstance(e, ast.IfExp):
        yield from _safe_calls(e.test)
        return
    if isinstance(e, ast.BoolOp):
        yield from _safe_calls(e.values[0])
        return
    if isinstance(e, ast.Lambda):
        return
    if isinstance(e, COMPS):
        yield from _safe_calls(e.generators[0].iter)
        return
    for c in ast.iter_child_nodes(e):
        yield from _safe_calls(c)
    if isinstance(e, ast.Call):
        yield e


def _roots(st):
    if isinstance(st, (ast.Assign, ast.AugAssign, ast.Expr)):
        return [st.value]
    if isinstance(st, (ast.AnnAssign, ast.Return)) and st.value is not None:
        return [st.value]
    if isinstance(st, ast.If):
        return [st.test]
    if isinstance(st, (ast.For, ast.AsyncFor)):
        return [st.iter]
    return []


def _replace(root, old, new) -> bool:
    for n in ast.walk(root):
        for field, val in ast.iter_fields(n):
            if val is old:
                setattr(n, field, new)
                return True
            if isinstance(val, list):
                for i, x in enumerate(val):
                    if x is old:
                        val[i] = new
                        return True
    return False


def _inlinable_body(g: FunctionInfo) -> bool:
    for d in g.node.decorator_list:
        if not (isinstance(d, ast.Name) and d.id == "staticmethod"):
            return False
    for n in ast.walk(g.node):
        if n is g.node:
            continue
        if isinstance(n, _FUNCS + (ast.ClassDef, ast.Lambda, ast.Global, ast.Nonlocal, ast.Yield, ast.YieldFrom, ast.Await)):
            return False
    return True


class _Normaliser:
    def __init__(self, ctx, f: FunctionInfo):
        import builtins
        self.ctx, self.f = ctx, f
        self.counter = 0
        m = f.module
        self.local_names = {n.id for n in ast.walk(f.node) if isinstance(n, ast.Name) and isinstance(n.ctx, (ast.Store, ast.Del))} | set(f.params)
        self.used = {n.id for n in ast.walk(f.node) if isinstance(n, ast.Name)} | set(f.params) | set(m.functions) | set(m.classes) \
            | set(m.imports) | set(m.assigns) | set(dir(builtins))
        self.inlined: List[str] = []

    def build(self) -> SynFunc:
        node = _cp(self.f.node)
        node.body = self._block(node.body, (self.f,))
        if self.f.name in FOLD_OPTIONAL_EXITS:
            _fold_optional_exits(node)
        _split_parallel(node)
        ast.fix_missing_locations(node)
        set_parents(node)
        _number(node)
        F = SynFunc(self.f, node, "norm")
        F.inlined = list(self.inlined)
        return F

    # -- which calls are looked through
    def _target(self, call: ast.Call) -> Optional[FunctionInfo]:
        if getattr(call, "_noinline", False):
            return None
        fn, m, repo = call.func, self.f.module, self.ctx.repo
        g = None
        if isinstance(fn, ast.Name):
            if fn.id in self.local_names:
                return None
            r = repo.resolve_name(m, fn.id)
            if isinstance(r, FunctionInfo) and r.module is m and r.cls is None and r.parent is None:
                g = r
        elif isinstance(fn, ast.Attribute) and isinstance(fn.value, ast.Name):
            if self.f.cls is not None and self.f.self_name is not None and fn.value.id == self.f.self_name:
                r = repo.lookup_method(self.f.cls, fn.attr)
                if r is not None and r.module is m and not any(fn.attr in s.methods for s in repo.subclasses(self.f.cls, strict=True)):
                    g = r
            elif fn.value.id not in self.local_names:
                r = repo.resolve_expr(m, fn)
                if isinstance(r, FunctionInfo) and r.is_static and r.module is m:
                    g = r
        if g is None:
            return None
        name = g.name
        if name in ANCHORS or (name.startswith("__") and name.endswith("__")):
            return None
        if not name.startswith("_") and len(self.ctx.cg.call_sites_of(g)) != 1:
            return None
        return g

    def _block(self, stmts, stack):
        out = []
        for st in stmts:
            if isinstance(st, _FUNCS + (ast.ClassDef,)):
                out.append(st)
                continue
            for fld in ("body", "orelse", "finalbody"):
                b = getattr(st, fld, None)
                if isinstance(b, list) and b and isinstance(b[0], ast.stmt):
                    setattr(st, fld, self._block(b, stack))
            if isinstance(st, ast.Try):
                for h in st.handlers:
                    h.body = self._block(h.body, stack)
            out.extend(self._stmt(st, stack))
        return out

    def _stmt(self, st, stack):
        pre_all = []
        for _ in range(40):
            hit = None
            for root in _roots(st):
                for c in _safe_calls(root):
                    g = self._target(c)
                    if g is not None:
                        hit = (c, g)
                        break
                if hit:
                    break
            if hit is None:
                break
            res = self._expand(st, hit[0], hit[1], stack)
            if res is None:
                hit[0]._noinline = True
                continue
            pre, st2 = res
            pre_all.extend(pre)
            if st2 is None:
                return pre_all
            st = st2
        return pre_all + [st]

    def _expand(self, st, call, g, stack):
        if g in stack or len(stack) > 6 or not _inlinable_body(g):
            return None
        a = g.node.args
        if a.vararg or a.kwarg:
            return None
        if any(isinstance(x, ast.Starred) for x in call.args) or any(k.arg is None for k in call.keywords):
            return None
        pos = [x.arg for x in a.posonlyargs + a.args]
        kwonly = [x.arg for x in a.kwonlyargs]
        binding: Dict[str, ast.AST] = {}
        free = list(pos)
        if g.cls is not None and not g.is_static:
            if g.is_classmethod or g.is_property or not isinstance(call.func, ast.Attribute) or not pos:
                return None
            binding[pos[0]] = call.func.value
            free = pos[1:]
        if len(call.args) > len(free):
            return None
        for p, v in zip(free, call.args):
            binding[p] = v
        for k in call.keywords:
            if k.arg in binding or k.arg not in pos + kwonly:
                return None
            binding[k.arg] = k.value
        for i, d in enumerate(a.defaults):
            binding.setdefault(pos[len(pos) - len(a.defaults) + i], d)
        for nm, d in zip(kwonly, a.kw_defaults):
            if d is not None:
                binding.setdefault(nm, d)
        params = pos + kwonly
        if any(p not in binding for p in params):
            return None
        src = list(g.node.body)
        if src and isinstance(src[0], ast.Expr) and isinstance(src[0].value, ast.Constant) and isinstance(src[0].value.value, str):
            src = src[1:]
        stored = {n.id for s in src for n in ast.walk(s) if isinstance(n, ast.Name) and isinstance(n.ctx, (ast.Store, ast.Del))} \
            | {n.name for s in src for n in ast.walk(s) if isinstance(n, ast.ExceptHandler) and n.name}
        free_globals = {n.id for s in src for n in ast.walk(s) if isinstance(n, ast.Name)} - stored - set(params)
        sub = {p: binding[p] for p in params if p not in stored and isinstance(binding[p], (ast.Name, ast.Constant))}
        self.counter += 1
        k = self.counter
        ren: Dict[str, str] = {}
        for nm in params + sorted(stored):
            if nm in sub or nm in ren:
                continue
            new = nm if nm not in self.used else f"{nm}__{k}"
            while new in self.used:
                new += "_"
            self.used.add(new)
            ren[nm] = new
        pre = []
        for p in params:
            if p not in sub:
                pre.append(_at(ast.Assign(targets=[ast.Name(id=ren[p], ctx=ast.Store())], value=_cp(binding[p])), call))
        body = _cp(src, ren, sub)
        is_assign = isinstance(st, ast.Assign) and st.value is call
        is_expr = isinstance(st, ast.Expr) and st.value is call
        is_ret = isinstance(st, ast.Return) and st.value is call
        whole = is_assign or is_expr or is_ret
        ret_name = f"ret__{k}"
        emitted = []

        def emit(x, at):
            x = x if x is not None else ast.Constant(value=None)
            ref = at if at is not None else call
            if is_assign:
                s = [_at(ast.Assign(targets=_cp(st.targets), value=x), ref)]
            elif is_expr:
                s = [] if isinstance(x, (ast.Name, ast.Constant)) else [_at(ast.Expr(value=x), ref)]
            elif is_ret:
                s = [_at(ast.Return(value=x), ref)]
            else:
                s = [_at(ast.Assign(targets=[ast.Name(id=ret_name, ctx=ast.Store())], value=x), ref)]
            emitted.append((x, s))
            return s
        body2 = _tail(body, emit)
        if body2 is None:
            return None
        single_last = len(emitted) == 1 and emitted[0][1] and body2 and body2[-1] is emitted[0][1][0]
        new_st = None
        if is_assign and single_last and len(st.targets) == 1:
            # the helper's result variable *is* the caller's target: use one name for both
            T, X = st.targets[0], emitted[0][0]
            pairs = None
            if isinstance(T, ast.Name) and isinstance(X, ast.Name):
                pairs = [(T.id, X.id)]
            elif isinstance(T, ast.Tuple) and isinstance(X, ast.Tuple) and len(T.elts) == len(X.elts) \
                    and all(isinstance(e, ast.Name) for e in T.elts + X.elts):
                pairs = [(t.id, x.id) for t, x in zip(T.elts, X.elts)]
            if pairs:
                inv = {v: kk for kk, v in ren.items()}
                argreads = {n.id for v in binding.values() for n in ast.walk(v) if isinstance(n, ast.Name)}
                tn, xn = [t for t, _ in pairs], [x for _, x in pairs]
                if len(set(tn)) == len(tn) and len(set(xn)) == len(xn) and all(x in inv and inv[x] in stored and inv[x] not in params for x in xn) \
                        and not (set(tn) & argreads) and not (set(tn) & free_globals) and not (set(tn) & (set(ren.values()) - set(xn))):
                    m = dict(zip(xn, tn))
                    body2 = body2[:-1]
                    for s in body2:
                        for n in ast.walk(s):
                            if isinstance(n, ast.Name) and n.id in m:
                                n.id = m[n.id]
        if not whole:
            if single_last and isinstance(emitted[0][0], (ast.Name, ast.Constant)):
                body2 = body2[:-1]
                repl = _cp(emitted[0][0])
                if isinstance(repl, ast.Name):
                    repl.ctx = ast.Load()
            else:
                self.used.add(ret_name)
                repl = _at(ast.Name(id=ret_name, ctx=ast.Load()), call)
            if not _replace(st, call, repl):
                return None
            new_st = st
        self.inlined.append(g.qualname)
        return self._block(pre + body2, stack + (g,)), new_st


def _fold_optional_exits(node):
    """An `if <flag>: ... return / raise` whose flag is a never re-bound parameter with a constant boolean default and whose
    exit is taken only for the NON-default value (`dry_run: bool = False` -> `if dry_run: return circuit, table`) is an optional
    other mode of the function, not the behaviour the property speaks about: the rules look at the function as it runs with
    today's defaults, so the branch is dropped."""
    a = node.args
    pos = a.posonlyargs + a.args
    defaults: Dict[str, bool] = {}
    for arg, d in zip(pos[len(pos) - len(a.defaults):], a.defaults):
        if isinstance(d, ast.Constant) and isinstance(d.value, bool):
            defaults[arg.arg] = d.value
    for arg, d in zip(a.kwonlyargs, a.kw_defaults):
        if isinstance(d, ast.Constant) and isinstance(d.value, bool):
            defaults[arg.arg] = d.value
    stored = {n.id for n in ast.walk(node) if isinstance(n, ast.Name) and isinstance(n.ctx, (ast.Store, ast.Del))}
    flags = {k: v for k, v in defaults.items() if k not in stored}
    if not flags:
        return

    def truth(t):
        if isinstance(t, ast.Name) and t.id in flags:
            return flags[t.id]
        if isinstance(t, ast.UnaryOp) and isinstance(t.op, ast.Not):
            v = truth(t.operand)
            return None if v is None else not v
        if isinstance(t, ast.Compare) and len(t.ops) == 1 and isinstance(t.ops[0], (ast.Is, ast.Eq, ast.IsNot, ast.NotEq)) \
                and isinstance(t.left, ast.Name) and t.left.id in flags and isinstance(t.comparators[0], ast.Constant) \
                and isinstance(t.comparators[0].value, bool):
            same = flags[t.left.id] == t.comparators[0].value
            return same if isinstance(t.ops[0], (ast.Is, ast.Eq)) else not same
        return None

    def block(stmts):
        out = []
        for st in stmts:
            for fld in ("body", "orelse", "finalbody"):
                b = getattr(st, fld, None)
                if isinstance(b, list) and b and isinstance(b[0], ast.stmt) and not isinstance(st, _FUNCS + (ast.ClassDef,)):
                    setattr(st, fld, block(b) or [_at(ast.Pass(), st)])
            if isinstance(st, ast.If):
                v = truth(st.test)
                if v is False and not st.orelse and _terminates(st.body) and isinstance(st.body[-1], ast.Return):
                    continue
            out.append(st)
        return out
    node.body = block(node.body) or [_at(ast.Pass(), node)]


def _split_parallel(node):
    """`a, b = x, y` -> `a = x; b = y` where no right-hand side reads a target (same meaning, simpler definitions)."""
    for n in ast.walk(node):
        for fld in ("body", "orelse", "finalbody"):
            b = getattr(n, fld, None)
            if not (isinstance(b, list) and b and isinstance(b[0], ast.stmt)):
                continue
            out = []
            for st in b:
                if isinstance(st, ast.Assign) and len(st.targets) == 1 and isinstance(st.targets[0], ast.Tuple) and isinstance(st.value, ast.Tuple) \
                        and len(st.targets[0].elts) == len(st.value.elts) and all(isinstance(t, ast.Name) for t in st.targets[0].elts) \
                        and not any(isinstance(v, ast.Starred) for v in st.value.elts):
                    tn = {t.id for t in st.targets[0].elts}
                    reads = {x.id for v in st.value.elts for x in ast.walk(v) if isinstance(x, ast.Name)}
                    if not (tn & reads) and len(tn) == len(st.targets[0].elts):
                        for t, v in zip(st.targets[0].elts, st.value.elts):
                            out.append(_at(ast.Assign(targets=[t], value=v), st))
                        continue
                out.append(st)
            setattr(n, fld, out)


def syn(ctx, f: FunctionInfo) -> SynFunc:
    cache = ctx.__dict__.setdefault("_c17_syn", {})
    key = (f.module.rel, f.qualname)
    if key not in cache:
        cache[key] = _Normaliser(ctx, f).build()
    return cache[key]


# ---- case split on loop-invariant boolean flags ------------------------------------------------

def _test_uses(F, name):
    """Loads of `name` that are (an and/or/not combination inside) the test of an if statement / conditional expression."""
    out = []
    for n in walk_shallow(F.node):
        if isinstance(n, ast.Name) and n.id == name and isinstance(n.ctx, ast.Load):
            c, p = n, parent(n)
            while isinstance(p, (ast.BoolOp, ast.UnaryOp)) and (not isinstance(p, ast.UnaryOp) or isinstance(p.op, ast.Not)):
                c, p = p, parent(p)
            if isinstance(p, (ast.If, ast.IfExp)) and p.test is c:
                out.append(n)
    return out


def _flags(ctx, F) -> List[str]:
    stores: Dict[str, list] = {}
    for n in walk_shallow(F.node):
        if isinstance(n, ast.Name) and isinstance(n.ctx, (ast.Store, ast.Del)):
            stores.setdefault(n.id, []).append(n)
    cfg = ctx.cfg(F)
    out = []
    for name, ss in stores.items():
        if len(ss) != 1 or name in F.params:
            continue
        d = parent(ss[0])
        if not (isinstance(d, ast.Assign) and len(d.targets) == 1 and d.targets[0] is ss[0]):
            continue
        uses = _test_uses(F, name)
        if len(uses) < 2:
            continue
        loops = [a for a in ancestors(d) if isinstance(a, (ast.For, ast.AsyncFor, ast.While))]
        inner = loops[0] if loops else None
        ok = True
        for u in uses:
            us = stmt_of(cfg, u)
            if us is None or us is d or not cfg.dominates(d, us) or (inner is not None and not contains(inner, u)):
                ok = False
        if ok:
            out.append(name)
    return sorted(out)


def _simp_test(e, asg):
    """Fold a test under the assumption `asg` (name -> bool): a Constant when decided, else a (possibly simpler) expression."""
    if isinstance(e, ast.Name) and e.id in asg:
        return ast.copy_location(ast.Constant(value=asg[e.id]), e)
    if isinstance(e, ast.UnaryOp) and isinstance(e.op, ast.Not):
        v = _simp_test(e.operand, asg)
        if isinstance(v, ast.Constant):
            return ast.copy_location(ast.Constant(value=not v.value), e)
        e.operand = v
        return e
    if isinstance(e, ast.BoolOp):
        is_and = isinstance(e.op, ast.And)
        vals = []
        for x in e.values:
            v = _simp_test(x, asg)
            if isinstance(v, ast.Constant) and isinstance(v.value, bool):
                if v.value != is_and:
                    return ast.copy_location(ast.Constant(value=not is_and), e)
                continue
            vals.append(v)
        if not vals:
            return ast.copy_location(ast.Constant(value=is_and), e)
        if len(vals) == 1:
            return vals[0]
        e.values = vals
        return e
    return e


def _spec_expr(e, asg):
    if not isinstance(e, ast.AST):
        return e
    for field, val in ast.iter_fields(e):
        if isinstance(val, list):
            setattr(e, field, [_spec_expr(x, asg) for x in val])
        elif isinstance(val, ast.AST):
            setattr(e, field, _spec_expr(val, asg))
    if isinstance(e, ast.IfExp):
        t = _simp_test(e.test, asg)
        if isinstance(t, ast.Constant) and isinstance(t.value, bool):
            return e.body if t.value else e.orelse
        e.test = t
    return e


def _spec_block(stmts, asg):
    out = []
    for st in stmts:
        for fld in ("body", "orelse", "finalbody"):
            b = getattr(st, fld, None)
            if isinstance(b, list) and (not b or isinstance(b[0], ast.stmt)) and isinstance(st, ast.stmt):
                setattr(st, fld, _spec_block(b, asg))
        if isinstance(st, ast.Try):
            for h in st.handlers:
                h.body = _spec_block(h.body, asg)
        for field, val in ast.iter_fields(st):
            if field in ("body", "orelse", "finalbody", "handlers"):
                continue
            if isinstance(val, list):
                setattr(st, field, [_spec_expr(x, asg) for x in val])
            elif isinstance(val, ast.AST):
                setattr(st, field, _spec_expr(val, asg))
        if isinstance(st, ast.If):
            t = _simp_test(st.test, asg)
            if isinstance(t, ast.Constant) and isinstance(t.value, bool):
                out.extend(st.body if t.value else st.orelse)
                continue
            st.test = t
            if not st.body:
                st.body = [_at(ast.Pass(), st)]
        out.append(st)
    return out


def variants(ctx, F: SynFunc) -> List[SynFunc]:
    """One copy of F per truth assignment of its loop-invariant flags (F itself when there are none)."""
    cache = ctx.__dict__.setdefault("_c17_var", {})
    if F not in cache:
        flags = _flags(ctx, F)[:3]
        if not flags:
            cache[F] = [F]
        else:
            out = []
            for combo in itertools.product((True, False), repeat=len(flags)):
                asg = dict(zip(flags, combo))
                node = _cp(F.node)
                node.body = _spec_block(node.body, asg) or [ast.Pass()]
                ast.fix_missing_locations(node)
                set_parents(node)
                _number(node)
                out.append(SynFunc(F.orig, node, "case " + ",".join(f"{k}={v}" for k, v in asg.items())))
            cache[F] = out
    return cache[F]


# ---- values by role --------------------------------------------------------------------------------

def comp_generator_of(name: ast.Name):
    """The comprehension generator that binds this use of a name, the string 'lambda' for a lambda parameter, or None."""
    for a in ancestors(name):
        if isinstance(a, COMPS):
            gens = a.generators
            vis = len(gens)
            for i, g in enumerate(gens):
                if contains(g.iter, name):
                    vis = i
                    break
                if any(contains(c, name) for c in g.ifs):
                    vis = i + 1
                    break
            for g in reversed(gens[:vis]):
                if name.id in target_names(g.target):
                    return g
        elif isinstance(a, ast.Lambda):
            args = a.args
            if name.id in [x.arg for x in args.posonlyargs + args.args + args.kwonlyargs]:
                return "lambda"
        elif isinstance(a, _FUNCS):
            break
    return None


def block_of(st: ast.stmt) -> Optional[list]:
    p = parent(st)
    for field in ("body", "orelse", "finalbody"):
        b = getattr(p, field, None)
        if isinstance(b, list) and any(x is st for x in b):
            return b
    return None


def resolve(ctx, F, e: ast.AST, depth: int = 8) -> ast.AST:
    """Follow `name = expr` while the name has exactly one reaching plain definition."""
    while depth > 0 and isinstance(e, ast.Name) and comp_generator_of(e) is None:
        defs = ctx.rd(F).defs_reaching(e)
        if len(defs) != 1 or isinstance(defs[0], ast.arguments):
            break
        v = assigned_value(defs[0], e.id)
        if v is None:
            break
        e = v
        depth -= 1
    return e


def terminal_defs(ctx, F, n: ast.Name, depth: int = 8):
    """Definitions behind plain aliases: [(defining node, value expression or None, name)] - a definition `a = b` is replaced by the
    definitions of `b` that reach it."""
    out, seen = [], set()

    def go(x, d):
        if comp_generator_of(x) is not None:
            out.append((comp_generator_of(x), None, x.id))
            return
        for df in ctx.rd(F).defs_reaching(x):
            if id(df) in seen:
                continue
            seen.add(id(df))
            v = None if isinstance(df, ast.arguments) else assigned_value(df, x.id)
            if isinstance(v, ast.Name) and d > 0:
                go(v, d - 1)
            else:
                out.append((df, v, x.id))
    go(n, depth)
    return out


def origins(ctx, F, n) -> set:
    """Identity of what a name may denote: (defining node, defined name) of its terminal definitions - the name matters because all
    parameters share one defining node (`arguments`) and a tuple assignment defines several names at once."""
    return {(id(d), nm) for d, _, nm in terminal_defs(ctx, F, n)}


def same_origin(ctx, F, a, b) -> bool:
    if not (isinstance(a, ast.Name) and isinstance(b, ast.Name)):
        return False
    da, db = origins(ctx, F, a), origins(ctx, F, b)
    return bool(da) and da == db


def is_param(ctx, F, e, pname: Optional[str] = None) -> bool:
    """`e` is (an alias of) the function's own, never re-bound parameter."""
    if not isinstance(e, ast.Name) or comp_generator_of(e) is not None:
        return False
    tds = terminal_defs(ctx, F, e)
    return len(tds) == 1 and isinstance(tds[0][0], ast.arguments) and tds[0][2] in F.params and (pname is None or tds[0][2] == pname)


def _stable(ctx, F, d, use_node, value) -> bool:
    """May `value` (right-hand side of definition `d`) be substituted at `use_node`?  Yes unless something it reads is re-bound on a
    path from `d` to the use that does not pass through `d` again."""
    cfg = ctx.cfg(F)
    use_st = stmt_of(cfg, use_node)
    if use_st is None or d not in cfg.g:
        return False
    rn, ra = _reads(value)
    off = []
    for st in cfg.stmts():
        if st is d or st is use_st:
            continue
        wn, wa = _rebinds(st)
        if (wn & rn) or any(a == b or b.startswith(a + ".") for a in wa for b in ra):
            off.append(st)
    if not off:
        return True

    def reach(start):
        seen, stack = set(), [s for s in cfg.g.successors(start) if s is not d]
        while stack:
            n = stack.pop()
            if n in seen:
                continue
            seen.add(n)
            stack.extend(s for s in cfg.g.successors(n) if s is not d and s not in seen)
        return seen
    fwd = reach(d)
    return not any(st in fwd and (use_st in reach(st)) for st in off)


_EXPANDABLE = (ast.Name, ast.Attribute, ast.Subscript, ast.Call, ast.BinOp, ast.UnaryOp, ast.Compare, ast.Constant, ast.IfExp, ast.Tuple,
               ast.BoolOp, ast.JoinedStr, ast.Dict, ast.List)


def expand(ctx, F, node: ast.AST, depth: int = 8) -> ast.AST:
    """Copy of an expression in which every local with exactly one reaching plain definition is replaced by that definition's value
    (recursively), provided nothing the value reads is re-bound in between.  Parameters, loop variables and names with several
    definitions stay; the copies keep their position (parent pointer), so reaching definitions can still be asked of them; `_src`
    is the node of the function a copy stands for."""
    rd = ctx.rd(F)

    def T(n, d):
        if isinstance(n, ast.Name) and isinstance(n.ctx, ast.Load) and d > 0 and comp_generator_of(n) is None:
            defs = rd.defs_reaching(n)
            if len(defs) == 1 and not isinstance(defs[0], ast.arguments):
                v = assigned_value(defs[0], n.id)
                if v is not None and isinstance(v, _EXPANDABLE) and _stable(ctx, F, defs[0], n, v):
                    return T(v, d - 1)
        if not isinstance(n, ast.AST):
            return n
        new = _copy.copy(n)
        new._src = getattr(n, "_src", n)
        for field, val in ast.iter_fields(n):
            if isinstance(val, list):
                setattr(new, field, [T(x, d) if isinstance(x, ast.AST) else x for x in val])
            elif isinstance(val, ast.AST):
                setattr(new, field, T(val, d))
        return new
    return fold_tuples(_splice_expr_helpers(ctx, F, T(node, depth)))


def _bind_helper_args(g: FunctionInfo, call: ast.Call) -> Optional[Dict[str, ast.AST]]:
    a = g.node.args
    if a.vararg or a.kwarg or any(isinstance(x, ast.Starred) for x in call.args) or any(k.arg is None for k in call.keywords):
        return None
    pos = [x.arg for x in a.posonlyargs + a.args]
    kwonly = [x.arg for x in a.kwonlyargs]
    binding: Dict[str, ast.AST] = {}
    free = list(pos)
    if g.cls is not None and not g.is_static:
        if g.is_classmethod or g.is_property or not isinstance(call.func, ast.Attribute) or not pos:
            return None
        binding[pos[0]] = call.func.value
        free = pos[1:]
    if len(call.args) > len(free):
        return None
    for p, v in zip(free, call.args):
        binding[p] = v
    for k in call.keywords:
        if k.arg in binding or k.arg not in pos + kwonly:
            return None
        binding[k.arg] = k.value
    for i, d in enumerate(a.defaults):
        binding.setdefault(pos[len(pos) - len(a.defaults) + i], d)
    for nm, d in zip(kwonly, a.kw_defaults):
        if d is not None:
            binding.setdefault(nm, d)
    return binding if all(p in binding for p in pos + kwonly) else None


def _splice_expr_helpers(ctx, F, e, depth: int = 3):
    """Copy of an (expanded) expression in which calls of private one-expression helpers (`def _h(x): return <expr>`) are replaced by
    that expression with the arguments substituted - also in positions the statement-level inliner does not reach (comprehension
    elements, subscript targets, branches of conditional expressions) - and module-level string constants (`ALL = "all"`) by their
    value."""
    orig = getattr(F, "orig", F)
    nz = F.__dict__.get("_expr_normaliser")
    if nz is None:
        nz = F.__dict__["_expr_normaliser"] = _Normaliser(ctx, orig)
        F.__dict__["_local_ids"] = {n.id for n in ast.walk(F.node) if isinstance(n, ast.Name) and isinstance(n.ctx, (ast.Store, ast.Del))} | set(F.params)
    local_ids = F.__dict__["_local_ids"]
    m = orig.module

    def subst(n, binding):
        if isinstance(n, ast.Name) and isinstance(n.ctx, ast.Load) and n.id in binding:
            return binding[n.id]
        if not isinstance(n, ast.AST):
            return n
        new = _copy.copy(n)
        new.__dict__.pop("_parent", None)             # a node of the helper: not a position in F
        for field, val in ast.iter_fields(n):
            if isinstance(val, list):
                setattr(new, field, [subst(x, binding) if isinstance(x, ast.AST) else x for x in val])
            elif isinstance(val, ast.AST):
                setattr(new, field, subst(val, binding))
        return new

    def H(n, d):
        if isinstance(n, ast.Call) and d > 0:
            g = nz._target(n)
            if g is not None and _inlinable_body(g):
                body = [x for x in g.node.body if not (isinstance(x, ast.Expr) and isinstance(x.value, ast.Constant))]
                binding = _bind_helper_args(g, n) if len(body) == 1 and isinstance(body[0], ast.Return) and body[0].value is not None else None
                stored = {x.id for x in ast.walk(g.node) if isinstance(x, ast.Name) and isinstance(x.ctx, (ast.Store, ast.Del))}
                if binding is not None and not stored:
                    return H(subst(body[0].value, binding), d - 1)
        if isinstance(n, ast.Name) and isinstance(n.ctx, ast.Load) and n.id not in local_ids and comp_generator_of_safe(n) is None:
            ds = m.assigns.get(n.id, [])
            if len(ds) == 1 and isinstance(ds[0], ast.Assign) and isinstance(ds[0].value, ast.Constant) and isinstance(ds[0].value.value, str):
                return ast.copy_location(ast.Constant(value=ds[0].value.value), n)
        if not isinstance(n, ast.AST):
            return n
        new = _copy.copy(n)
        for field, val in ast.iter_fields(n):
            if isinstance(val, list):
                setattr(new, field, [H(x, d) if isinstance(x, ast.AST) else x for x in val])
            elif isinstance(val, ast.AST):
                setattr(new, field, H(val, d))
        return new
    return H(e, depth)


def comp_generator_of_safe(n):
    return comp_generator_of(n) if hasattr(n, "_parent") else None


def fold_tuples(e):
    """(a, b) + (c,) -> (a, b, c)"""
    if isinstance(e, ast.BinOp) and isinstance(e.op, ast.Add):
        l, r = fold_tuples(e.left), fold_tuples(e.right)
        if isinstance(l, ast.Tuple) and isinstance(r, ast.Tuple):
            new = _copy.copy(l)
            new.elts = list(l.elts) + list(r.elts)
            return new
    return e


def same_value(ctx, F, a: ast.AST, b: ast.AST) -> bool:
    """Equal expressions (after substituting single-definition locals) all of whose names have identical bindings."""
    def eq(x, y):
        if ast.dump(x) != ast.dump(y):
            return False
        rd = ctx.rd(F)
        nx = [n for n in ast.walk(x) if isinstance(n, ast.Name)]
        ny = [n for n in ast.walk(y) if isinstance(n, ast.Name)]
        for p, q in zip(nx, ny):
            gp, gq = comp_generator_of(p), comp_generator_of(q)
            if gp is not None or gq is not None:
                if gp is not gq:
                    return False
                continue
            if {id(d) for d in rd.defs_reaching(p)} != {id(d) for d in rd.defs_reaching(q)}:
                return False
        return True
    return eq(a, b) or eq(expand(ctx, F, a), expand(ctx, F, b))


class Elem:
    """`name` denotes, in the current iteration of `binder`, the element at `path` of one item of `container`.
    kind: elem (an item of the iterable; for a dict: a key), key / value / item (of `container.items()` ...), index (position)."""
    __slots__ = ("container", "binder", "path", "kind", "snapshot")

    def __init__(self, container, binder, path, kind, snapshot):
        self.container, self.binder, self.path, self.kind, self.snapshot = container, binder, tuple(path), kind, snapshot

    def extend(self, p):
        return Elem(self.container, self.binder, self.path + (p,), self.kind, self.snapshot)


def _one_or_many(e):
    """`[x] if <x is a single item> else list(x)` (a one-or-many normaliser): x, else None"""
    if not isinstance(e, ast.IfExp):
        return None
    for single, many in ((e.body, e.orelse), (e.orelse, e.body)):
        if isinstance(single, (ast.List, ast.Tuple)) and len(single.elts) == 1:
            m = many
            while isinstance(m, ast.Call) and not m.keywords and isinstance(m.func, ast.Name) and m.func.id in ("list", "tuple") and len(m.args) == 1:
                m = m.args[0]
            if ast.dump(m) == ast.dump(single.elts[0]):
                return m
    return None


def _strip_snapshot(e):
    snap = False
    while True:
        x = _one_or_many(e)
        if x is None:
            break
        e, snap = x, True
    while isinstance(e, ast.Call) and not e.keywords:
        if isinstance(e.func, ast.Name) and e.func.id in ("list", "tuple", "dict", "deepcopy", "copy") and len(e.args) == 1:
            e, snap = e.args[0], True
        elif isinstance(e.func, ast.Attribute) and e.func.attr == "copy" and not e.args:
            e, snap = e.func.value, True
        elif isinstance(e.func, ast.Attribute) and e.func.attr in ("deepcopy", "copy") and len(e.args) == 1 and isinstance(e.func.value, ast.Name) \
                and e.func.value.id == "copy":
            e, snap = e.args[0], True
        else:
            break
    return e, snap


def _path_in(target, name):
    """Path of `name` inside a (nested) tuple target: () for the plain name, (i, ...) else; a starred element is ('*', i)."""
    if isinstance(target, ast.Name):
        return () if target.id == name else None
    if isinstance(target, (ast.Tuple, ast.List)):
        for i, t in enumerate(target.elts):
            if isinstance(t, ast.Starred):
                if isinstance(t.value, ast.Name) and t.value.id == name:
                    return (("*", i),)
                continue
            p = _path_in(t, name)
            if p is not None:
                return (i,) + p
    return None


def _iter_elem(it, path):
    it, snap = _strip_snapshot(it)
    if isinstance(it, ast.Call):
        nm = call_name(it)
        if isinstance(it.func, ast.Name) and nm == "enumerate" and it.args:
            if not path:
                return None
            if path[0] == 0:
                return _strip_snapshot(it.args[0])[0], "index", path[1:], snap
            if path[0] == 1:
                r = _iter_elem(it.args[0], path[1:])
                return None if r is None else (r[0], r[1], r[2], r[3] or snap)
            return None
        if isinstance(it.func, ast.Name) and nm == "zip":
            if not path or not isinstance(path[0], int) or path[0] >= len(it.args):
                return None
            return _iter_elem(it.args[path[0]], path[1:])
        if isinstance(it.func, ast.Name) and nm == "range":
            if path:
                return None
            cont = None
            if len(it.args) == 1 and isinstance(it.args[0], ast.Call) and isinstance(it.args[0].func, ast.Name) and it.args[0].func.id == "len" \
                    and len(it.args[0].args) == 1:
                cont = it.args[0].args[0]
            return cont, "index", (), snap
        if isinstance(it.func, ast.Attribute) and nm in ("items", "keys", "values") and not it.args and not it.keywords:
            recv, s2 = _strip_snapshot(it.func.value)
            if nm == "items":
                if not path:
                    return recv, "item", (), snap or s2
                if path[0] in (0, 1):
                    return recv, ("key", "value")[path[0]], path[1:], snap or s2
                return None
            return recv, ("key" if nm == "keys" else "value"), path, snap or s2
    return it, "elem", path, snap


def elem_of(ctx, F, n, depth: int = 6) -> Optional[Elem]:
    if depth <= 0 or not isinstance(n, ast.Name):
        return None
    g = comp_generator_of(n)
    if g == "lambda":
        return None
    if g is not None:
        target, it, binder = g.target, g.iter, g
    else:
        defs = ctx.rd(F).defs_reaching(n)
        if len(defs) != 1:
            return None
        d = defs[0]
        if isinstance(d, (ast.For, ast.AsyncFor)):
            target, it, binder = d.target, d.iter, d
        elif isinstance(d, ast.Assign) and len(d.targets) == 1:
            t, v = d.targets[0], d.value
            p = _path_in(t, n.id)
            if p is None:
                return None
            if isinstance(v, ast.Subscript) and isinstance(v.slice, ast.Slice) and v.slice.lower is None and v.slice.step is None and p:
                v = v.value                                                     # a, b, c = record[:3]
            e = None
            if isinstance(v, ast.Subscript) and isinstance(v.slice, ast.Slice) and v.slice.upper is None and v.slice.step is None and not p \
                    and isinstance(v.slice.lower, ast.Constant) and isinstance(v.slice.lower.value, int) and isinstance(v.value, ast.Name):
                b = elem_of(ctx, F, v.value, depth - 1)                          # rest = record[3:]
                return b.extend(("*", v.slice.lower.value)) if b is not None else None
            if isinstance(v, ast.Name):
                e = elem_of(ctx, F, v, depth - 1)
            elif isinstance(v, ast.Subscript) and isinstance(v.value, ast.Name):
                idx = v.slice
                if isinstance(idx, ast.Constant) and isinstance(idx.value, int) and not isinstance(idx.value, bool):
                    b = elem_of(ctx, F, v.value, depth - 1)
                    e = b.extend(idx.value) if b is not None else None
                elif isinstance(idx, ast.Name):
                    ie = elem_of(ctx, F, idx, depth - 1)                         # x = xs[i] in `for i in range(len(xs))`
                    if ie is not None and ie.kind == "index" and not ie.path and ie.container is not None \
                            and ast.dump(expand(ctx, F, ie.container)) == ast.dump(expand(ctx, F, v.value)):
                        e = Elem(v.value, ie.binder, (), "elem", ie.snapshot)
            if e is None:
                return None
            for x in p:
                e = e.extend(x)
            return e
        else:
            return None
    p = _path_in(target, n.id)
    if p is None:
        return None
    r = _iter_elem(expand(ctx, F, it), p)
    if r is None:
        return None
    return Elem(r[0], binder, r[2], r[1], r[3])


def elem_of_expr(ctx, F, e, depth: int = 4) -> Optional[Elem]:
    """elem_of for a name or a constant subscript chain of one (`spec[0]`)."""
    if isinstance(e, ast.Name):
        return elem_of(ctx, F, e)
    if depth > 0 and isinstance(e, ast.Subscript) and isinstance(e.slice, ast.Constant) and isinstance(e.slice.value, int) \
            and not isinstance(e.slice.value, bool):
        b = elem_of_expr(ctx, F, e.value, depth - 1)
        return b.extend(e.slice.value) if b is not None else None
    return None


def _func(ctx, name) -> SynFunc:
    return syn(ctx, ctx.repo.get_func(UT, name))


def _calls(F, name):
    return ordered([c for c in walk_shallow(F.node) if isinstance(c, ast.Call) and call_name(c) == name])


def _is_deepcopy(ctx, F, e) -> bool:
    return isinstance(e, ast.Call) and ctx.repo.external_name(F.module, e.func) in ("copy.deepcopy",) and len(e.args) == 1


def _the_run_call(ctx, gs, rid):
    runs = [c for c in _calls(gs, "run") if isinstance(c.func, ast.Attribute) and any(k.arg == "simulation_time" for k in c.keywords)]
    ctx.require(len(runs) == 1, f"{rid}: expected one `<circuit>.run(simulation_time=...)` call in grid_search, found {len(runs)}")
    ctx.require(isinstance(runs[0].func.value, ast.Name), f"{rid}: the receiver of run() in grid_search is not a plain name (unrecognised form)")
    return runs[0]


def _row_loop(ctx, gs, rid):
    """(loop, update_template call) of grid_search."""
    ups = [c for c in _calls(gs, "update_template")]
    ctx.require(len(ups) == 1, f"{rid}: expected one update_template call in grid_search, found {len(ups)}")
    up = ups[0]
    loops = [a for a in ancestors(up) if isinstance(a, (ast.For, ast.While))]
    ctx.require(len(loops) == 1 and isinstance(loops[0], ast.For), f"{rid}: update_template is not inside exactly one for loop in grid_search")
    return loops[0], up


def _row_entry(ctx, gs, up, rid):
    """(key, value) of the single `{key: circuit}` entry handed to update_template(circuits=...)."""
    cd = {k.arg: k.value for k in up.keywords}.get("circuits")
    cd = resolve(ctx, gs, cd) if cd is not None else None
    ctx.require(isinstance(cd, ast.Dict) and len(cd.keys) == 1 and cd.keys[0] is not None,
                f"{rid}: `{norm(up)}` does not add exactly one `{{key: circuit}}` entry (unrecognised form)")
    return cd.keys[0], cd.values[0]


def _row_labels(ctx, gs, loop, rid):
    """(table, names): the row loop visits `<table>.index` (directly, through a snapshot or enumerate) and `names` are the loop
    variables that hold the row label; table is None when the loop counts positions (`range(...)`)."""
    def peel(e):
        e = resolve(ctx, gs, e)
        e2, snap = _strip_snapshot(e)
        return resolve(ctx, gs, e2) if snap else e
    it = peel(loop.iter)
    tgt = loop.target
    if isinstance(it, ast.Call) and isinstance(it.func, ast.Name) and it.func.id == "enumerate" and len(it.args) == 1 \
            and isinstance(tgt, ast.Tuple) and len(tgt.elts) == 2:
        it = peel(it.args[0])
        tgt = tgt.elts[1]
    if isinstance(it, ast.Attribute) and it.attr == "index" and isinstance(it.value, ast.Name) and isinstance(tgt, ast.Name):
        return it.value, {tgt.id}
    if isinstance(it, ast.Call) and isinstance(it.func, ast.Name) and it.func.id == "range":
        return None, set(target_names(loop.target))
    raise AnalysisError(f"{rid}: the row loop iterates `{norm(loop.iter)}`, not `<table>.index` (unrecognised form)")


def _row_table(ctx, gs, loop, rid):
    return _row_labels(ctx, gs, loop, rid)[0]


def _bind_call(g: FunctionInfo, call: ast.Call) -> Dict[str, ast.AST]:
    params = list(g.params)
    if g.cls is not None and not g.is_static and params:
        params = params[1:]
    bound = dict(zip(params, call.args))
    bound.update({k.arg: k.value for k in call.keywords if k.arg is not None})
    return bound


# --------------------------------------------------------------------------------------------
# R1 — private copy per row, rows uncoupled
# --------------------------------------------------------------------------------------------

_SHARING_CALLS = {"copy", "from_yaml", "update_template", "CircuitTemplate", "from_file"}


def _copy_sources(ctx, F, e, rid, depth=6):
    """[(kind, node, name)] for everything the template expression `e` may be: kind copy | param | shared."""
    if depth <= 0:
        raise AnalysisError(f"{rid}: cannot trace `{norm(e)}` in {F.orig.qualname}")
    if _is_deepcopy(ctx, F, e):
        return [("copy", e, None)]
    if isinstance(e, ast.IfExp):
        return _copy_sources(ctx, F, e.body, rid, depth - 1) + _copy_sources(ctx, F, e.orelse, rid, depth - 1)
    if isinstance(e, ast.Name):
        out = []
        for d, v, nm in terminal_defs(ctx, F, e):
            if isinstance(d, ast.arguments):
                out.append(("param", d, nm))
            elif v is None:
                raise AnalysisError(f"{rid}: `{nm}` is bound by `{norm(d)}` (unrecognised form)")
            else:
                out += [(k, d, nm) for k, _, _ in _copy_sources(ctx, F, v, rid, depth - 1)]
        return out
    if isinstance(e, ast.Call) and call_name(e) in _SHARING_CALLS:
        return [("shared", e, None)]
    if isinstance(e, ast.Attribute):
        return [("shared", e, None)]
    raise AnalysisError(f"{rid}: `{norm(e)}` is neither a deepcopy nor a recognised way of sharing a template (unrecognised form)")


def r1_private_copy_uncoupled(ctx, rid):
    ac = _func(ctx, "adapt_circuit")
    gs = _func(ctx, "grid_search")
    uvs = _calls(ac, "update_var")
    ctx.require(len(uvs) == 1 and isinstance(uvs[0].func, ast.Attribute) and isinstance(uvs[0].func.value, ast.Name),
                f"{rid}: expected one `<template>.update_var(...)` call in adapt_circuit")
    uv = uvs[0]
    recv = uv.func.value
    srcs = _copy_sources(ctx, ac, recv, rid)
    ctx.require(srcs, f"{rid}: `{recv.id}` has no definition in adapt_circuit")
    done = set()
    for kind, d, nm in sorted(srcs, key=lambda t: getattr(t[1], "_ord", -1)):
        if kind == "param":
            if "param" in done:
                continue
            done.add("param")
            ctx.violation(rid, ac, uv, f"on some path `{recv.id}` is still the caller's own template when update_var is applied: the sweep would "
                                       f"write one row's parameter values into the template every other row (and the caller) uses",
                          label=f"private copy: parameter `{recv.id}` reaches update_var")
            continue
        if id(d) in done:
            continue
        done.add(id(d))
        if kind == "copy" and not any(k != "copy" for k, d2, _ in srcs if d2 is d):
            ctx.ok(rid, ac, d, "the template that receives update_var is a deepcopy on this path", label=f"private copy: {norm(d)}")
        else:
            ctx.violation(rid, ac, d, f"`{norm(d)}` binds the template that receives update_var to something that is not a deepcopy: grid rows "
                                      f"would share (and overwrite) one another's parameter values", label=f"private copy: {norm(d)}")
    # the copy is what is returned
    rets = [n for n in walk_shallow(ac.node) if isinstance(n, ast.Return)]
    upd = ctx.repo.get_func(CIRC, "CircuitTemplate.update_var")
    self_rets = [n for n in walk_shallow(upd.node) if isinstance(n, ast.Return)]
    returns_self = bool(self_rets) and all(isinstance(r.value, ast.Name) and r.value.id == upd.self_name for r in self_rets)
    ctx.require(len(rets) == 1 and rets[0].value is not None, f"{rid}: adapt_circuit does not have exactly one `return <value>` (unrecognised form)")
    rv = rets[0].value
    direct = resolve(ctx, ac, rv) is uv
    ctx.require(direct or isinstance(rv, ast.Name), f"{rid}: adapt_circuit returns `{norm(rv)}` (unrecognised form)")
    via_name = not direct and same_origin(ctx, ac, rv, recv) and ctx.cfg(ac).dominates(stmt_of(ctx.cfg(ac), uv), rets[0])
    if (direct and returns_self) or via_name:
        ctx.ok(rid, ac, rets[0], "adapt_circuit returns the updated private copy (update_var returns self)", label="returns the copy")
    else:
        ctx.violation(rid, ac, rets[0], "adapt_circuit does not return the template it updated "
                                        f"(update_var returns self: {returns_self})", label="returns the copy")
    # grid_search: per-row circuit = adapt_circuit(caller's template, row params, caller's map)
    loop, up = _row_loop(ctx, gs, rid)
    _, entry = _row_entry(ctx, gs, up, rid)
    val = resolve(ctx, gs, entry)
    aco = ac.orig
    is_adapt = isinstance(val, ast.Call) and isinstance(val.func, ast.Name) and ctx.repo.resolve_name(gs.module, val.func.id) == aco
    if not is_adapt and any(isinstance(c, ast.Call) and call_name(c) == "adapt_circuit" for c in ast.walk(val)):
        raise AnalysisError(f"{rid}: the sub-circuit of a row is `{norm(val)}`: adapt_circuit's result is wrapped (unrecognised form)")
    good = is_adapt and contains(loop, val) and all(p in _bind_call(aco, val) for p in aco.params[:3])
    if good:
        bound = _bind_call(aco, val)

        def callers_template(e) -> bool:
            """the caller's template parameter - as given, or loaded from it (`template = CircuitTemplate.from_yaml(template)`) once,
            outside the row loop: every row still gets its own deep copy from adapt_circuit (first part of this rule)"""
            if is_param(ctx, gs, e):
                return True
            if not isinstance(e, ast.Name):
                return False
            tds = terminal_defs(ctx, gs, e)
            pnames = {nm for d, _, nm in tds if isinstance(d, ast.arguments)}
            if len(pnames) != 1 or not pnames <= set(gs.params):
                return False
            for d, v, nm in tds:
                if isinstance(d, ast.arguments):
                    continue
                if contains(loop, d) or not (isinstance(v, ast.Call) and call_name(v) in ("from_yaml",) and len(v.args) == 1
                                             and isinstance(v.args[0], ast.Name) and v.args[0].id in pnames):
                    return False
            return True
        good = callers_template(bound.get(aco.params[0])) and is_param(ctx, gs, bound.get(aco.params[2]))
    if good:
        ctx.ok(rid, gs, up, "the sub-circuit of each row is the value adapt_circuit returned for the caller's template and parameter map",
               {"row_circuit": norm(val)}, label="row circuit is adapt_circuit's result")
    else:
        ctx.violation(rid, gs, up, f"the sub-circuit added for a grid row is `{norm(val)}`, not the result of adapt_circuit(<caller's template>, "
                                   f"<row parameters>, <caller's parameter map>) computed in this iteration: rows would share a template or miss "
                                   f"their parameter values", label="row circuit is adapt_circuit's result")
    # top-level circuit: empty template, only extended through update_template(circuits=...)
    run = _the_run_call(ctx, gs, rid)
    top = run.func.value
    tds = terminal_defs(ctx, gs, top)
    ctx.require(tds, f"{rid}: `{top.id}` has no definition in grid_search")
    family = {(id(d), nm) for d, _, nm in tds}
    for d, v, nm in sorted([x for x in tds if not isinstance(x[0], ast.arguments)], key=lambda t: getattr(t[0], "_ord", -1)):
        label = f"top-level circuit: {norm(d)}"
        if isinstance(v, ast.Call) and isinstance(v.func, ast.Name) and getattr(ctx.repo.resolve_name(gs.module, v.func.id), "name", None) == "CircuitTemplate":
            kws = {k.arg for k in v.keywords}
            if kws <= {"name", "path", "description"} and len(v.args) <= 3:
                ctx.ok(rid, gs, d, "the top-level circuit starts as an empty CircuitTemplate (no nodes, circuits or edges)", label=label)
            else:
                ctx.violation(rid, gs, d, f"the top-level circuit is created with content ({sorted(kws - {'name', 'path', 'description'})}): "
                                          f"the swept circuits would not be the only, uncoupled members", label=label)
        elif isinstance(v, ast.Call) and call_name(v) == "update_template" and isinstance(v.func, ast.Attribute) \
                and isinstance(v.func.value, ast.Name) and origins(ctx, gs, v.func.value) <= family:
            kws = {k.arg for k in v.keywords}
            if kws <= {"circuits", "in_place"} and not v.args:
                ctx.ok(rid, gs, d, "the top-level circuit is extended with a sub-circuit only (no edges between rows)", label=label)
            else:
                ctx.violation(rid, gs, d, f"the top-level circuit is extended with {sorted(kws - {'circuits'}) or 'positional arguments'}: edges "
                                          f"or nodes at the top level couple the grid rows (each row must evolve on its own)", label=label)
        elif isinstance(v, ast.Call) and call_name(v) in ("adapt_circuit", "from_yaml", "deepcopy", "copy"):
            ctx.violation(rid, gs, d, f"the circuit that is run is bound by `{norm(d)}`, neither an empty CircuitTemplate nor "
                                      f"update_template(circuits=...) of it", label=label)
        else:
            raise AnalysisError(f"{rid}: the circuit that is run is bound by `{norm(d)}` (unrecognised form)")
    if any(isinstance(d, ast.arguments) for d, _, _ in tds):
        ctx.violation(rid, gs, run, f"`{top.id}` may still be a parameter of grid_search when it is run", label="top-level circuit: parameter")
    # no other use of the top-level circuit
    for n in ordered(walk_shallow(gs.node)):
        if isinstance(n, ast.Name) and isinstance(n.ctx, ast.Load) and comp_generator_of(n) is None \
                and origins(ctx, gs, n) & family:
            p = parent(n)
            gp = parent(p) if p is not None else None
            if isinstance(p, ast.Attribute) and isinstance(gp, ast.Call) and gp.func is p and p.attr in ("update_template", "run"):
                continue
            if isinstance(p, ast.Assign) and p.value is n and all(isinstance(t, ast.Name) for t in p.targets):
                continue                                                        # plain alias
            st = stmt_of(ctx.cfg(gs), n)
            if isinstance(p, ast.Attribute) and isinstance(gp, ast.Call) and gp.func is p and re.search(r"edge|connect|update_var|add_", p.attr):
                ctx.violation(rid, gs, st, f"`{norm(gp)}` alters the top-level circuit outside update_template(circuits=...): the rows of the "
                                           f"sweep may become coupled", label=f"top-level circuit: other use {norm(st)}")
            else:
                raise AnalysisError(f"{rid}: unrecognised use of the top-level circuit `{n.id}` in `{norm(st)}`")


# --------------------------------------------------------------------------------------------
# R2 — one key per row
# --------------------------------------------------------------------------------------------

def _appends_to(ctx, F, lst: ast.Name):
    """[(statement, appended expression)] for `<lst>.append(x)` / `<lst> += [x]` on (an alias of) the list `lst`."""
    out = []
    for n in walk_shallow(F.node):
        if isinstance(n, ast.Call) and call_name(n) == "append" and isinstance(n.func, ast.Attribute) and isinstance(n.func.value, ast.Name) \
                and len(n.args) == 1 and (n.func.value.id == lst.id or same_origin(ctx, F, n.func.value, lst)):
            out.append((n, n.args[0]))
        elif isinstance(n, ast.AugAssign) and isinstance(n.op, ast.Add) and isinstance(n.target, ast.Name) and n.target.id == lst.id \
                and isinstance(n.value, ast.List) and len(n.value.elts) == 1:
            out.append((n, n.value.elts[0]))
    return sorted(out, key=lambda t: getattr(t[0], "_ord", 0))


def r2_one_key_per_row(ctx, rid):
    gs = _func(ctx, "grid_search")
    rd = ctx.rd(gs)
    cfg = ctx.cfg(gs)
    loop, up = _row_loop(ctx, gs, rid)
    key, _ = _row_entry(ctx, gs, up, rid)
    loop_table = _row_table(ctx, gs, loop, rid)
    if loop_table is None:
        raise AnalysisError(f"{rid}: the row loop iterates `{norm(loop.iter)}`, not `<table>.index` (unrecognised form)")

    idx_assigns = [st for st in walk_shallow(gs.node) if isinstance(st, ast.Assign) and len(st.targets) == 1
                   and isinstance(st.targets[0], ast.Attribute) and st.targets[0].attr == "index"]
    ctx.require(len(idx_assigns) <= 1, f"{rid}: several assignments to an `.index` in grid_search (unrecognised form)")
    ia = idx_assigns[0] if idx_assigns else None
    if ia is not None:
        ctx.require(isinstance(ia.value, ast.Name) and isinstance(ia.targets[0].value, ast.Name), f"{rid}: unrecognised form of `{norm(ia)}`")
        lst = ia.value
    else:
        cands = {}
        for c in _calls(gs, "append"):
            if isinstance(c.func.value, ast.Name) and contains(loop, c) and block_of(stmt_of(cfg, c)) is loop.body:
                cands.setdefault(c.func.value.id, c.func.value)
        ctx.require(len(cands) == 1, f"{rid}: cannot identify the list of row labels in grid_search (candidates {sorted(cands)})")
        lst = next(iter(cands.values()))
    apps = _appends_to(ctx, gs, lst)
    ctx.require(apps, f"{rid}: nothing is appended to `{lst.id}`")
    # (a) same value, same iteration
    up_st = stmt_of(cfg, up)
    for ap, arg in apps:
        ap_st = stmt_of(cfg, ap)
        same_iter = contains(loop, ap) and block_of(ap_st) is loop.body and block_of(up_st) is loop.body
        if same_value(ctx, gs, arg, key) and same_iter:
            ctx.ok(rid, gs, ap_st, "the label recorded for the row is the key its sub-circuit is stored under (same value, same iteration)",
                   {"key": norm(key)}, label="label == sub-circuit key")
        elif not same_iter:
            ctx.violation(rid, gs, ap_st, "label and sub-circuit are not recorded once per iteration of the row loop (conditional or misplaced): "
                                          "labels and circuits drift apart", label="label == sub-circuit key")
        else:
            ctx.violation(rid, gs, ap_st, f"the row is labelled `{norm(arg)}` but its sub-circuit is stored under "
                                          f"`{norm(key)}`: the returned table maps a result column to another row's parameter values",
                          label="label == sub-circuit key")
    # (b) unique: contains the loop variable
    loopvars = set(target_names(loop.target))
    kr = expand(ctx, gs, key)
    inside_adapt = {id(x) for c in ast.walk(kr) if isinstance(c, ast.Call) and call_name(c) == "adapt_circuit" for x in ast.walk(c)}
    dep = {n.id for n in ast.walk(kr) if isinstance(n, ast.Name) and n.id in loopvars and comp_generator_of(n) is None
           and id(n) not in inside_adapt and any(d is loop for d in rd.defs_reaching(n))}
    kst = stmt_of(cfg, resolve(ctx, gs, key)) or up_st
    if dep:
        ctx.ok(rid, gs, kst, "the key contains the row label, so every row has its own key", {"key": norm(kr)}, label="key is unique per row")
    else:
        ctx.violation(rid, gs, kst, f"the key `{norm(kr)}` does not depend on the row: every row would be stored under the same key and "
                                    f"overwrite the previous one (one circuit is simulated instead of one per row)", label="key is unique per row")
    # (c) + (d) the labels become the index of the iterated table (or of a copy of it), after the loop
    if ia is None:
        ctx.violation(rid, gs, loop, "the parameter table's index is never set to the list of circuit keys: the returned table does not map "
                                     "result labels to parameter values", label="parameter table index")
        labelled = None
    else:
        labelled = ia.targets[0].value
        src = resolve(ctx, gs, labelled)
        is_copy = isinstance(src, ast.Call) and ((call_name(src) == "copy" and isinstance(src.func, ast.Attribute) and isinstance(src.func.value, ast.Name)
                                                  and same_origin(ctx, gs, src.func.value, loop_table))
                                                 or (call_name(src) == "deepcopy" and src.args and isinstance(src.args[0], ast.Name)
                                                     and same_origin(ctx, gs, src.args[0], loop_table)))
        if same_origin(ctx, gs, labelled, loop_table) or is_copy:
            ctx.ok(rid, gs, loop, "rows are visited in the order of the table that receives the labels", label="row order")
        else:
            ctx.violation(rid, gs, loop, f"the loop runs over `{norm(loop.iter)}` but the labels are assigned to `{labelled.id}.index`: label i would "
                                         f"not belong to row i", label="row order")
        after = not contains(loop, ia) and cfg.dominates(loop, ia)
        app_stmts = {id(a) for a, _ in apps}
        fresh = [v for d, v, _ in terminal_defs(ctx, gs, ia.value) if id(d) not in app_stmts]
        fresh_ok = len(fresh) == 1 and ((isinstance(fresh[0], ast.List) and not fresh[0].elts)
                                        or (isinstance(fresh[0], ast.Call) and isinstance(fresh[0].func, ast.Name) and fresh[0].func.id == "list"
                                            and not fresh[0].args))
        if after and fresh_ok:
            ctx.ok(rid, gs, ia, "after the loop the table's index becomes exactly the list of recorded keys", label="parameter table index")
        else:
            ctx.violation(rid, gs, ia, "the table's index is not set, after the row loop, to the freshly built list of keys", label="parameter table index")
    # (e) the labelled table is returned
    rets = [n for n in walk_shallow(gs.node) if isinstance(n, ast.Return)]
    ctx.require(len(rets) == 1 and isinstance(rets[0].value, ast.Tuple) and len(rets[0].value.elts) == 2 and isinstance(rets[0].value.elts[1], ast.Name),
                f"{rid}: grid_search does not end in one `return <results>, <table>` (unrecognised form)")
    ok_ret = ia is not None and same_origin(ctx, gs, rets[0].value.elts[1], labelled) and cfg.dominates(ia, rets[0])
    if ok_ret:
        ctx.ok(rid, gs, rets[0], "the re-indexed parameter table is what grid_search returns", label="returned table")
    else:
        ctx.violation(rid, gs, rets[0], "grid_search does not return the table whose index was set to the result labels", label="returned table")


# --------------------------------------------------------------------------------------------
# R3 — row values reach what the parameter map addresses
# --------------------------------------------------------------------------------------------

class _Sink:
    """Obligations of one rule part evaluated on several case-split copies of a function: one obligation per label, a violation in
    any case wins."""

    def __init__(self):
        self.items: Dict[str, tuple] = {}
        self.order: List[str] = []

    def add(self, status, node, msg, label, facts=None, nontrivial=True):
        if label not in self.items:
            self.order.append(label)
            self.items[label] = (status, node, msg, facts, nontrivial)
        elif status == "violation" and self.items[label][0] != "violation":
            self.items[label] = (status, node, msg, facts, nontrivial)

    def ok(self, node, msg, label, facts=None, nontrivial=True):
        self.add("ok", node, msg, label, facts, nontrivial)

    def violation(self, node, msg, label, facts=None):
        self.add("violation", node, msg, label, facts)

    def flush(self, ctx, rid, F):
        for label in self.order:
            status, node, msg, facts, nontrivial = self.items[label]
            if status == "ok":
                ctx.ok(rid, F, node, msg, facts, label=label, nontrivial=nontrivial)
            else:
                ctx.violation(rid, F, node, msg, facts, label=label)


def _path_parts(e):
    """['all/', <expr>] for f"all/{x}" / "all/" + x / "/".join((a, b)): literal text and expressions in order, or None."""
    if isinstance(e, ast.JoinedStr):
        out = []
        for v in e.values:
            if isinstance(v, ast.Constant) and isinstance(v.value, str):
                out.append(v.value)
            elif isinstance(v, ast.FormattedValue) and v.format_spec is None and v.conversion in (-1, 115):
                out.append(v.value.value if isinstance(v.value, ast.Constant) and isinstance(v.value.value, str) else v.value)
            else:
                return None
        return _merge_text(out)
    if isinstance(e, ast.Constant) and isinstance(e.value, str):
        return [e.value]
    if isinstance(e, ast.BinOp) and isinstance(e.op, ast.Add):
        l, r = _path_parts(e.left), _path_parts(e.right)
        if l is None:
            l = [e.left] if isinstance(e.left, ast.Name) else None
        if r is None:
            r = [e.right] if isinstance(e.right, ast.Name) else None
        return _merge_text(l + r) if l is not None and r is not None else None
    if isinstance(e, ast.Call) and isinstance(e.func, ast.Attribute) and e.func.attr == "join" and isinstance(e.func.value, ast.Constant) \
            and isinstance(e.func.value.value, str) and len(e.args) == 1 and isinstance(e.args[0], (ast.Tuple, ast.List)) and not e.keywords:
        out = []
        for i, x in enumerate(e.args[0].elts):
            if i:
                out.append(e.func.value.value)
            out.append(x.value if isinstance(x, ast.Constant) and isinstance(x.value, str) else x)
        return _merge_text(out)
    return None


def _merge_text(parts):
    out = []
    for p in parts:
        if isinstance(p, str) and out and isinstance(out[-1], str):
            out[-1] += p
        elif p != "":
            out.append(p)
    return out


def _dict_entries(ctx, F, name: ast.Name, within, rid):
    """[(statement, key expr, value expr)] of everything stored into the dict behind `name` (its definitions as literal /
    comprehension, later `d[k] = v` stores) inside `within`."""
    out = []
    for d, v, nm in terminal_defs(ctx, F, name):
        if isinstance(d, ast.arguments):
            continue
        if isinstance(v, ast.DictComp):
            out.append((d, v.key, v.value))
        elif isinstance(v, ast.Dict):
            for k, x in zip(v.keys, v.values):
                if k is None:
                    raise AnalysisError(f"{rid}: `{norm(d)}` merges another dict (unrecognised form)")
                out.append((d, k, x))
        elif isinstance(v, ast.Call) and isinstance(v.func, ast.Name) and v.func.id == "dict" and not v.args and not v.keywords:
            pass
        else:
            raise AnalysisError(f"{rid}: `{nm}` is built by `{norm(d)}` (unrecognised form)")
    for st in walk_shallow(F.node):
        if isinstance(st, ast.Assign) and len(st.targets) == 1 and isinstance(st.targets[0], ast.Subscript) and isinstance(st.targets[0].value, ast.Name) \
                and (st.targets[0].value.id == name.id or same_origin(ctx, F, st.targets[0].value, name)) and (within is None or contains(within, st)):
            out.append((st, st.targets[0].slice, st.value))
    return sorted(out, key=lambda t: getattr(t[0], "_ord", 0))


def _r3_row_values(ctx, rid, gs, ac):
    loop, up = _row_loop(ctx, gs, rid)
    rd = ctx.rd(gs)
    acalls = [c for c in _calls(gs, "adapt_circuit") if contains(loop, c)]
    ctx.require(len(acalls) == 1, f"{rid}: expected one adapt_circuit call in the row loop")
    bound = _bind_call(ac.orig, acalls[0])
    P = bound.get(ac.orig.params[1])
    ctx.require(isinstance(P, ast.Name), f"{rid}: the row parameters handed to adapt_circuit are not a plain name (unrecognised form)")
    stores = [s for s in _dict_entries(ctx, gs, P, loop, rid) if contains(loop, s[0])]
    ctx.require(stores, f"{rid}: nothing is stored into `{P.id}` inside the row loop")
    loop_table, rowvars = _row_labels(ctx, gs, loop, rid)
    for st, k, v in stores:
        col = row = tbl = None
        if isinstance(v, ast.Subscript) and isinstance(v.value, ast.Subscript) and isinstance(v.value.value, ast.Name):
            tbl, col, row = v.value.value, v.value.slice, v.slice            # table[col][row]
        elif isinstance(v, ast.Subscript) and isinstance(v.value, ast.Attribute) and v.value.attr in ("loc", "at") \
                and isinstance(v.value.value, ast.Name) and isinstance(v.slice, ast.Tuple) and len(v.slice.elts) == 2:
            tbl, row, col = v.value.value, v.slice.elts[0], v.slice.elts[1]  # table.loc[row, col]
        elif isinstance(v, ast.Subscript) and isinstance(v.value, ast.Subscript) and isinstance(v.value.value, ast.Attribute) \
                and v.value.value.attr == "loc" and isinstance(v.value.value.value, ast.Name):
            tbl, row, col = v.value.value.value, v.value.slice, v.slice      # table.loc[row][col]
        if tbl is None:
            raise AnalysisError(f"{rid}: `{norm(st)}` does not read `<table>[<key>][<row>]` (unrecognised form)")
        table_ok = loop_table is not None and same_origin(ctx, gs, loop_table, tbl)
        col_ok = same_value(ctx, gs, col, k)
        row_ok = isinstance(row, ast.Name) and row.id in rowvars and comp_generator_of(row) is None and any(d is loop for d in rd.defs_reaching(row))
        if table_ok and col_ok and row_ok:
            ctx.ok(rid, gs, st, "the row's parameter dict gets, under each key, the table value of that key in that row", label="row values")
        else:
            ctx.violation(rid, gs, st, f"`{norm(st)}` does not store the value of column `{norm(k)}` in the current row "
                                       f"(column matches: {col_ok}, row is the loop's row label: {row_ok}, same table: {table_ok}): the row would "
                                       f"be simulated with another row's or another parameter's value", label="row values")


class _AdaptCase:
    """The record building of adapt_circuit on one case-split copy V of the function."""

    def __init__(self, ctx, rid, V, sink):
        self.ctx, self.rid, self.V, self.sink = ctx, rid, V, sink
        ps = V.orig.params
        self.p_params, self.p_map = ps[1], ps[2]
        self.key_binder = None

    # -- roles
    def is_key(self, e) -> bool:
        """`e` is the key of the current iteration of the loop over the parameters (or over the parameter map)."""
        if not isinstance(e, ast.Name):
            return False
        el = elem_of(self.ctx, self.V, e)
        if el is None or el.path or el.kind not in ("key", "elem") or not isinstance(el.container, ast.Name):
            return False
        if not (is_param(self.ctx, self.V, el.container, self.p_params) or is_param(self.ctx, self.V, el.container, self.p_map)):
            return False
        if self.key_binder is None:
            self.key_binder = el.binder
        return el.binder is self.key_binder

    def is_val(self, e) -> bool:
        """the value params[key] of the current key"""
        x = expand(self.ctx, self.V, e)
        if isinstance(x, ast.Name):
            el = elem_of(self.ctx, self.V, x)
            return el is not None and el.kind == "value" and not el.path and isinstance(el.container, ast.Name) \
                and is_param(self.ctx, self.V, el.container, self.p_params) and (self.key_binder is None or el.binder is self.key_binder)
        if isinstance(x, ast.Subscript):
            return is_param(self.ctx, self.V, x.value, self.p_params) and self.is_key(x.slice)
        if isinstance(x, ast.Call) and call_name(x) == "get" and isinstance(x.func, ast.Attribute) and len(x.args) == 1 and not x.keywords:
            return is_param(self.ctx, self.V, x.func.value, self.p_params) and self.is_key(x.args[0])
        return False

    def is_mapping(self, e) -> bool:
        """param_map[key] of the current key"""
        x = expand(self.ctx, self.V, e)
        if isinstance(x, ast.Name):
            el = elem_of(self.ctx, self.V, x)
            return el is not None and el.kind == "value" and not el.path and isinstance(el.container, ast.Name) \
                and is_param(self.ctx, self.V, el.container, self.p_map) and (self.key_binder is None or el.binder is self.key_binder)
        if isinstance(x, ast.Subscript):
            return is_param(self.ctx, self.V, x.value, self.p_map) and self.is_key(x.slice)
        return False

    def is_map_field(self, e, field) -> bool:
        x, _ = _strip_snapshot(expand(self.ctx, self.V, e))
        if isinstance(x, ast.Call) and isinstance(x.func, ast.Attribute) and x.func.attr == "get" and not x.keywords and x.args \
                and isinstance(x.args[0], ast.Constant) and x.args[0].value == field and (len(x.args) == 1 or _is_empty_literal(x.args[1])):
            return self.is_mapping(x.func.value)                      # map[key].get(field, [])
        return isinstance(x, ast.Subscript) and isinstance(x.slice, ast.Constant) and x.slice.value == field and self.is_mapping(x.value)

    def from_map_list(self, e, field) -> Optional[Elem]:
        """`e` is the loop variable of a loop over param_map[key][field]"""
        if not isinstance(e, ast.Name):
            return None
        el = elem_of(self.ctx, self.V, e)
        if el is None or el.kind != "elem" or el.path or el.container is None or not self.is_map_field(el.container, field):
            return None
        return el

    # -- the collections handed to update_var
    def collect(self, root, kind):
        """(records, fresh): what is put into the dict (kind 'dict': (stmt, key, value)) / list (kind 'list': (stmt, record)) behind
        `root`, through literals, stores, append / extend / update of local collections that end up in it."""
        ctx, V, rid = self.ctx, self.V, self.rid
        names: Dict[str, ast.Name] = {}
        records, fresh = [], True
        work = [root]

        def literal(d, v):
            nonlocal fresh
            if kind == "dict":
                if isinstance(v, ast.Dict):
                    for k, x in zip(v.keys, v.values):
                        if k is None:
                            work.append(x)
                        else:
                            records.append((d, k, x))
                    return True
                if isinstance(v, ast.DictComp):
                    records.append((d, v.key, v.value))
                    return True
                if isinstance(v, ast.Call) and isinstance(v.func, ast.Name) and v.func.id == "dict" and not v.args and not v.keywords:
                    return True
                if isinstance(v, ast.BinOp) and isinstance(v.op, ast.BitOr):
                    work.extend([v.left, v.right])
                    return True
            else:
                if isinstance(v, (ast.List, ast.Tuple)):
                    for x in v.elts:
                        if isinstance(x, ast.Starred):
                            work.append(x.value)
                        else:
                            records.append((d, x))
                    return True
                if isinstance(v, ast.ListComp) and len(v.generators) >= 1:
                    records.append((d, v.elt))
                    return True
                if isinstance(v, ast.Call) and isinstance(v.func, ast.Name) and v.func.id == "list" and not v.args and not v.keywords:
                    return True
                if isinstance(v, ast.BinOp) and isinstance(v.op, ast.Add):
                    work.extend([v.left, v.right])
                    return True
            return False
        seen = set()
        while work:
            e = work.pop()
            if isinstance(e, ast.Name):
                for d, v, nm in terminal_defs(ctx, V, e):
                    if id(d) in seen:
                        continue
                    seen.add(id(d))
                    if isinstance(d, ast.arguments):
                        fresh = False
                    elif isinstance(d, ast.AugAssign):
                        pass                                                     # handled with the mutations below
                    elif v is None or not literal(d, v):
                        raise AnalysisError(f"{rid}: the update collection `{nm}` is built by `{norm(d)}` (unrecognised form)")
                    if nm not in names:
                        names[nm] = e
                        # mutations of this local collection
                        for st in walk_shallow(V.node):
                            if isinstance(st, ast.Assign) and len(st.targets) == 1 and isinstance(st.targets[0], ast.Subscript) \
                                    and isinstance(st.targets[0].value, ast.Name) and st.targets[0].value.id == nm:
                                if kind != "dict":
                                    raise AnalysisError(f"{rid}: `{norm(st)}` stores into the record list by position (unrecognised form)")
                                records.append((st, st.targets[0].slice, st.value))
                            elif isinstance(st, ast.Call) and isinstance(st.func, ast.Attribute) and isinstance(st.func.value, ast.Name) \
                                    and st.func.value.id == nm:
                                m = st.func.attr
                                if kind == "dict" and m == "update" and len(st.args) == 1 and not st.keywords:
                                    work.append(st.args[0])
                                elif kind == "dict" and m == "setdefault" and len(st.args) == 2:
                                    records.append((st, st.args[0], st.args[1]))
                                elif kind == "list" and m == "append" and len(st.args) == 1:
                                    records.append((st, st.args[0]))
                                elif kind == "list" and m == "extend" and len(st.args) == 1:
                                    work.append(st.args[0])
                                elif kind == "list" and m == "insert" and len(st.args) == 2:
                                    records.append((st, st.args[1]))
                                elif m in ("update", "setdefault", "append", "extend", "insert", "pop", "remove", "clear", "popitem", "sort", "reverse"):
                                    raise AnalysisError(f"{rid}: `{norm(st)}` changes the update collection (unrecognised form)")
                            elif isinstance(st, ast.AugAssign) and isinstance(st.target, ast.Name) and st.target.id == nm:
                                if (kind == "list" and isinstance(st.op, ast.Add)) or (kind == "dict" and isinstance(st.op, ast.BitOr)):
                                    work.append(st.value)
                                else:
                                    raise AnalysisError(f"{rid}: `{norm(st)}` changes the update collection (unrecognised form)")
            elif isinstance(e, ast.Call) and isinstance(e.func, ast.Name) and e.func.id in ("list", "dict", "tuple") and len(e.args) == 1 and not e.keywords:
                work.append(e.args[0])
            elif not literal(stmt_of(ctx.cfg(V), e), e):
                raise AnalysisError(f"{rid}: `{norm(e)}` is merged into the update collection (unrecognised form)")
        key = (lambda t: getattr(t[0], "_ord", 0))
        uniq, ids = [], set()
        for r in sorted(records, key=key):
            if id(r[-1]) not in ids:
                ids.add(id(r[-1]))
                uniq.append(r)
        return uniq, fresh

    def run(self):
        ctx, rid, V, sink = self.ctx, self.rid, self.V, self.sink
        cfg = ctx.cfg(V)
        # reads of the parameter map use the key whose value is applied
        reads = []
        for s in ordered(walk_shallow(V.node)):
            if isinstance(s, ast.Subscript) and isinstance(s.value, ast.Name) and isinstance(s.ctx, ast.Load) and is_param(ctx, V, s.value, self.p_map):
                reads.append((s, s.slice))
            elif isinstance(s, ast.Call) and isinstance(s.func, ast.Attribute) and s.func.attr == "get" and isinstance(s.func.value, ast.Name) \
                    and is_param(ctx, V, s.func.value, self.p_map) and s.args:
                reads.append((s, s.args[0]))
        # (a loop over param_map.items() binds the key itself)
        bad = [s for s, k in reads if not self.is_key(k)]
        if bad:
            k = bad[0].slice if isinstance(bad[0], ast.Subscript) else bad[0].args[0]
            if isinstance(k, (ast.Name, ast.Constant, ast.Subscript)) or self.key_binder is None:
                sink.violation(stmt_of(cfg, bad[0]), f"`{norm(bad[0])}` reads the parameter map under another key than the one whose value "
                                                     f"is applied: a value would be written to another parameter's targets", "map entry of the same key")
            else:
                raise AnalysisError(f"{rid}: `{norm(bad[0])}` reads the parameter map under an unrecognised key")
        uv = _calls(V, "update_var")
        ctx.require(len(uv) == 1, f"{rid}: expected one update_var call in adapt_circuit")
        upd = ctx.repo.get_func(CIRC, "CircuitTemplate.update_var")
        ukw = _bind_call(upd, uv[0])
        ctx.require("node_vars" in ukw and "edge_vars" in ukw, f"{rid}: `{norm(uv[0])}` does not pass node_vars and edge_vars (unrecognised form)")
        nrecs, nfresh = self.collect(ukw["node_vars"], "dict")
        erecs, efresh = self.collect(ukw["edge_vars"], "list")
        ctx.require(nrecs, f"{rid}: adapt_circuit never fills `{norm(ukw['node_vars'])}`")
        ctx.require(erecs, f"{rid}: adapt_circuit never fills `{norm(ukw['edge_vars'])}`")
        # node records
        for st, k, v in nrecs:
            parts = _path_parts(expand(ctx, V, k))
            if parts is None:
                raise AnalysisError(f"{rid}: node record key `{norm(k)}` is not a `<node>/<var>` path (unrecognised form)")
            good = len(parts) == 3 and parts[1] == "/" and not isinstance(parts[0], str) and not isinstance(parts[2], str) \
                and self.from_map_list(parts[0], "nodes") is not None and self.from_map_list(parts[2], "vars") is not None and self.is_val(v)
            stn = st if isinstance(st, ast.stmt) else stmt_of(cfg, st)
            if good:
                sink.ok(stn, "a node record is `<node>/<var>` of the key's own node and variable lists and carries the key's value",
                        f"node record {norm(stn)}")
            else:
                sink.violation(stn, f"`{norm(stn)}` is not `<node of map[key]['nodes']>/<var of map[key]['vars']>` = params[key]: the value "
                                    f"would reach another variable than the parameter map names", f"node record {norm(stn)}")
        # edge records
        for no, (st, rec0) in enumerate(erecs, 1):
            rec = expand(ctx, V, rec0)
            if not (isinstance(rec, ast.Tuple) and len(rec.elts) in (3, 4)):
                raise AnalysisError(f"{rid}: edge record `{norm(rec0)}` is not a 3- or 4-tuple (unrecognised form)")
            ap_st = st if isinstance(st, ast.stmt) else stmt_of(cfg, st)
            why = []
            ge = None
            for i in (0, 1):
                e = rec.elts[i]
                if isinstance(e, ast.Subscript) and isinstance(e.slice, ast.Constant) and e.slice.value == i and isinstance(e.value, ast.Call) \
                        and call_name(e.value) == "get_edge" and (ge is None or getattr(ge, "_src", ge) is getattr(e.value, "_src", e.value)):
                    ge = e.value
                    continue
                if not isinstance(e, (ast.Name, ast.Subscript, ast.Constant)):
                    raise AnalysisError(f"{rid}: element {i} of the edge record `{norm(rec0)}` is `{norm(e)}` (unrecognised form)")
                why.append(f"element {i} is `{norm(e)}`, not element {i} of the edge that get_edge resolved")
            d = rec.elts[2]
            if not (isinstance(d, ast.Dict) and len(d.keys) == 1 and d.keys[0] is not None and self.from_map_list(d.keys[0], "vars") is not None
                    and self.is_val(d.values[0])):
                why.append(f"the attribute update `{norm(d)}` is not {{<var of map[key]['vars']>: params[key]}}")
            variable_idx = False
            if ge is not None:
                gkw = dict(zip(("source", "target", "idx"), ge.args))
                gkw.update({k.arg: k.value for k in ge.keywords})
                roles = {}
                eloop = None
                for role, pos in (("source", 0), ("target", 1), ("idx", 2)):
                    a = gkw.get(role)
                    if a is None or (role == "idx" and isinstance(a, ast.Constant) and a.value in (0, None)):
                        continue
                    src = a
                    if role == "idx" and isinstance(a, ast.IfExp):
                        # `spec[2] if len(spec) > 2 else 0`: the entry's own index where it has one, else the default 0
                        alts = [b for b in (a.body, a.orelse) if not (isinstance(b, ast.Constant) and b.value in (0, None))]
                        if len(alts) == 1:
                            src = alts[0]
                            dflt = a.orelse if alts[0] is a.body else a.body
                            if isinstance(dflt, ast.Constant) and dflt.value is None:
                                why.append(f"an entry without index is resolved (and recorded) with index `None` (`{norm(a)}`), but update_var and "
                                           f"the edge map address the first edge by the integer 0: the record points at an edge key that does not exist")
                    el = elem_of_expr(ctx, V, src)
                    if el is None and not isinstance(a, (ast.Name, ast.Constant)):
                        raise AnalysisError(f"{rid}: cannot tell where get_edge's `{role}` argument `{norm(a)}` comes from (unrecognised form)")
                    if el is not None and role == "idx" and el.path == (("*", 2), 0):
                        el = Elem(el.container, el.binder, (2,), el.kind, el.snapshot)      # `s, t, *rest in edges` ... `rest[0]`
                    if el is None or el.kind != "elem" or el.path != (pos,) or (eloop is not None and el.binder is not eloop.binder):
                        why.append(f"get_edge's `{role}` is `{norm(a)}`, not element {pos} of the map's edge entry this record is built for")
                    else:
                        eloop = el
                        roles[role] = a
                if "source" not in roles or "target" not in roles:
                    if not why:
                        why.append("get_edge is not called with the source and target of the map's edge entry")
                elif eloop is not None and not self.is_map_field(eloop.container, "edges"):
                    why.append(f"the edge entries iterate `{norm(eloop.container)}`, not map[key]['edges']")
                if "idx" in roles:
                    variable_idx = True
                    if not (len(rec.elts) == 4 and same_value(ctx, V, rec.elts[3], roles["idx"])):
                        sink.violation(ap_st,
                                       f"the edge is resolved with idx=`{norm(roles['idx'])}` but the record handed to update_var is `{norm(rec)}` and "
                                       f"does not carry that index: update_var re-resolves (source, target) with its default index 0, so a sweep over "
                                       f"the idx-th parallel edge silently changes edge 0 instead", "edge address idx reaches update_var")
                        continue
                    self.carries_idx = True
                elif len(rec.elts) == 4 and not (isinstance(rec.elts[3], ast.Constant) and rec.elts[3].value in (0, None)):
                    why.append(f"the record carries index `{norm(rec.elts[3])}` although the edge was resolved with index 0")
            label = "edge address idx reaches update_var" if variable_idx else f"edge record {no} (index 0)"
            if why:
                sink.violation(ap_st, "edge update record is wrong: " + "; ".join(why), label)
            else:
                sink.ok(ap_st, "the record is (source, target) of the edge resolved for one map entry, {var: value of the key}"
                        + (" and the entry's idx" if variable_idx else ""), label, {"record": norm(rec)})
        if not bad:
            n = len(reads) if reads else 0
            kb = self.key_binder
            ctx.require(kb is not None, f"{rid}: adapt_circuit has no loop over the parameters (unrecognised form)")
            node = kb if isinstance(kb, ast.stmt) else stmt_of(cfg, kb)
            sink.ok(node, f"all reads of the parameter map use the key whose value is applied", "map entry of the same key")
        if nfresh and efresh:
            sink.ok(uv[0], "update_var receives the node records and the edge records built above", "records handed to update_var", nontrivial=False)
        else:
            sink.violation(uv[0], "update_var does not receive the freshly built node/edge records", "records handed to update_var")

    carries_idx = False


def _param_or_default(ctx, F, e, pname, depth=5) -> bool:
    """`e` is the parameter `pname`, possibly replaced by an empty default when it is None / empty."""
    if depth <= 0:
        return False
    if isinstance(e, ast.Name):
        tds = terminal_defs(ctx, F, e)
        if not tds:
            return False
        hit = False
        for d, v, nm in tds:
            if isinstance(d, ast.arguments):
                if nm != pname:
                    return False
                hit = True
            elif v is None:
                return False
            elif _is_empty_literal(v):
                continue
            elif _param_or_default(ctx, F, v, pname, depth - 1):
                hit = True
            else:
                return False
        return hit
    if isinstance(e, ast.IfExp):
        a, b = e.body, e.orelse
        return (_is_empty_literal(a) and _param_or_default(ctx, F, b, pname, depth - 1)) or \
               (_is_empty_literal(b) and _param_or_default(ctx, F, a, pname, depth - 1))
    if isinstance(e, ast.BoolOp) and isinstance(e.op, ast.Or) and len(e.values) == 2:
        return _is_empty_literal(e.values[1]) and _param_or_default(ctx, F, e.values[0], pname, depth - 1)
    return False


def _is_empty_literal(v) -> bool:
    return (isinstance(v, (ast.List, ast.Tuple)) and not v.elts) or (isinstance(v, ast.Dict) and not v.keys) \
        or (isinstance(v, ast.Call) and isinstance(v.func, ast.Name) and v.func.id in ("list", "dict", "tuple") and not v.args and not v.keywords)


def _r3_consumer(ctx, rid, carries_idx):
    """CircuitTemplate.update_var: every edge record (source, target, attrs[, idx]) is resolved with its own source, target and idx."""
    U = syn(ctx, ctx.repo.get_func(CIRC, "CircuitTemplate.update_var"))
    ep = "edge_vars"
    ctx.require(ep in U.params, f"{rid}: CircuitTemplate.update_var lost its edge_vars parameter")
    rdu = ctx.rd(U)

    def record_elem(el: Optional[Elem]) -> bool:
        if el is None or el.kind != "elem" or el.container is None:
            return False
        return _param_or_default(ctx, U, el.container, ep) or _param_or_default(ctx, U, expand(ctx, U, el.container), ep)

    def opt_index(v, depth=4):
        """'idx' for `<rest>[0]` / `<record>[3]`, 'zero' for the default 0 / None, else None"""
        if isinstance(v, ast.Constant) and v.value in (0, None) and not isinstance(v.value, bool):
            return "zero"
        if isinstance(v, ast.Subscript) and isinstance(v.slice, ast.Constant) and isinstance(v.value, ast.Name):
            el = elem_of(ctx, U, v.value)
            if record_elem(el):
                if v.slice.value == 0 and el.path == (("*", 3),):
                    return "idx"
                if v.slice.value == 3 and el.path == ():
                    return "idx"
        return None

    def rec_pos(e, depth=6):
        """which element of the edge record does expression e denote?  0, 1, 2 direct; 3 = the optional index (default 0)"""
        if depth <= 0 or e is None:
            return None
        if isinstance(e, ast.Name):
            el = elem_of(ctx, U, e)
            if record_elem(el):
                if len(el.path) == 1 and isinstance(el.path[0], int):
                    return el.path[0]
                return None
            if comp_generator_of(e) is not None:
                return None
            defs = rdu.defs_reaching(e)
            vals = [None if isinstance(d, ast.arguments) else assigned_value(d, e.id) for d in defs]
            if len(defs) == 1 and vals[0] is not None:
                return rec_pos(vals[0], depth - 1)
            if len(defs) >= 2 and all(v is not None for v in vals):
                kinds = [opt_index(v) for v in vals]
                if all(kinds) and "idx" in kinds and "zero" in kinds:
                    return 3
                if all(k == "zero" for k in kinds):
                    return "zero"
            return None
        if isinstance(e, ast.Constant):
            return "zero" if opt_index(e) == "zero" else None
        if isinstance(e, ast.IfExp):
            kinds = {opt_index(e.body), opt_index(e.orelse)}
            if kinds == {"idx", "zero"}:
                return 3
            return None
        if isinstance(e, ast.Subscript) and isinstance(e.slice, ast.Constant) and e.slice.value == 0 and isinstance(e.value, ast.BoolOp) \
                and isinstance(e.value.op, ast.Or) and len(e.value.values) == 2:
            a, b = e.value.values                                               # (rest or [0])[0]
            if isinstance(a, ast.Name) and isinstance(b, (ast.List, ast.Tuple)) and len(b.elts) == 1 \
                    and opt_index(b.elts[0]) == "zero":
                el = elem_of(ctx, U, a)
                if record_elem(el) and el.path == (("*", 3),):
                    return 3
            return None
        if isinstance(e, ast.Subscript) and isinstance(e.slice, ast.Constant) and isinstance(e.slice.value, int) and isinstance(e.value, ast.Name):
            el = elem_of(ctx, U, e.value)
            if record_elem(el) and el.path == () and e.slice.value in (0, 1, 2):
                return e.slice.value
        return None
    ges = [c for c in _calls(U, "get_edge")]
    ctx.require(len(ges) == 1, f"{rid}: expected one get_edge call in update_var, found {len(ges)}")
    g = ges[0]
    gkw = dict(zip(("source", "target", "idx"), g.args))
    gkw.update({k.arg: k.value for k in g.keywords})
    ps, pt = rec_pos(gkw.get("source")), rec_pos(gkw.get("target"))
    label = "update_var: get_edge uses the record's idx"
    if ps is None or pt is None:
        raise AnalysisError(f"{rid}: `{norm(g)}`: cannot tell which elements of the edge record are used as source / target (unrecognised form)")
    if (ps, pt) != (0, 1):
        ctx.violation(rid, U, g, f"`{norm(g)}` does not resolve the edge by the record's (source, target)", label=label)
    elif "idx" not in gkw or (isinstance(gkw["idx"], ast.Constant)):
        ctx.violation(rid, U, g, f"`{norm(g)}` ignores the index of the edge record (default index 0): parameter updates addressed to the "
                                 f"idx-th parallel edge between two variables change edge 0 instead"
                                 + ("" if carries_idx else " (and adapt_circuit does not pass the index on)"), label=label)
    else:
        pi = rec_pos(gkw["idx"])
        if pi == 3:
            ctx.ok(rid, U, g, "update_var resolves the edge with the record's source, target and index", label=label)
        elif pi == "zero":
            ctx.violation(rid, U, g, f"`{norm(g)}` resolves the edge with a constant index instead of the index of the edge record: parameter "
                                     f"updates addressed to the idx-th parallel edge between two variables change edge 0 instead", label=label)
        elif pi is not None:
            ctx.violation(rid, U, g, f"`{norm(g)}` resolves the edge with element {pi} of the record as its index, not with the record's own index",
                          label=label)
        else:
            raise AnalysisError(f"{rid}: `{norm(g)}`: cannot tell where the index `{norm(gkw['idx'])}` comes from (unrecognised form)")
    for st in ordered(walk_shallow(U.node)):
        if isinstance(st, ast.Assign) and len(st.targets) == 1 and isinstance(st.targets[0], ast.Subscript) \
                and isinstance(st.targets[0].value, ast.Attribute) and st.targets[0].value.attr == "_edge_map":
            k = expand(ctx, U, st.targets[0].slice)
            ctx.require(isinstance(k, ast.Tuple) and len(k.elts) == 3, f"{rid}: `{norm(st)}`: the edge map key is not a 3-tuple (unrecognised form)")
            pos = [rec_pos(x) for x in st.targets[0].slice.elts] if isinstance(st.targets[0].slice, ast.Tuple) else [rec_pos(x) for x in k.elts]
            if pos == [0, 1, 3]:
                ctx.ok(rid, U, st, "the updated edge is re-registered under the (source, target, idx) it was resolved with",
                       label="update_var: edge map key")
            elif pos[0] is None or pos[1] is None or (pos[2] is None and not isinstance(k.elts[2], ast.Constant)):
                raise AnalysisError(f"{rid}: `{norm(st)}`: cannot tell which elements of the edge record form the key (unrecognised form)")
            else:
                ctx.violation(rid, U, st, f"the updated edge is re-registered under `{norm(st.targets[0].slice)}`, not under the (source, target, idx) it was "
                                          f"resolved with: the edge map and the edge list disagree afterwards", label="update_var: edge map key")


def edge_records_carry_their_index(ctx, rid):
    """Exported (also registered by C07): the update records adapt_circuit builds - every edge record is resolved with the
    (source, target, idx) of one parameter-map entry and, whenever that index can be non-zero, forwards the same index as its fourth
    element; update_var resolves and re-registers the edge with the record's own index."""
    ac = _func(ctx, "adapt_circuit")
    sink = _Sink()
    carries = False
    for V in variants(ctx, ac):
        case = _AdaptCase(ctx, rid, V, sink)
        case.run()
        carries = carries or case.carries_idx
    sink.flush(ctx, rid, ac)
    _r3_consumer(ctx, rid, carries)


def r3_values_reach_targets(ctx, rid):
    gs = _func(ctx, "grid_search")
    ac = _func(ctx, "adapt_circuit")
    _r3_row_values(ctx, rid, gs, ac)
    sink = _Sink()
    carries = False
    for V in variants(ctx, ac):
        case = _AdaptCase(ctx, rid, V, sink)
        case.run()
        carries = carries or case.carries_idx
    sink.flush(ctx, rid, ac)
    _r3_consumer(ctx, rid, carries)


# --------------------------------------------------------------------------------------------
# R4 — re-addressing of inputs/outputs and the run call
# --------------------------------------------------------------------------------------------

def r4_all_prefix_and_run(ctx, rid):
    gs = _func(ctx, "grid_search")
    rd = ctx.rd(gs)
    cfg = ctx.cfg(gs)
    run = _the_run_call(ctx, gs, rid)
    kw = {k.arg: k.value for k in run.keywords}
    for role in ("outputs", "inputs"):
        ctx.require(role in kw and isinstance(kw[role], ast.Name), f"{rid}: run() does not receive {role}= by name (unrecognised form)")
        ctx.require(role in gs.params, f"{rid}: grid_search lost its `{role}` parameter")
        nm = kw[role]
        stores = _dict_entries(ctx, gs, nm, None, rid)
        if not stores:
            ctx.violation(rid, gs, run, f"the {role} handed to run() are never re-addressed to the sub-circuits (`all/<path>`): a path of the "
                                        f"single circuit does not exist in the combined circuit", label=f"{role}: all/ prefix")
            continue
        for st, k, v in stores:
            path = v if role == "outputs" else k
            other = k if role == "outputs" else v
            parts = _path_parts(expand(ctx, gs, path))
            if parts is None:
                raise AnalysisError(f"{rid}: `{norm(path)}` in `{norm(st)}` is not a recognised way of building a path (unrecognised form)")
            good = len(parts) == 2 and parts[0] == "all/" and isinstance(parts[1], ast.Name)
            why = "" if good else f"`{norm(path)}` is not `all/<original path>`"
            if good:
                hole = parts[1]
                he = elem_of(ctx, gs, hole)
                oe = elem_of(ctx, gs, other) if isinstance(other, ast.Name) else None
                if he is None or oe is None:
                    src = sub = None
                    if isinstance(other, ast.Subscript):
                        src, sub = other.value, other.slice                                   # inputs[f"all/{k}"] = inputs[k]
                    elif isinstance(other, ast.Call) and isinstance(other.func, ast.Attribute) and other.func.attr == "pop" and len(other.args) == 1 \
                            and not other.keywords:
                        src, sub = other.func.value, other.args[0]                            # inputs[f"all/{k}"] = inputs.pop(k)
                    if src is not None and he is not None and he.kind in ("key", "elem") and role == "inputs" \
                            and isinstance(he.container, ast.Name) and is_param(ctx, gs, he.container, role) \
                            and isinstance(src, ast.Name) and is_param(ctx, gs, src, role) and same_value(ctx, gs, sub, hole):
                        he = Elem(he.container, he.binder, (), "key", he.snapshot)
                        oe = Elem(he.container, he.binder, (), "value", he.snapshot)
                    else:
                        raise AnalysisError(f"{rid}: cannot tell where `{norm(hole)}` / `{norm(other)}` in `{norm(st)}` come from (unrecognised form)")
                want_hole, want_other = ("value", "key") if role == "outputs" else ("key", "value")
                src_ok = he.binder is oe.binder and he.kind == want_hole and oe.kind == want_other and not he.path and not oe.path \
                    and isinstance(he.container, ast.Name) and is_param(ctx, gs, he.container, role) \
                    and isinstance(oe.container, ast.Name) and is_param(ctx, gs, oe.container, role)
                tgt = st.targets[0].value if isinstance(st, ast.Assign) and isinstance(st.targets[0], ast.Subscript) else None
                in_place = isinstance(tgt, ast.Name) and bool(origins(ctx, gs, tgt) & origins(ctx, gs, he.container))
                if src_ok and in_place and not (he.snapshot and oe.snapshot):
                    # iterating while storing into the same dict requires a snapshot of the items
                    src_ok = False
                    why = "the dict is modified while it is iterated (no copy)"
                if not src_ok:
                    good = False
                    why = why or (f"key and path do not come from one `{role}.items()` pair of the caller's {role}")
            stn = st if isinstance(st, ast.stmt) else stmt_of(cfg, st)
            if good:
                ctx.ok(rid, gs, stn, f"every requested {role[:-1]} is re-addressed to all sub-circuits under "
                                     f"{'its own key' if role == 'outputs' else 'its own array'}", {"path": norm(path)}, label=f"{role}: all/ prefix")
            else:
                ctx.violation(rid, gs, stn, f"{role} are not re-addressed as `all/<path>` of the same entry: {why}: only some grid rows would be "
                                            f"{'recorded' if role == 'outputs' else 'driven'} or the entry would be mixed up", label=f"{role}: all/ prefix")
    for p in ("simulation_time", "step_size", "sampling_step_size"):
        if p in kw and is_param(ctx, gs, kw[p], p):
            ctx.ok(rid, gs, run, f"run() receives the caller's {p} unchanged", label=f"run argument {p}", nontrivial=False)
        elif p in kw and not isinstance(kw[p], (ast.Name, ast.Constant)) and any(isinstance(n, ast.Name) and n.id == p for n in ast.walk(kw[p])):
            raise AnalysisError(f"{rid}: run() receives {p}=`{norm(kw[p])}` (unrecognised form)")
        else:
            ctx.violation(rid, gs, run, f"run() does not receive the caller's `{p}` unchanged (`{norm(kw[p]) if p in kw else 'missing'}`): the sweep "
                                        f"would be integrated differently from an individual run", label=f"run argument {p}")
    rets = [n for n in walk_shallow(gs.node) if isinstance(n, ast.Return)]
    run_st = stmt_of(cfg, run)
    ctx.require(len(rets) == 1 and isinstance(rets[0].value, ast.Tuple) and len(rets[0].value.elts) == 2,
                f"{rid}: grid_search does not end in one `return <results>, <table>` (unrecognised form)")
    r0 = rets[0].value.elts[0]
    ctx.require(r0 is run or isinstance(r0, ast.Name), f"{rid}: grid_search returns `{norm(r0)}` as its results (unrecognised form)")
    good = r0 is run or (isinstance(run_st, ast.Assign) and run_st.value is run and [d for d, _, _ in terminal_defs(ctx, gs, r0)] == [run_st])
    if good:
        ctx.ok(rid, gs, rets[0], "the DataFrame returned by run() is returned unchanged", label="returned results", nontrivial=False)
    else:
        ctx.violation(rid, gs, rets[0], "grid_search does not return the result of the combined run unchanged", label="returned results")


# --------------------------------------------------------------------------------------------
# R5 — linearize_grid keeps values and keys together
# --------------------------------------------------------------------------------------------

def _projection(ctx, F, e, p_grid):
    """'keys' / 'values' when `e` is the list of keys / values of the unmodified grid in the grid's own order, else None."""
    e = resolve(ctx, F, e)
    e, _ = _strip_snapshot(e)
    e = resolve(ctx, F, e)
    if isinstance(e, ast.Name) and is_param(ctx, F, e, p_grid):
        return "keys"
    if isinstance(e, ast.Call) and isinstance(e.func, ast.Attribute) and e.func.attr in ("keys", "values") and not e.args \
            and isinstance(e.func.value, ast.Name) and is_param(ctx, F, e.func.value, p_grid):
        return e.func.attr
    if isinstance(e, ast.ListComp) and len(e.generators) == 1 and not e.generators[0].ifs:
        x = e.elt
        if isinstance(x, ast.Name):
            el = elem_of(ctx, F, x)
            if el is not None and not el.path and isinstance(el.container, ast.Name) and is_param(ctx, F, el.container, p_grid):
                return {"key": "keys", "elem": "keys", "value": "values"}.get(el.kind)
        if isinstance(x, ast.Subscript) and isinstance(x.value, ast.Name) and is_param(ctx, F, x.value, p_grid) and isinstance(x.slice, ast.Name):
            el = elem_of(ctx, F, x.slice)
            if el is not None and not el.path and el.kind in ("key", "elem") and isinstance(el.container, ast.Name) \
                    and is_param(ctx, F, el.container, p_grid):
                return "values"
    return None


def r5_linearize_grid(ctx, rid):
    lg = _func(ctx, "linearize_grid")
    gs = _func(ctx, "grid_search")
    lgo = lg.orig
    p_grid = lgo.params[0]
    cfg = ctx.cfg(lg)
    frames = _calls(lg, "DataFrame")
    ctx.require(len(frames) == 2, f"{rid}: expected two DataFrame(...) returns in linearize_grid, found {len(frames)}")
    plain = [c for c in frames if len(c.args) == 1 and not c.keywords]
    perm = [c for c in frames if c not in plain]
    ctx.require(len(plain) == 1 and len(perm) == 1, f"{rid}: unrecognised forms of the DataFrame calls in linearize_grid")
    if is_param(ctx, lg, plain[0].args[0], p_grid):
        ctx.ok(rid, lg, plain[0], "equal-length grids become a DataFrame of the grid itself (row i = i-th value of every key)",
               label="pairwise grid", nontrivial=False)
    else:
        ctx.violation(rid, lg, plain[0], f"the pairwise grid is built from `{norm(plain[0].args[0])}`, not from the caller's grid", label="pairwise grid")
    pc = perm[0]
    kw = {k.arg: k.value for k in pc.keywords}
    data = pc.args[0] if pc.args else kw.get("data")
    cols = kw.get("columns") or (pc.args[2] if len(pc.args) > 2 else None)
    ctx.require(data is not None and cols is not None, f"{rid}: `{norm(pc)}` lacks data or columns (unrecognised form)")
    # the values list: what is behind meshgrid(*...)
    d = resolve(ctx, lg, data)
    form = None
    if isinstance(d, ast.Call) and call_name(d) == "reshape" and isinstance(d.func, ast.Attribute):
        stack = resolve(ctx, lg, d.func.value)
        if isinstance(stack, ast.Call) and call_name(stack) == "stack":
            mg = resolve(ctx, lg, stack.args[0]) if stack.args else None
            if isinstance(mg, ast.Call) and call_name(mg) == "meshgrid" and len(mg.args) == 1 and isinstance(mg.args[0], ast.Starred):
                form = (stack, mg, mg.args[0].value, d)
    if form is None:
        raise AnalysisError(f"{rid}: the permuted grid `{norm(d)}` is not np.stack(np.meshgrid(*values), axis).reshape(-1, n) (unrecognised form)")
    stack, mg, vals, resh = form
    vals, _ = _strip_snapshot(vals)

    def lockstep_loop():
        """values and keys appended from the same `for key, val in grid.items()` entry, same iteration: ok / violation / None (other form)"""
        if not (isinstance(cols, ast.Name) and isinstance(vals, ast.Name)):
            return None
        kapps, vapps = _appends_to(ctx, lg, cols), _appends_to(ctx, lg, vals)
        if not kapps and not vapps:
            return None
        ctx.require(len(kapps) == 1, f"{rid}: expected one append to `{cols.id}` in linearize_grid")
        ctx.require(len(vapps) == 1, f"{rid}: expected one append to `{vals.id}` in linearize_grid")
        for nm in (cols, vals):
            fresh = [v for _, v, _ in terminal_defs(ctx, lg, nm)]
            ctx.require(len(fresh) == 1 and fresh[0] is not None and _is_empty_literal(fresh[0]), f"{rid}: `{nm.id}` does not start as an empty list (unrecognised form)")
        ke = elem_of(ctx, lg, kapps[0][1]) if isinstance(kapps[0][1], ast.Name) else None
        ctx.require(ke is not None and ke.kind == "key" and not ke.path and isinstance(ke.container, ast.Name) and is_param(ctx, lg, ke.container, p_grid),
                    f"{rid}: the column keys are not the keys of `for key, val in {p_grid}.items()` (unrecognised form)")
        ve = elem_of(ctx, lg, vapps[0][1]) if isinstance(vapps[0][1], ast.Name) else None
        ks, vs = stmt_of(cfg, kapps[0][0]), stmt_of(cfg, vapps[0][0])
        body = ke.binder.body if isinstance(ke.binder, ast.For) else None
        good = ve is not None and ve.binder is ke.binder and ve.kind == "value" and not ve.path and body is not None \
            and block_of(ks) is block_of(vs) and block_of(ks) is body
        return good, vs
    res = lockstep_loop()
    if res is None:
        pk, pv = _projection(ctx, lg, cols, p_grid), _projection(ctx, lg, vals, p_grid)
        if pk is None or pv is None:
            raise AnalysisError(f"{rid}: cannot tell how the columns `{norm(cols)}` and the value lists `{norm(vals)}` are taken from the grid "
                                f"(unrecognised form)")
        vs = stmt_of(cfg, resolve(ctx, lg, vals)) or stmt_of(cfg, mg)
        # no store into the grid between the two projections: the grid is a parameter that is never re-bound (is_param) - element
        # stores would have to be written `grid[...] = ...`
        mutated = [st for st in walk_shallow(lg.node) if isinstance(st, (ast.Assign, ast.AugAssign, ast.Delete))
                   and any(isinstance(t, ast.Subscript) and isinstance(t.value, ast.Name) and t.value.id == p_grid
                           for t in (st.targets if not isinstance(st, ast.AugAssign) else [st.target]))]
        res = (pk == "keys" and pv == "values" and not mutated), vs
    good, vs = res
    if good:
        ctx.ok(rid, lg, vs, "value list j and key j come from the same grid entry (appended in lock-step)", label="values/keys lock-step")
    else:
        ctx.violation(rid, lg, vs, "the value lists and the column keys are not appended from the same grid entry in the same iteration: a "
                                   "column of the permuted grid would be labelled with another parameter's key", label="values/keys lock-step")
    skw = {k.arg: k.value for k in stack.keywords}
    axis = stack.args[1] if len(stack.args) > 1 else skw.get("axis")
    n_expr = resh.args[1] if len(resh.args) == 2 else (resh.args[0].elts[1] if len(resh.args) == 1 and isinstance(resh.args[0], ast.Tuple)
                                                        and len(resh.args[0].elts) == 2 else None)
    first = resh.args[0] if len(resh.args) == 2 else (resh.args[0].elts[0] if n_expr is not None else None)
    ax = expand(ctx, lg, axis) if axis is not None else None
    if ax is not None and not (isinstance(ax, ast.Constant) or (isinstance(ax, ast.UnaryOp) and isinstance(ax.operand, ast.Constant))):
        raise AnalysisError(f"{rid}: the stacking axis `{norm(axis)}` is not a literal (unrecognised form)")
    axis_ok = ax is not None and ast.unparse(ax) == "-1"
    n_ok = False
    ctx.require(n_expr is not None and first is not None, f"{rid}: `{norm(resh)}` is not reshape(-1, n) (unrecognised form)")
    if ast.unparse(first) == "-1":
        ne = expand(ctx, lg, n_expr)
        if isinstance(ne, ast.Call) and isinstance(ne.func, ast.Name) and ne.func.id == "len" and len(ne.args) == 1:
            a = n_expr.args[0] if isinstance(n_expr, ast.Call) and isinstance(n_expr.func, ast.Name) and n_expr.func.id == "len" and len(n_expr.args) == 1 else ne.args[0]
            n_ok = (isinstance(a, ast.Name) and is_param(ctx, lg, a, p_grid)) or _projection(ctx, lg, a, p_grid) is not None \
                or (isinstance(a, ast.Name) and isinstance(cols, ast.Name) and same_origin(ctx, lg, a, cols)) \
                or (isinstance(a, ast.Name) and isinstance(vals, ast.Name) and same_origin(ctx, lg, a, vals))
        if not n_ok:
            raise AnalysisError(f"{rid}: cannot tell whether `{norm(n_expr)}` in `{norm(resh)}` is the number of grid keys (unrecognised form)")
    if axis_ok and n_ok:
        ctx.ok(rid, lg, stmt_of(cfg, resh), "the mesh is stacked along the last axis and flattened to rows of n values: column j holds values of key j",
               {"grid": norm(resh)}, label="permuted grid layout")
    else:
        ctx.violation(rid, lg, stmt_of(cfg, resh), f"the permuted grid `{norm(resh)}` is not stack(meshgrid(*values), -1).reshape(-1, n) "
                                                   f"(axis is -1: {axis_ok}; reshape to (-1, n): {n_ok}): the rows would not be parameter combinations with "
                                                   f"column j belonging to key j", label="permuted grid layout")
    # grid_search linearises the caller's grid with the caller's flag and sweeps the result
    lcs = _calls(gs, "linearize_grid")
    ctx.require(len(lcs) == 1, f"{rid}: expected one linearize_grid call in grid_search")
    b = _bind_call(lgo, lcs[0])
    st = stmt_of(ctx.cfg(gs), lcs[0])
    ctx.require(isinstance(st, ast.Assign) and len(st.targets) == 1 and isinstance(st.targets[0], ast.Name)
                and (st.value is lcs[0] or (isinstance(st.value, ast.IfExp) and lcs[0] in (st.value.body, st.value.orelse))),
                f"{rid}: `{norm(st)}` does not bind the linearised grid to a name (unrecognised form)")
    loop, _ = _row_loop(ctx, gs, rid)
    table = _row_table(ctx, gs, loop, rid)
    # (a loop that counts positions instead of iterating `<table>.index` is R3's business: only the call itself is judged here)
    good = is_param(ctx, gs, b.get(lgo.params[0]), "param_grid") and is_param(ctx, gs, b.get(lgo.params[1]), "permute_grid") \
        and (table is None or any(d is st for d, _, _ in terminal_defs(ctx, gs, table)))
    if good:
        ctx.ok(rid, gs, st, "grid_search linearises the caller's grid with the caller's permute flag", label="grid_search linearises", nontrivial=False)
    else:
        ctx.violation(rid, gs, st, "grid_search does not linearise the caller's grid with the caller's permute flag", label="grid_search linearises")


def r6_edge_update_selects_one_edge(ctx, rid):
    """grid_search -> adapt_circuit -> CircuitTemplate.update_var(edge_vars): the sweep value must reach exactly the addressed
    parallel edge (same rule as C07-R4: selection by identity, not by value)."""
    from .c07 import r4_edge_update_replaces_exactly_one_edge
    r4_edge_update_replaces_exactly_one_edge(ctx, rid)



# --------------------------------------------------------------------------------------------
# R7 — every swept circuit's output is located with that circuit's own node key
# --------------------------------------------------------------------------------------------

def _loop_dependent(ctx, F, e, loop, names, seen=None, depth=0) -> Optional[bool]:
    """Does the value of `e` (evaluated inside one iteration of `loop`) depend on the loop's variables `names`?  An expression does
    when one of its names does; a name does when EVERY definition that reaches it is the loop's own binding or lies inside the loop
    and is itself dependent - a definition from before the loop (or one that is only made on some iterations: a memo) means the
    value may be the one computed for another node.  True / False; None when the value is computed inside the loop by a call that
    mentions no name at all (cannot be told from a per-node value)."""
    seen = seen if seen is not None else frozenset()
    rd = ctx.rd(F)
    verdict: Optional[bool] = False
    for n in ast.walk(e):
        if isinstance(n, ast.Call) and contains(loop, n) and isinstance(n.func, ast.Attribute) and not isinstance(n.func.value, ast.Constant) \
                and not any(isinstance(x, ast.Name) for a in list(n.args) + [k.value for k in n.keywords] for x in ast.walk(a)):
            verdict = None                                   # `self.next_label()` inside the loop: stateful for all we know
    for n in ast.walk(e):
        if not (isinstance(n, ast.Name) and isinstance(n.ctx, ast.Load)):
            continue
        g = comp_generator_of(n) if hasattr(n, "_parent") else None
        if g is not None and g != "lambda":
            if g is loop and n.id in names:
                return True
            if g is not loop and _loop_dependent(ctx, F, g.iter, loop, names, seen, depth + 1):
                return True
            continue
        defs = rd.defs_reaching(n)
        if not defs or depth > 10:
            continue
        all_dep = True
        for d in defs:
            if d is loop:
                if n.id not in names:
                    all_dep = False
                continue
            if isinstance(d, ast.arguments) or not contains(loop, d) or id(d) in seen:
                all_dep = False                               # bound before the loop (or a cycle): the same for every iteration
                continue
            src = None
            if isinstance(d, (ast.Assign, ast.AnnAssign)):
                src = assigned_value(d, n.id) or d.value
            elif isinstance(d, ast.AugAssign):
                src = d.value
            elif isinstance(d, (ast.For, ast.AsyncFor)):
                src = d.iter
            elif isinstance(d, (ast.With, ast.AsyncWith)):
                src = d.items[0].context_expr
            r = _loop_dependent(ctx, F, src, loop, names, seen | {id(d)}, depth + 1) if src is not None else None
            if r is None:
                verdict = None
            if not r:
                all_dep = False
        if all_dep:
            return True
    return verdict


def r7_outputs_located_per_node(ctx, rid):
    """grid_search re-addresses every output to `all/<path>`, which CircuitTemplate.get_variable_positions expands to one node per
    swept circuit.  Nodes under one output key need not have been merged into one backend variable (vectorize=False, or nodes of
    different structure), so for EVERY target node both the backend variable and the position inside it must be looked up with THAT
    node's key: whatever is stored per node into the two returned maps has to depend on the loop's node."""
    gvp = syn(ctx, ctx.repo.get_func(CIRC, "CircuitTemplate.get_variable_positions"))
    rd = ctx.rd(gvp)
    cfg = ctx.cfg(gvp)
    rets = [n for n in walk_shallow(gvp.node) if isinstance(n, ast.Return) and n.value is not None]
    ctx.require(rets and all(isinstance(r.value, ast.Tuple) and len(r.value.elts) == 2 and all(isinstance(x, ast.Name) for x in r.value.elts) for r in rets),
                f"{rid}: get_variable_positions does not return `<positions>, <backend variables>` as two names (unrecognised form)")
    maps = {}
    for r in rets:
        for role, x in zip(("position", "backend variable"), r.value.elts):
            maps.setdefault(x.id, (role, x))

    def base_of(t):
        while isinstance(t, ast.Subscript):
            t = t.value
        return t
    # local names that stand for (a part of) one of the two returned maps: `positions = out_map`, `positions = out_map[key]`,
    # `positions = {}; out_map[key] = positions`
    changed = True
    while changed:
        changed = False
        for n in walk_shallow(gvp.node):
            if isinstance(n, ast.Assign) and len(n.targets) == 1:
                t, v = n.targets[0], n.value
                if isinstance(t, ast.Name) and t.id not in maps and isinstance(base_of(v), ast.Name) and base_of(v).id in maps and \
                        isinstance(v, (ast.Name, ast.Subscript)):
                    maps[t.id] = (maps[base_of(v).id][0], t)
                    changed = True
                elif isinstance(t, ast.Subscript) and isinstance(base_of(t), ast.Name) and base_of(t).id in maps and isinstance(v, ast.Name) \
                        and v.id not in maps and gvp.orig.params.count(v.id) == 0:
                    vals = [x for _, x, _ in terminal_defs(ctx, gvp, v)]
                    if vals and all(x is not None and _is_empty_literal(x) for x in vals):
                        maps[v.id] = (maps[base_of(t).id][0], v)
                        changed = True

    def from_get_nodes(e, depth=0) -> bool:
        """the iterable holds one item per node found by get_nodes (the nodes themselves, or keys built from them one by one)"""
        if depth > 6 or e is None:
            return False
        e, _ = _strip_snapshot(e)
        if isinstance(e, ast.Call):
            if call_name(e) == "get_nodes":
                return True
            if isinstance(e.func, ast.Name) and e.func.id in ("sorted", "reversed", "iter") and e.args:
                return from_get_nodes(e.args[0], depth + 1)
            return False
        if isinstance(e, (ast.ListComp, ast.GeneratorExp, ast.SetComp)):
            return len(e.generators) == 1 and from_get_nodes(e.generators[0].iter, depth + 1)
        if isinstance(e, ast.Name) and comp_generator_of(e) is None:
            vals = [v for _, v, _ in terminal_defs(ctx, gvp, e)]
            return bool(vals) and all(v is not None and from_get_nodes(v, depth + 1) for v in vals)
        return False

    def node_loops(node):
        """enclosing for loops / comprehension generators that iterate the nodes found by get_nodes: [(loop, variable names)]"""
        out = []
        for a in ancestors(node):
            gens = []
            if isinstance(a, (ast.For, ast.AsyncFor)):
                gens = [(a, a.target, a.iter)]
            elif isinstance(a, COMPS):
                gens = [(g, g.target, g.iter) for g in a.generators if contains(a, node) and not contains(g.iter, node)]
            for loop, target, it in gens:
                r = _iter_elem(it, ())
                r2 = _iter_elem(it, (1,)) if isinstance(it, ast.Call) and call_name(it) == "enumerate" else None
                cont = (r2 or r or (None,))[0]
                if cont is not None and from_get_nodes(cont):
                    names = set(target_names(target))
                    if r2 is not None and isinstance(target, ast.Tuple) and len(target.elts) == 2:
                        names = set(target_names(target.elts[1]))
                    out.append((loop, names))
            if isinstance(a, _FUNCS):
                break
        return out
    sites = []           # (stmt, role, map name, key expr, value expr)
    for n in ordered(walk_shallow(gvp.node)):
        if isinstance(n, (ast.Assign, ast.AnnAssign)) and n.value is not None:
            for tg0 in (n.targets if isinstance(n, ast.Assign) else [n.target]):
                pairs = [(tg0, n.value)]
                if isinstance(tg0, (ast.Tuple, ast.List)):
                    vs = n.value.elts if isinstance(n.value, (ast.Tuple, ast.List)) and len(n.value.elts) == len(tg0.elts) else [n.value] * len(tg0.elts)
                    pairs = list(zip(tg0.elts, vs))
                for tg, val in pairs:
                    b = base_of(tg)
                    if isinstance(tg, ast.Subscript) and isinstance(b, ast.Name) and b.id in maps:
                        sites.append((n, maps[b.id][0], b.id, tg.slice, val, n))
        elif isinstance(n, ast.Call) and isinstance(n.func, ast.Attribute) and n.func.attr in ("update", "setdefault"):
            b = base_of(n.func.value)
            if isinstance(b, ast.Name) and b.id in maps:
                st = stmt_of(cfg, n)
                if n.func.attr == "setdefault" and len(n.args) == 2:
                    sites.append((st, maps[b.id][0], b.id, n.args[0], n.args[1], n))
                elif n.func.attr == "update" and len(n.args) == 1:
                    v = resolve(ctx, gvp, n.args[0])
                    if isinstance(v, ast.DictComp):
                        sites.append((st, maps[b.id][0], b.id, v.key, v.value, v.value))
                    elif isinstance(v, ast.Dict) and all(k is not None for k in v.keys):
                        for k, x in zip(v.keys, v.values):
                            sites.append((st, maps[b.id][0], b.id, k, x, n))
                    elif node_loops(n):
                        raise AnalysisError(f"{rid}: `{norm(n)}` merges `{norm(n.args[0])}` into the {maps[b.id][0]} map inside a loop over nodes "
                                            f"(unrecognised form)")
    n_checked = 0
    for st, role, mname, key, value, anchor in sites:
        loops = node_loops(anchor)
        if not loops:
            continue
        loop, names = loops[0]
        if isinstance(value, (ast.Dict, ast.List)) and not (value.keys if isinstance(value, ast.Dict) else value.elts):
            continue                                           # an empty per-key container
        n_checked += 1
        label = f"{role} of each node [{norm(st, 80)}]"
        dv = _loop_dependent(ctx, gvp, value, loop, names)
        dk = _loop_dependent(ctx, gvp, key, loop, names)
        if dv and dk:
            ctx.ok(rid, gvp, st, f"the {role} stored for a node is looked up with that node's own key", label=label)
        elif dv is False:
            outside = [d for x in ast.walk(value) if isinstance(x, ast.Name) and isinstance(x.ctx, ast.Load) and comp_generator_of(x) is None
                       for d in rd.defs_reaching(x) if not isinstance(d, ast.arguments) and d is not loop and not contains(loop, d)]
            src = f"bound by `{norm(outside[0], 90)}` at line {outside[0].lineno}" if outside else f"`{norm(value, 90)}`"
            ctx.violation(rid, gvp, st, f"inside the loop over the nodes of one output key, `{norm(st)}` stores a {role} ({src}) that does "
                          f"not depend on the loop's node on every path: it is computed outside the loop (or only for some nodes) and reused, so a swept circuit "
                          f"is read from the backend variable / position of one of them (they are only identical when all nodes were merged into "
                          f"one vectorised variable)", label=label)
        elif dk is False:
            ctx.violation(rid, gvp, st, f"inside the loop over the nodes of one output key, `{norm(st)}` stores every node's {role} under the same "
                          f"key `{norm(key)}`: all but the last node are lost", label=label)
        else:
            raise AnalysisError(f"{rid}: cannot tell whether `{norm(st)}` stores a per-node {role} (the value is computed inside the loop "
                                f"without mentioning the node)")
    ctx.require(n_checked >= 1, f"{rid}: get_variable_positions stores nothing per node inside a loop over the nodes found by get_nodes "
                                f"(unrecognised form)")



# --------------------------------------------------------------------------------------------
# R8 — a per-node override is written into a copy that shares nothing on the write path
# --------------------------------------------------------------------------------------------

def _field_origins(eff, g: FunctionInfo, path, rid, depth=0):
    """Origins (in terms of g's parameters) of the object `self<path>` after the constructor g has run: what was assigned to the
    attribute / stored into it as elements, including what base-class constructors called through super() do."""
    from engine.effects import analyse, steps
    an = analyse(eff, g, None)
    attr = path[0][1:]
    top, elems, found = set(), set(), False

    def is_attr(e):
        return isinstance(e, ast.Attribute) and e.attr == attr and isinstance(e.value, ast.Name) and e.value.id == g.self_name
    for n in walk_shallow(g.node):
        if isinstance(n, (ast.Assign, ast.AnnAssign)) and n.value is not None:
            for t in (n.targets if isinstance(n, ast.Assign) else [n.target]):
                if is_attr(t):
                    found = True
                    o = an.origins(n.value)
                    top |= set(o)
                    elems |= set(steps(o, "[*]"))
                elif isinstance(t, ast.Subscript) and is_attr(t.value):
                    found = True
                    elems |= set(an.origins(n.value))
        elif isinstance(n, ast.Call) and isinstance(n.func, ast.Attribute) and is_attr(n.func.value):
            if n.func.attr == "update" and n.args:
                found = True
                elems |= set(steps(an.origins(n.args[0]), "[*]"))
            elif n.func.attr in ("setdefault", "__setitem__") and len(n.args) == 2:
                found = True
                elems |= set(an.origins(n.args[1]))
            elif n.func.attr in ("append", "add") and n.args:
                found = True
                elems |= set(an.origins(n.args[0]))
            elif n.func.attr == "extend" and n.args:
                found = True
                elems |= set(steps(an.origins(n.args[0]), "[*]"))
        elif isinstance(n, ast.Call) and isinstance(n.func, ast.Attribute) and n.func.attr == "__init__" and isinstance(n.func.value, ast.Call) \
                and call_name(n.func.value) == "super" and depth < 3:
            for b in eff.cg.resolve_call(g, n)[0]:
                try:
                    sub = _field_origins(eff, b, path[:1] + (("[*]",) if len(path) > 1 else ()), rid, depth + 1)
                except AnalysisError:
                    continue
                binding = an._bind(n, b)
                mapped = set()
                for o in sub:
                    mapped |= an._subst(o, binding)
                found = True
                if len(path) > 1:
                    elems |= mapped
                else:
                    top |= mapped
    if not found:
        raise AnalysisError(f"{rid}: {g.qualname} never binds `self.{attr}` (cannot tell what the new object's {attr} holds)")
    cur = top if len(path) == 1 else elems
    for s in path[2:]:
        cur = set(steps(cur, s))
    return cur


# ---- ownership records that license an in-place write (copy once / copy-on-write designs) ------------------------------------

def _membership_guards(f, node):
    """[(container expr, tested expr, polarity)] of `x in R` / `id(x) in R` / `x not in R` tests that hold where `node` executes:
    enclosing if statements and preceding sibling `if <test>: return / continue` statements."""
    out = []

    def tests(t, pol):
        if isinstance(t, ast.UnaryOp) and isinstance(t.op, ast.Not):
            tests(t.operand, not pol)
        elif isinstance(t, ast.BoolOp) and ((isinstance(t.op, ast.And) and pol) or (isinstance(t.op, ast.Or) and not pol)):
            for v in t.values:
                tests(v, pol)
        elif isinstance(t, ast.Compare) and len(t.ops) == 1 and isinstance(t.ops[0], (ast.In, ast.NotIn)):
            out.append((t.comparators[0], t.left, pol == isinstance(t.ops[0], ast.In)))
    cur = node
    for a in ancestors(node):
        if isinstance(a, _FUNCS):
            break
        for fld in ("body", "orelse"):
            b = getattr(a, fld, None)
            if isinstance(b, list) and any(x is cur for x in b):
                i = [x is cur for x in b].index(True)
                for prev in b[:i]:
                    if isinstance(prev, ast.If) and not prev.orelse and prev.body and isinstance(prev.body[-1], (ast.Return, ast.Continue, ast.Raise, ast.Break)):
                        tests(prev.test, False)
                if isinstance(a, ast.If):
                    tests(a.test, fld == "body")
        if isinstance(a, ast.stmt):
            cur = a
    return out


def _local_registry_license(ctx, rid, f, an, call, recv):
    """The receiver is written in place only where `id(recv) in R` / `recv in R` holds for a registry R that this very call created
    empty and fills with nothing but deep copies it made itself: the object is one of those copies.  'ok' text, or None."""
    from engine.effects import DEEP_COPIERS
    rd = ctx.rd(f)
    for cont, tested, pol in _membership_guards(f, call):
        if not pol or not isinstance(cont, ast.Name):
            continue
        t = tested.args[0] if isinstance(tested, ast.Call) and isinstance(tested.func, ast.Name) and tested.func.id == "id" and len(tested.args) == 1 else tested
        if ast.dump(t) != ast.dump(recv):
            continue
        defs = [d for d in rd.defs_reaching(cont)]
        vals = [None if isinstance(d, ast.arguments) else assigned_value(d, cont.id) for d in defs]
        if not defs or not all(v is not None and _is_empty_literal(v) for v in vals):
            raise AnalysisError(f"{rid}: `{norm(call)}` is licensed by membership in `{cont.id}`, which is not a registry created empty by this call")
        ins = []
        for n in walk_shallow(f.node):
            if isinstance(n, ast.Assign) and len(n.targets) == 1 and isinstance(n.targets[0], ast.Subscript) and isinstance(n.targets[0].value, ast.Name) \
                    and n.targets[0].value.id == cont.id:
                ins.append(n.value)
            elif isinstance(n, ast.Call) and isinstance(n.func, ast.Attribute) and isinstance(n.func.value, ast.Name) and n.func.value.id == cont.id \
                    and n.func.attr in ("add", "append", "setdefault", "update", "extend", "insert"):
                ins.append(n.args[-1] if n.args else None)
        if not ins:
            raise AnalysisError(f"{rid}: nothing is ever entered into the registry `{cont.id}` that licenses `{norm(call)}`")
        for v in ins:
            e = v.args[0] if isinstance(v, ast.Call) and isinstance(v.func, ast.Name) and v.func.id == "id" and v.args else v
            src = e
            for _ in range(5):
                if isinstance(src, ast.Name):
                    ds = rd.defs_reaching(src)
                    vs = [assigned_value(d, src.id) for d in ds if not isinstance(d, ast.arguments)]
                    if len(ds) == 1 and len(vs) == 1 and vs[0] is not None:
                        src = vs[0]
                        continue
                break
            if not (isinstance(src, ast.Call) and call_name(src) in DEEP_COPIERS):
                raise AnalysisError(f"{rid}: the registry `{cont.id}` that licenses `{norm(call)}` also receives `{norm(v) if v is not None else '?'}`, "
                                    f"which is not a deep copy made by this call")
        return f"written in place only where `{norm(tested)} in {cont.id}` holds, and `{cont.id}` is created empty by this call and only ever receives deep copies it made itself"
    return None


def ownership_discipline(ctx, rid):
    """Copy-on-write with a persistent ownership record: CircuitTemplate.update_var obtains the template it writes into from an
    accessor that returns the object found on the circuit when its key is in `self.<R>`, and otherwise stores a deep copy and
    enters the key into `self.<R>`.  Returns None when update_var has no such accessor, else a dict with the record attribute, the
    holding attributes, and the list of places where the held objects are handed to another holder without the record being
    dropped: [(function, node, text)]."""
    from engine.effects import analyse, DEEP_COPIERS
    from engine.inline import inlined
    eff = ctx.effects
    f0 = ctx.repo.get_func(CIRC, "CircuitTemplate.update_var")
    k = f0.cls
    acc = None
    for m in k.methods.values():
        if m.self_name is None:
            continue
        rec = None
        for n in walk_shallow(m.node):
            if isinstance(n, ast.If):
                for t in ast.walk(n.test):
                    if isinstance(t, ast.Compare) and len(t.ops) == 1 and isinstance(t.ops[0], (ast.In, ast.NotIn)) and isinstance(t.comparators[0], ast.Attribute) \
                            and isinstance(t.comparators[0].value, ast.Name) and t.comparators[0].value.id == m.self_name:
                        rec = t.comparators[0].attr
        if rec is None:
            continue
        adds = [n for n in walk_shallow(m.node) if isinstance(n, ast.Call) and isinstance(n.func, ast.Attribute) and n.func.attr == "add"
                and isinstance(n.func.value, ast.Attribute) and n.func.value.attr == rec]
        copies = [n for n in walk_shallow(m.node) if isinstance(n, ast.Call) and call_name(n) in DEEP_COPIERS]
        rets = [n for n in walk_shallow(m.node) if isinstance(n, ast.Return) and n.value is not None]
        if adds and copies and len(rets) >= 2 and any(c for c, _ in [(x, 0) for x in ctx.cg.call_sites_of(m)] if c[0] == f0):
            acc = (m, rec)
            break
    if acc is None:
        return None
    m, rec = acc
    an = analyse(eff, m, None)
    holders = set()
    for r in walk_shallow(m.node):
        if isinstance(r, ast.Return) and r.value is not None:
            for o in an.origins(r.value):
                if o[0] == "P" and o[1] == m.self_name and o[2]:
                    holders.add(o[2][0][1:])
    if not holders:
        raise AnalysisError(f"{rid}: cannot tell which attributes of the circuit hold the templates that `{rec}` records as owned")
    leaks = []
    fam = {k} | set(ctx.repo.subclasses(k))
    for kk in sorted(fam, key=lambda x: x.qual):
        for g in kk.methods.values():
            if g.self_name is None:
                continue
            ctor_calls = [c for c in walk_shallow(g.node) if isinstance(c, ast.Call) and (
                (isinstance(c.func, ast.Attribute) and c.func.attr == "__class__") or
                (isinstance(c.func, ast.Call) and isinstance(c.func.func, ast.Name) and c.func.func.id == "type") or
                (isinstance(c.func, ast.Name) and hasattr(ctx.repo.resolve_name(g.module, c.func.id), "mro")
                 and ctx.repo.resolve_name(g.module, c.func.id) in fam))]
            if not ctor_calls:
                continue
            ag = analyse(eff, g, None)
            cfg = ctx.cfg(g)
            for c in ctor_calls:
                handed = []
                for a in list(c.args) + [kw.value for kw in c.keywords]:
                    for o in ag.origins(a.value if isinstance(a, ast.Starred) else a):
                        objs = [o] + [x if x[0] != "K" else x[2] for x in (o[1] if o[0] == "L" else ())]
                        for x in objs:
                            while x[0] == "C":
                                x = x[1]
                            if x[0] == "P" and x[1] == g.self_name and x[2] and x[2][0][1:] in holders:
                                handed.append(norm(a, 40))
                if not handed:
                    continue
                st = stmt_of(cfg, c)

                def drops(n):
                    if not isinstance(n, ast.stmt) or isinstance(n, (ast.If, ast.For, ast.While)):
                        return False
                    for x in ast.walk(n) if not isinstance(n, _FUNCS) else []:
                        if isinstance(x, ast.Call) and isinstance(x.func, ast.Attribute) and x.func.attr == "clear" and isinstance(x.func.value, ast.Attribute) \
                                and x.func.value.attr == rec and isinstance(x.func.value.value, ast.Name) and x.func.value.value.id == g.self_name:
                            return True
                    if isinstance(n, ast.Assign) and any(isinstance(t, ast.Attribute) and t.attr == rec for t in n.targets) and _is_empty_literal(n.value) \
                            or (isinstance(n, ast.Assign) and any(isinstance(t, ast.Attribute) and t.attr == rec for t in n.targets)
                                and isinstance(n.value, ast.Call) and isinstance(n.value.func, ast.Name) and n.value.func.id == "set" and not n.value.args):
                        return True
                    return False
                if any(drops(n) and n is not st and cfg.dominates(n, st) for n in cfg.stmts()) or cfg.must_pass(st, lambda n: n is not st and drops(n)) is None:
                    continue
                leaks.append((g, c, f"{g.qualname} hands {sorted(set(handed))} (templates held in self.{'/'.join(sorted(holders))}) to a new "
                                    f"`{norm(c.func)}` object without emptying the ownership record `self.{rec}`"))
    return {"record": rec, "accessor": m, "holders": holders, "leaks": leaks}



def r8_override_written_into_unshared_copy(ctx, rid):
    """CircuitTemplate.update_var (the write that grid_search -> adapt_circuit performs per grid row) puts the value of ONE node
    into that node's template.  Node templates are shared objects (every node built from one template, every grid copy made by
    deepcopy keeps the sharing), so the object the value is written into must share no container on the callee's write path with the
    template other nodes still use: a deep copy, or a derived object whose constructor stores fresh containers there."""
    from engine.effects import analyse, fmt_origin, DEEP_COPIERS
    from engine.inline import inlined
    eff = ctx.effects
    f0 = ctx.repo.get_func(CIRC, "CircuitTemplate.update_var")
    f = inlined(ctx, f0)                  # the per-node branch may live in a private helper of update_var
    an = analyse(eff, f, None)
    rd = ctx.rd(f)
    n_sites = 0
    for call in sorted([c for c in walk_shallow(f.node) if isinstance(c, ast.Call) and isinstance(c.func, ast.Attribute)],
                       key=lambda c: (c.lineno, c.col_offset)):
        recv = call.func.value
        if isinstance(recv, ast.Name) and recv.id == f.self_name:
            continue
        targets, how = ctx.cg.resolve_call(f, call)
        if not targets:
            continue
        if how == "by-name":
            # the receiver's class follows from how it was made: `x.m()` whose m returns `self.__class__(...)`, a copy of a typed value
            ks = _made_classes(ctx, f, recv, 0)
            if not ks:
                continue
            fam = set()
            for k in ks:
                fam |= set(k.mro) | set(ctx.repo.subclasses(k))
            targets = [t for t in targets if t.cls in fam]
            if not targets:
                continue
        paths = sorted({p for t in targets for (prm, p) in eff.mutates(t, None) if prm == t.self_name and len(p) >= 1})
        if not paths or not any(len(p) >= 2 for p in paths):
            continue                                      # the callee only re-binds attributes of its receiver
        n_sites += 1
        label = f"per-node override through {', '.join(sorted(t.qualname for t in targets))} is written into an unshared copy"
        facts = {"write_path": ["self" + "".join(p) for p in paths], "callee": sorted(t.qualname for t in targets), "call": norm(call)}
        orig = an.origins(recv)
        shared = [o for o in orig if o[0] in ("P", "G", "C")]
        if shared:
            # a copy discipline may license the write: a registry of copies made by this call, or a persistent ownership record
            lic = _local_registry_license(ctx, rid, f, an, call, recv)
            if lic is not None:
                ctx.ok(rid, f0, call, lic, facts, label=label)
                continue
            e0 = resolve_plain(rd, recv)
            od = ownership_discipline(ctx, rid)
            if od is not None and isinstance(e0, ast.Call) and od["accessor"] in ctx.cg.resolve_call(f, e0)[0]:
                facts["ownership_record"] = "self." + od["record"]
                if od["leaks"]:
                    g, c, text = od["leaks"][0]
                    ctx.violation(rid, f0, call, f"`{norm(call)}` writes in place into a template that `self.{od['record']}` records as owned by this "
                                  f"circuit, but {text}: after that both circuits reference the template and the in-place write of one changes "
                                  f"the other", facts, label=label)
                else:
                    ctx.ok(rid, f0, call, f"written in place only into templates that {od['accessor'].qualname} deep-copied for this circuit "
                           f"(record self.{od['record']}); every method that hands the held templates to a new circuit object empties the record",
                           facts, label=label)
                continue
            ctx.violation(rid, f0, call, f"`{norm(call)}` writes through {facts['write_path']} of an object that is "
                          f"{sorted(fmt_origin(o) for o in shared)} - {'a shallow copy of ' if all(o[0] == 'C' for o in shared) else ''}a template "
                          f"other nodes still use: the override of one node reaches its siblings (and, in a sweep, the rows that share the template)",
                          facts, label=label)
            continue
        if not orig or any(o[0] == "U" for o in orig):
            raise AnalysisError(f"{rid}: cannot tell where the receiver of `{norm(call)}` comes from")
        # fresh: but how deep?  follow the receiver to the expression that made it
        e0 = recv
        for _ in range(6):
            if isinstance(e0, ast.Name):
                defs = rd.defs_reaching(e0)
                vals = [assigned_value(d, e0.id) for d in defs if not isinstance(d, ast.arguments)]
                if len(defs) != 1 or len(vals) != 1 or vals[0] is None:
                    raise AnalysisError(f"{rid}: the receiver `{norm(recv)}` of `{norm(call)}` has several / unrecognised definitions")
                e0 = vals[0]
            else:
                break
        ctx.require(isinstance(e0, ast.Call), f"{rid}: the receiver of `{norm(call)}` is made by `{norm(e0)}` (unrecognised form)")
        family = set()
        for t in targets:
            if t.cls is not None:
                family |= {t.cls} | set(ctx.repo.subclasses(t.cls))
        verdicts = _copy_depth(ctx, eff, rid, f, an, e0, paths, family, 0)
        bad = [v for v in verdicts if v[0] == "shared"]
        facts["made_by"] = norm(e0)
        if bad:
            why = "; ".join(sorted({v[1] for v in bad}))
            ctx.violation(rid, f0, call, f"`{norm(call)}` writes through {facts['write_path']} of the object made by `{norm(e0)}`, which is a new "
                          f"object but not a private one: {why}.  The value written for one node lands in the template its sibling nodes (and the "
                          f"other rows of a sweep that share it) still use", facts, label=label)
        else:
            ctx.ok(rid, f0, call, "the template that receives the node's value shares no container on the write path with the template it was "
                                 "made from (" + "; ".join(sorted({v[1] for v in verdicts})) + ")", facts, label=label)
    ctx.require(n_sites >= 1, f"{rid}: CircuitTemplate.update_var no longer calls a method that writes into a node template (anchor vanished)")


def resolve_plain(rd, e, depth=6):
    """follow single plain definitions of a name (original function, engine reaching definitions)"""
    for _ in range(depth):
        if isinstance(e, ast.Name):
            ds = rd.defs_reaching(e)
            vs = [assigned_value(d, e.id) for d in ds if not isinstance(d, ast.arguments)]
            if len(ds) == 1 and len(vs) == 1 and vs[0] is not None:
                e = vs[0]
                continue
        break
    return e


def _made_classes(ctx, f, e, depth):
    """Repository classes of the object expression `e` of f evaluates to, read off the way it was made."""
    if depth > 5 or e is None:
        return set()
    try:
        ks = set(ctx.cg.expr_classes(f, e))
    except Exception:
        ks = set()
    if ks:
        return ks
    if isinstance(e, ast.Name):
        out = set()
        for d in ctx.rd(f).defs_reaching(e):
            v = None if isinstance(d, ast.arguments) else assigned_value(d, e.id)
            if v is not None:
                out |= _made_classes(ctx, f, v, depth + 1)
        return out
    if isinstance(e, ast.Call):
        if call_name(e) in ("deepcopy", "copy") and e.args:
            return _made_classes(ctx, f, e.args[0], depth + 1)
        if isinstance(e.func, ast.Attribute) and e.func.attr == "copy" and not e.args:
            return _made_classes(ctx, f, e.func.value, depth + 1)
        targets, how = ctx.cg.resolve_call(f, e)
        out = set()
        if how != "by-name":
            for m in targets:
                if m.name == "__init__" and m.cls is not None:
                    out.add(m.cls)
                    continue
                for r in walk_shallow(m.node):
                    if isinstance(r, ast.Return) and isinstance(r.value, ast.Call):
                        fn = r.value.func
                        if m.cls is not None and ((isinstance(fn, ast.Attribute) and fn.attr == "__class__" and isinstance(fn.value, ast.Name)
                                                   and fn.value.id == m.self_name)
                                                  or (isinstance(fn, ast.Call) and isinstance(fn.func, ast.Name) and fn.func.id == "type")):
                            out.add(m.cls)
                        else:
                            k = ctx.repo.resolve_expr(m.module, fn) if isinstance(fn, (ast.Name, ast.Attribute)) else None
                            if k is not None and hasattr(k, "mro"):
                                out.add(k)
        return out
    return set()


def _ctor_classes(ctx, f, fn, family):
    """classes constructed by calling `fn` (`K`, `self.__class__`, `type(x)`): the named class, else the family of the write path"""
    r = ctx.repo.resolve_expr(f.module, fn) if isinstance(fn, (ast.Name, ast.Attribute)) else None
    if r is not None and hasattr(r, "mro"):
        return [r]
    is_dyn = (isinstance(fn, ast.Attribute) and fn.attr == "__class__") or (isinstance(fn, ast.Call) and isinstance(fn.func, ast.Name) and fn.func.id == "type")
    if is_dyn:
        base = fn.value if isinstance(fn, ast.Attribute) else (fn.args[0] if fn.args else None)
        if isinstance(base, ast.Name) and f.cls is not None and base.id == f.self_name:
            return sorted({f.cls} | set(ctx.repo.subclasses(f.cls)), key=lambda k: k.qual)
        return sorted(family, key=lambda k: k.qual)
    return None


def _copy_depth(ctx, eff, rid, f, an, e: ast.Call, paths, family, depth):
    """[(kind, text)]: kind 'deep' / 'fresh' (nothing on the write path is shared) or 'shared' (with the reason) for the object the call
    expression e of function f evaluates to."""
    from engine.effects import analyse, fmt_origin, DEEP_COPIERS
    if depth > 3:
        raise AnalysisError(f"{rid}: copy derivation too deep at `{norm(e)}`")
    name = call_name(e)
    if name in DEEP_COPIERS and (ctx.repo.external_name(f.module, e.func) or "").startswith("copy."):
        return [("deep", f"`{norm(e, 60)}` is a deep copy")]
    classes = _ctor_classes(ctx, f, e.func, family)
    if classes is not None:
        out = []
        for k in classes:
            g = ctx.repo.lookup_method(k, "__init__")
            if g is None:
                raise AnalysisError(f"{rid}: class {k.name} constructed by `{norm(e)}` has no analysable __init__")
            binding = an._bind(e, g)
            for p in paths:
                for o in _field_origins(eff, g, p, rid):
                    for x in an._subst(o, binding):
                        where = f"{k.name}{''.join(p)}"
                        if x[0] in ("P", "G"):
                            out.append(("shared", f"{g.qualname} stores {fmt_origin(x)} of {f.qualname} as `{where}` without copying it"))
                        elif x[0] == "U":
                            raise AnalysisError(f"{rid}: cannot tell what {g.qualname} stores as `{where}` (from `{norm(e)}`)")
                        else:
                            out.append(("fresh", f"`{where}` is a fresh container"))
        return out
    targets, how = ctx.cg.resolve_call(f, e)
    if not targets or how == "by-name" and len(targets) > 1:
        if isinstance(e.func, ast.Attribute) and e.func.attr == "copy" or name == "copy":
            return [("shared", f"`{norm(e, 60)}` is a shallow copy: the containers inside it are the original's")]
        raise AnalysisError(f"{rid}: cannot resolve `{norm(e)}`, which makes the object the node's value is written into")
    out = []
    for m in targets:
        am = analyse(eff, m, None)
        rets = [r for r in walk_shallow(m.node) if isinstance(r, ast.Return) and r.value is not None]
        if not rets:
            raise AnalysisError(f"{rid}: {m.qualname} (called as `{norm(e)}`) returns nothing")
        for r in rets:
            v = r.value
            for _ in range(4):
                if isinstance(v, ast.Name):
                    ds = am.rd.defs_reaching(v)
                    vs = [assigned_value(d, v.id) for d in ds if not isinstance(d, ast.arguments)]
                    if len(ds) == 1 and len(vs) == 1 and vs[0] is not None:
                        v = vs[0]
                        continue
                break
            if isinstance(v, ast.Name) and m.self_name is not None and v.id == m.self_name:
                out.append(("shared", f"{m.qualname} returns its receiver itself"))
                continue
            if not isinstance(v, ast.Call):
                raise AnalysisError(f"{rid}: {m.qualname} (called as `{norm(e)}`) returns `{norm(v)}` (unrecognised form)")
            sub = _copy_depth(ctx, eff, rid, m, am, v, paths, family, depth + 1)
            # express "shared with a parameter of m" in words: the receiver of the call is the template other nodes use
            out += sub
    return out



# --------------------------------------------------------------------------------------------
# R9 — a skipped update is compared with the value the compiled model would use
# --------------------------------------------------------------------------------------------

def _override_attrs(ctx):
    """Attributes of a node template through which a per-node override is stored (`self.operators[op][var] = val`): read off the
    write path of the method CircuitTemplate.update_var calls on the node's template (same derivation as R8)."""
    from engine.inline import inlined
    eff = ctx.effects
    f = inlined(ctx, ctx.repo.get_func(CIRC, "CircuitTemplate.update_var"))
    out = set()
    for call in walk_shallow(f.node):
        if not (isinstance(call, ast.Call) and isinstance(call.func, ast.Attribute)) or (isinstance(call.func.value, ast.Name) and call.func.value.id == f.self_name):
            continue
        targets, how = ctx.cg.resolve_call(f, call)
        if how == "by-name":
            ks = _made_classes(ctx, f, call.func.value, 0)
            fam = set()
            for k in ks:
                fam |= set(k.mro) | set(ctx.repo.subclasses(k))
            targets = [t for t in targets if t.cls in fam]
        for t in targets:
            for prm, p in eff.mutates(t, None):
                if prm == t.self_name and len(p) >= 2:
                    out.add(p[0][1:])
    return out


def r9_skip_compares_with_effective_value(ctx, rid):
    """Where adapt_circuit leaves a node variable alone because "it has that value already", the value it compares with must be the
    value the compiled model would use: the node-level override (stored where update_var writes it) first, the operator's default
    only when the node has none - the frontend's own resolution order.  Comparing with the operator default alone skips the update
    of a node that carries an override, and the row is simulated with the override while the table lists the grid value."""
    ac = _func(ctx, "adapt_circuit")
    attrs = _override_attrs(ctx)
    ctx.require(attrs, f"{rid}: cannot tell where a per-node override is stored (write path of the node template's update_var not found)")
    n = 0
    for V in variants(ctx, ac)[:1]:
        case = _AdaptCase(ctx, rid, V, _Sink())
        cmps = []
        for c in ordered(walk_shallow(V.node)):
            if isinstance(c, ast.Compare) and len(c.ops) == 1 and isinstance(c.ops[0], (ast.Eq, ast.NotEq)):
                a, b = c.left, c.comparators[0]
                for val, cur in ((a, b), (b, a)):
                    if case.is_val(val) and not case.is_val(cur) and not isinstance(cur, ast.Constant):
                        cmps.append((c, cur))
        for c, cur0 in cmps:
            cur = resolve(ctx, V, cur0)
            h = ctx.repo.resolve_name(V.module, cur.func.id) if isinstance(cur, ast.Call) and isinstance(cur.func, ast.Name) else None
            if isinstance(h, FunctionInfo):
                H = syn(ctx, h)                                # the current value is computed by a helper that could not be spliced in
                nodes, where = ordered(walk_shallow(H.node)), h.qualname
            else:
                H = V                                          # ... or in place (a spliced helper): look at the whole expression
                tree = ast.Expr(value=expand(ctx, V, cur0, depth=12))
                nodes, where = list(ast.walk(tree)), "adapt_circuit"
            # value reads: subscripts / .get() by a non-constant key
            over, other = [], []
            for x in nodes:
                base = key = None
                if isinstance(x, ast.Subscript) and isinstance(x.ctx, ast.Load) and not isinstance(x.slice, (ast.Constant, ast.Slice)):
                    base, key = x.value, x.slice
                elif isinstance(x, ast.Call) and isinstance(x.func, ast.Attribute) and x.func.attr == "get" and x.args and not isinstance(x.args[0], ast.Constant):
                    base, key = x.func.value, x.args[0]
                if base is None or not isinstance(key, ast.Name):
                    continue
                eb = expand(ctx, H, base) if H is not V else base
                names = {a.attr for a in ast.walk(eb) if isinstance(a, ast.Attribute)}
                if not names:
                    continue                                   # a plain local / parameter container: not a template attribute
                # the variable name is the LAST key of the access: template.<attr>[...][var]
                last_attr = eb.attr if isinstance(eb, ast.Attribute) else None
                if names & attrs:
                    if isinstance(eb, ast.Attribute) and eb.attr in attrs:
                        continue                               # <node>.operators[op]: selects the operator's entry, not yet the variable
                    over.append(x)
                elif last_attr is not None:
                    other.append((x, last_attr))
            if not over and not other:
                continue
            n += 1
            label = f"skip decision {n} in adapt_circuit compares with the effective value"
            if H is V:
                set_parents(tree)
            if other and not over:
                x, a = other[0]
                ctx.violation(rid, ac, c, f"adapt_circuit skips an update when the new value equals `{norm(cur0)}`, and {where} takes that value "
                              f"from `{norm(x)}` (the `{a}` of the operator template) without ever looking at the node's own "
                              f"`{'/'.join(sorted(attrs))}` entry, which is where update_var stores a per-node override and which wins when the model "
                              f"is compiled: a node that carries an override keeps it although the grid row (and the returned table) names the "
                              f"operator's default value", label=label)
                continue
            # both are read: the override must take precedence
            ok_prec = True
            for x, a in other:
                p = parent(x)
                guarded = False
                for anc in [x] + list(ancestors(x)):
                    q = parent(anc)
                    if isinstance(q, ast.IfExp) and q.orelse is anc and any(isinstance(t, ast.Compare) and isinstance(t.ops[0], ast.In) for t in ast.walk(q.test)):
                        guarded = True
                    if isinstance(q, ast.IfExp) and q.body is anc and any(isinstance(t, ast.Compare) and isinstance(t.ops[0], ast.NotIn) for t in ast.walk(q.test)):
                        guarded = True
                    if isinstance(q, ast.Call) and isinstance(q.func, ast.Attribute) and q.func.attr == "get" and len(q.args) == 2 and q.args[1] is anc:
                        guarded = True
                    if isinstance(q, ast.If) and any(anc is s or contains(s, anc) for s in q.orelse) and \
                            any(isinstance(t, ast.Compare) and isinstance(t.ops[0], ast.In) for t in ast.walk(q.test)):
                        guarded = True
                    if isinstance(q, ast.If) and any(anc is s or contains(s, anc) for s in q.body) and \
                            any(isinstance(t, ast.Compare) and isinstance(t.ops[0], ast.NotIn) for t in ast.walk(q.test)):
                        guarded = True
                    if isinstance(q, ast.ExceptHandler):
                        guarded = True                         # try: override[var] except KeyError: default[var]
                ok_prec = ok_prec and guarded
            if ok_prec:
                ctx.ok(rid, ac, c, f"{where} reads the node's own override first and the operator default only where the node has none",
                       label=label)
            else:
                raise AnalysisError(f"{rid}: {where} reads both the node's override and `{norm(other[0][0])}`, but the order of "
                                    f"precedence has a form that is not recognised")
    if n == 0:
        ctx.info(rid, ac, ac.node, "adapt_circuit does not skip updates by comparing with a current value", label="no skip decision")



# --------------------------------------------------------------------------------------------
# R10 — every output column is read from its own target's backend variable
# --------------------------------------------------------------------------------------------

def _yields_variable_positions(ctx, f, call, depth) -> bool:
    """the call is get_variable_positions(...) or a method of the same class that returns what get_variable_positions returns
    (directly, or the two maps it merges the results into)"""
    nm = call_name(call)
    if nm == "get_variable_positions":
        return True
    if depth > 2 or f.cls is None or nm is None or not isinstance(call.func, ast.Attribute):
        return False
    g = ctx.repo.lookup_method(f.cls, nm)
    if g is None:
        return False
    inner = [c for c in walk_shallow(g.node) if isinstance(c, ast.Call) and _yields_variable_positions(ctx, g, c, depth + 1)]
    rets = [r for r in walk_shallow(g.node) if isinstance(r, ast.Return) and r.value is not None]
    return bool(inner) and bool(rets) and all(r.value in inner or (isinstance(r.value, ast.Tuple) and len(r.value.elts) == 2) for r in rets)


def r10_columns_read_from_their_own_backend_variable(ctx, rid):
    """CircuitTemplate.run maps each requested output (for a sweep: one per swept circuit under `all/...`) to (backend variable,
    position).  Reading the recording of ONE target's backend variable - `recordings[backend_of[keys[0]]]` - and taking every
    target's column from it is only correct when all targets share that backend variable (nodes of different structure, or
    vectorize=False, get variables of their own): such a block read needs a guard that the backend variables of all targets are one
    and the same."""
    f0 = ctx.repo.get_func(CIRC, "CircuitTemplate.run")
    F = syn(ctx, f0)
    cfg = ctx.cfg(F)
    # names that hold the backend-variable map returned by get_variable_positions (second element), directly or merged by update()
    bnames = set()
    for n in walk_shallow(F.node):
        if isinstance(n, ast.Assign) and isinstance(n.value, ast.Call) and _yields_variable_positions(ctx, f0, n.value, 0):
            for t in n.targets:
                if isinstance(t, ast.Tuple) and len(t.elts) == 2 and isinstance(t.elts[1], ast.Name):
                    bnames.add(t.elts[1].id)
    ctx.require(bnames, f"{rid}: run() does not unpack `<positions>, <backend variables> = get_variable_positions(...)` (unrecognised form)")
    changed = True
    while changed:
        changed = False
        for n in walk_shallow(F.node):
            if isinstance(n, ast.Call) and isinstance(n.func, ast.Attribute) and n.func.attr == "update" and isinstance(n.func.value, ast.Name) \
                    and n.args and isinstance(n.args[0], ast.Name) and n.args[0].id in bnames and n.func.value.id not in bnames:
                bnames.add(n.func.value.id)
                changed = True

    def picks_one_of_many(k):
        """`keys[0]`, `list(keys)[0]`, `next(iter(keys))`: one fixed member of a collection of target keys"""
        k = resolve(ctx, F, k)
        if isinstance(k, ast.Subscript) and isinstance(k.slice, ast.Constant) and isinstance(k.slice.value, int) and not isinstance(k.value, ast.Constant):
            return k.value
        if isinstance(k, ast.Call) and isinstance(k.func, ast.Name) and k.func.id == "next" and k.args:
            a = k.args[0]
            return a.args[0] if isinstance(a, ast.Call) and isinstance(a.func, ast.Name) and a.func.id == "iter" and a.args else a
        return None
    n_sites = 0
    for x in ordered(walk_shallow(F.node)):
        if not (isinstance(x, ast.Subscript) and isinstance(x.ctx, ast.Load) and isinstance(x.value, ast.Name) and x.value.id in bnames):
            continue
        coll = picks_one_of_many(x.slice)
        if coll is None:
            continue
        if comp_generator_of_safe(x) is not None and any(isinstance(a, ast.SetComp) for a in ancestors(x)):
            continue
        n_sites += 1
        st = stmt_of(cfg, x)
        label = f"block read from the backend variable of one target [{norm(st, 70)}]"
        # guard: len({B[k] for k in keys}) == 1 on the path to the statement
        guarded = False
        tests = []
        cur = st
        for a in ancestors(st):
            if isinstance(a, _FUNCS):
                break
            if isinstance(a, ast.If) and any(s is cur for s in a.body):
                tests.append(a.test)
            if isinstance(a, ast.stmt):
                cur = a
        for t in tests:
            for c in ast.walk(t):
                if isinstance(c, ast.Compare) and len(c.ops) == 1 and isinstance(c.ops[0], (ast.Eq, ast.LtE, ast.Lt)) and isinstance(c.left, ast.Call) \
                        and isinstance(c.left.func, ast.Name) and c.left.func.id == "len" and c.left.args \
                        and isinstance(c.comparators[0], ast.Constant) and c.comparators[0].value in (1, 2):
                    if isinstance(c.ops[0], ast.Lt) != (c.comparators[0].value == 2):
                        continue
                    s = resolve(ctx, F, c.left.args[0])
                    if isinstance(s, ast.Call) and isinstance(s.func, ast.Name) and s.func.id == "set" and s.args:
                        s = s.args[0]
                    elts = [s.elt] if isinstance(s, (ast.SetComp, ast.GeneratorExp, ast.ListComp)) else (list(s.elts) if isinstance(s, ast.Set) else [])
                    if elts and all(isinstance(e, ast.Subscript) and isinstance(e.value, ast.Name) and e.value.id in bnames for e in elts):
                        guarded = True
        if guarded:
            ctx.ok(rid, f0, st, "the block of one target's backend variable is used for all targets only where all of them map to that one "
                                "backend variable", label=label)
        else:
            ctx.violation(rid, f0, st, f"`{norm(st)}` takes the recording of the backend variable of ONE target (`{norm(x)}`) for every target "
                          f"of the output, and nothing on the path checks that all targets map to the same backend variable "
                          f"(`len({{{x.value.id}[k] for k in ...}}) == 1`): targets that were vectorised separately (nodes of different structure) "
                          f"get the columns of the first target's variable, so a swept circuit's output is another circuit's series", label=label)
    if n_sites == 0:
        ctx.info(rid, f0, f0.node, "run() reads every output through its own backend-variable entry (no block read through one target's entry)",
                 label="no block read")


RULES = [
    ("C17-R1", r1_private_copy_uncoupled, 5),
    ("C17-R2", r2_one_key_per_row, 4),
    ("C17-R3", r3_values_reach_targets, 7),
    ("C17-R4", r4_all_prefix_and_run, 6),
    ("C17-R5", r5_linearize_grid, 4),
    ("C17-R6", r6_edge_update_selects_one_edge, 1),
    ("C17-R7", r7_outputs_located_per_node, 2),
    ("C17-R8", r8_override_written_into_unshared_copy, 1),
    ("C17-R9", r9_skip_compares_with_effective_value, 0),
    ("C17-R10", r10_columns_read_from_their_own_backend_variable, 0),
]
