"""C17 — a parameter sweep equals running each parameter set on its own (DESIGN §4 C17)."""
from __future__ import annotations

import ast
import re
from typing import Dict, List, Optional

from engine import AnalysisError
from engine.srcmodel import walk_shallow, norm, parent, ancestors
from engine.util import call_name, contains, fstring_template
from engine.cfg import stmt_of
from engine.dataflow import assigned_value, target_names
from .c06 import same_value, resolve_local, binding_loop, comp_generator_of, position_in_target, block_of, ordered

PROPERTY = "C17"
UT = "pyrates/utility.py"
CIRC = "pyrates/frontend/template/circuit.py"

EXPLANATION = (
    "Equality of the swept time series with individual runs is not decidable statically; the check is thin and says so.  Decided "
    "(structural necessary conditions on pyrates/utility.py): R1 each grid row owns a private copy and the rows stay uncoupled - in "
    "adapt_circuit the template that receives update_var originates from copy.deepcopy on every path and is what is returned "
    "(CircuitTemplate.update_var returns self); in grid_search the sub-circuit added per row is the value returned by adapt_circuit "
    "for the caller's template and parameter map, and the top-level circuit that is run is only ever an empty CircuitTemplate "
    "extended through update_template(circuits={...}) - no edges, no nodes, no other mutation.  R2 one key per row: the sub-circuit "
    "key and the name appended to the label list are the same value in the same iteration, the key contains the row label (unique), "
    "the loop runs over param_grid.index, that list becomes param_grid.index after the loop and that table is returned.  R3 row "
    "values reach what the parameter map addresses: the per-row dict is filled with param_grid[key][row]; in adapt_circuit the value, "
    "the map entry and the update record use one key; node records are `<node>/<var>` of the map's own lists; every edge record is "
    "resolved with the (source, target, idx) of one map entry and carries idx on to update_var, whose edge loop hands "
    "(source, target, idx) of the record to get_edge and re-registers the edge under the same idx.  R4 inputs and outputs are "
    "re-addressed to every sub-circuit with the prefix `all/`, the run receives them together with the caller's simulation_time, "
    "step_size and sampling_step_size, and its result is returned.  R5 linearize_grid keeps column j of the permuted grid with key j "
    "(values and keys appended in lock-step, meshgrid stacked along the last axis, reshaped to (-1, n)).  NOT decided: everything "
    "behavioural - wildcard expansion (C06), that overrides reach their targets (C07), vectorisation of the combined circuit (C04), "
    "the numerical equality itself."
)
RULE_TEXT = ("instances = reaching definitions of the copied template and of the top-level circuit, the per-row key uses, update "
             "records of adapt_circuit, the edge loop of CircuitTemplate.update_var, re-addressing stores, forwarded run arguments; "
             "non-trivial = decided by reaching definitions / value identity / template parsing")
ASSUMPTIONS = [
    "copy.deepcopy returns an object that shares no mutable state with its argument (library semantics).",
    "CircuitTemplate.update_template(circuits=...) adds sub-circuits without connecting them (it forwards the existing edge list only).",
]


def _func(ctx, name):
    return ctx.repo.get_func(UT, name)


def _calls(f, name):
    return ordered([c for c in walk_shallow(f.node) if isinstance(c, ast.Call) and call_name(c) == name])


def _unmodified_param(ctx, f, e, pname: Optional[str] = None) -> bool:
    if not isinstance(e, ast.Name) or comp_generator_of(e) is not None:
        return False
    if pname is not None and e.id != pname:
        return False
    defs = ctx.rd(f).defs_reaching(e)
    return len(defs) == 1 and isinstance(defs[0], ast.arguments) and e.id in f.params


def _is_deepcopy(ctx, f, e) -> bool:
    return isinstance(e, ast.Call) and ctx.repo.external_name(f.module, e.func) in ("copy.deepcopy",) and len(e.args) == 1


def _the_run_call(ctx, gs, rid):
    runs = [c for c in _calls(gs, "run") if isinstance(c.func, ast.Attribute) and any(k.arg == "simulation_time" for k in c.keywords)]
    ctx.require(len(runs) == 1, f"{rid}: expected one `<circuit>.run(simulation_time=...)` call in grid_search, found {len(runs)}")
    ctx.require(isinstance(runs[0].func.value, ast.Name), f"{rid}: the receiver of run() in grid_search is not a plain name (unrecognised form)")
    return runs[0]


def _row_loop(ctx, gs, rid):
    """(loop, update_template call, circuits dict) of grid_search."""
    ups = [c for c in _calls(gs, "update_template")]
    ctx.require(len(ups) == 1, f"{rid}: expected one update_template call in grid_search, found {len(ups)}")
    up = ups[0]
    loops = [a for a in ancestors(up) if isinstance(a, (ast.For, ast.While))]
    ctx.require(len(loops) == 1 and isinstance(loops[0], ast.For), f"{rid}: update_template is not inside exactly one for loop in grid_search")
    return loops[0], up


# --------------------------------------------------------------------------------------------
# R1 — private copy per row, rows uncoupled
# --------------------------------------------------------------------------------------------

def r1_private_copy_uncoupled(ctx, rid):
    ac = _func(ctx, "adapt_circuit")
    gs = _func(ctx, "grid_search")
    uvs = _calls(ac, "update_var")
    ctx.require(len(uvs) == 1 and isinstance(uvs[0].func, ast.Attribute) and isinstance(uvs[0].func.value, ast.Name),
                f"{rid}: expected one `<template>.update_var(...)` call in adapt_circuit")
    uv = uvs[0]
    recv = uv.func.value
    defs = ctx.rd(ac).defs_reaching(recv)
    ctx.require(defs, f"{rid}: `{recv.id}` has no definition in adapt_circuit")
    for d in ordered([x for x in defs if isinstance(x, ast.AST) and hasattr(x, "lineno")]) + [x for x in defs if isinstance(x, ast.arguments)]:
        if isinstance(d, ast.arguments):
            ctx.violation(rid, ac, uv, f"on some path `{recv.id}` is still the caller's own template when update_var is applied: the sweep would "
                                       f"write one row's parameter values into the template every other row (and the caller) uses",
                          label=f"private copy: parameter `{recv.id}` reaches update_var")
            continue
        v = assigned_value(d, recv.id)
        if v is not None and _is_deepcopy(ctx, ac, v):
            ctx.ok(rid, ac, d, "the template that receives update_var is a deepcopy on this path", label=f"private copy: {norm(d)}")
        else:
            ctx.violation(rid, ac, d, f"`{norm(d)}` binds the template that receives update_var to something that is not a deepcopy: grid rows "
                                      f"would share (and overwrite) one another's parameter values", label=f"private copy: {norm(d)}")
    # the copy is what is returned
    rets = [n for n in walk_shallow(ac.node) if isinstance(n, ast.Return)]
    upd = ctx.repo.get_func(CIRC, "CircuitTemplate.update_var")
    self_rets = [n for n in walk_shallow(upd.node) if isinstance(n, ast.Return)]
    returns_self = bool(self_rets) and all(isinstance(r.value, ast.Name) and r.value.id == upd.self_name for r in self_rets)
    direct = len(rets) == 1 and rets[0].value is uv
    via_name = len(rets) == 1 and isinstance(rets[0].value, ast.Name) and same_value(ctx, ac, rets[0].value, recv) \
        and ctx.cfg(ac).dominates(stmt_of(ctx.cfg(ac), uv), rets[0])
    if (direct and returns_self) or via_name:
        ctx.ok(rid, ac, rets[0], "adapt_circuit returns the updated private copy (update_var returns self)", label="returns the copy")
    else:
        ctx.violation(rid, ac, rets[0] if rets else ac.node, "adapt_circuit does not return the template it updated "
                                                              f"(update_var returns self: {returns_self})", label="returns the copy")
    # grid_search: per-row circuit = adapt_circuit(caller's template, row params, caller's map)
    loop, up = _row_loop(ctx, gs, rid)
    kw = {k.arg: k.value for k in up.keywords}
    cd = kw.get("circuits")
    ctx.require(isinstance(cd, ast.Dict) and len(cd.keys) == 1 and cd.keys[0] is not None,
                f"{rid}: `{norm(up)}` does not add exactly one `{{key: circuit}}` entry (unrecognised form)")
    val = resolve_local(ctx, gs, cd.values[0])
    good = isinstance(val, ast.Call) and isinstance(val.func, ast.Name) and ctx.repo.resolve_name(gs.module, val.func.id) is ac \
        and contains(loop, val) and len(val.args) + len(val.keywords) == 3
    if good:
        bound = dict(zip(ac.params, val.args))
        bound.update({k.arg: k.value for k in val.keywords})
        good = _unmodified_param(ctx, gs, bound.get(ac.params[0])) and _unmodified_param(ctx, gs, bound.get(ac.params[2]))
    if good:
        ctx.ok(rid, gs, up, "the sub-circuit of each row is the value adapt_circuit returned for the caller's template and parameter map",
               {"row_circuit": norm(val)}, label="row circuit is adapt_circuit's result")
    else:
        ctx.violation(rid, gs, up, f"the sub-circuit added for a grid row is `{norm(val)}`, not the result of adapt_circuit(<caller's template>, "
                                   f"<row parameters>, <caller's parameter map>) computed in this iteration: rows would share a template or miss "
                                   f"their parameter values", label="row circuit is adapt_circuit's result")
    # top-level circuit: empty template, only extended through update_template(circuits=...)
    run = _the_run_call(ctx, gs, rid)
    top = run.func.value
    tdefs = ctx.rd(gs).defs_reaching(top)
    ctx.require(tdefs, f"{rid}: `{top.id}` has no definition in grid_search")
    for d in ordered([x for x in tdefs if not isinstance(x, ast.arguments)]):
        v = assigned_value(d, top.id)
        label = f"top-level circuit: {norm(d)}"
        if isinstance(v, ast.Call) and isinstance(v.func, ast.Name) and getattr(ctx.repo.resolve_name(gs.module, v.func.id), "name", None) == "CircuitTemplate":
            kws = {k.arg for k in v.keywords}
            if kws <= {"name", "path", "description"} and len(v.args) <= 3:
                ctx.ok(rid, gs, d, "the top-level circuit starts as an empty CircuitTemplate (no nodes, circuits or edges)", label=label)
            else:
                ctx.violation(rid, gs, d, f"the top-level circuit is created with content ({sorted(kws - {'name', 'path', 'description'})}): "
                                          f"the swept circuits would not be the only, uncoupled members", label=label)
        elif isinstance(v, ast.Call) and call_name(v) == "update_template" and isinstance(v.func, ast.Attribute) \
                and isinstance(v.func.value, ast.Name) and v.func.value.id == top.id:
            kws = {k.arg for k in v.keywords}
            if kws <= {"circuits", "in_place"} and not v.args:
                ctx.ok(rid, gs, d, "the top-level circuit is extended with a sub-circuit only (no edges between rows)", label=label)
            else:
                ctx.violation(rid, gs, d, f"the top-level circuit is extended with {sorted(kws - {'circuits'}) or 'positional arguments'}: edges "
                                          f"or nodes at the top level couple the grid rows (each row must evolve on its own)", label=label)
        else:
            ctx.violation(rid, gs, d, f"the circuit that is run is bound by `{norm(d)}`, neither an empty CircuitTemplate nor "
                                      f"update_template(circuits=...) of it", label=label)
    if any(isinstance(x, ast.arguments) for x in tdefs):
        ctx.violation(rid, gs, run, f"`{top.id}` may still be a parameter of grid_search when it is run", label="top-level circuit: parameter")
    # no other use of the top-level circuit
    for n in walk_shallow(gs.node):
        if isinstance(n, ast.Name) and n.id == top.id and isinstance(n.ctx, ast.Load) and comp_generator_of(n) is None:
            p = parent(n)
            gp = parent(p) if p is not None else None
            if isinstance(p, ast.Attribute) and isinstance(gp, ast.Call) and gp.func is p and p.attr in ("update_template", "run"):
                continue
            st = stmt_of(ctx.cfg(gs), n)
            if isinstance(p, ast.Attribute) and isinstance(gp, ast.Call) and gp.func is p and re.search(r"edge|connect|update_var|add_", p.attr):
                ctx.violation(rid, gs, st, f"`{norm(gp)}` alters the top-level circuit outside update_template(circuits=...): the rows of the "
                                           f"sweep may become coupled", label=f"top-level circuit: other use {norm(st)}")
            else:
                raise AnalysisError(f"{rid}: unrecognised use of the top-level circuit `{top.id}` in `{norm(st)}`")


# --------------------------------------------------------------------------------------------
# R2 — one key per row
# --------------------------------------------------------------------------------------------

def r2_one_key_per_row(ctx, rid):
    gs = _func(ctx, "grid_search")
    rd = ctx.rd(gs)
    cfg = ctx.cfg(gs)
    loop, up = _row_loop(ctx, gs, rid)
    cd = {k.arg: k.value for k in up.keywords}.get("circuits")
    ctx.require(isinstance(cd, ast.Dict) and len(cd.keys) == 1 and cd.keys[0] is not None,
                f"{rid}: `{norm(up)}` does not add exactly one `{{key: circuit}}` entry (unrecognised form)")
    key = cd.keys[0]
    it = loop.iter
    if not (isinstance(it, ast.Attribute) and it.attr == "index" and isinstance(it.value, ast.Name)):
        raise AnalysisError(f"{rid}: the row loop iterates `{norm(it)}`, not `<table>.index` (unrecognised form)")
    loop_table = it.value

    def same_defs(a: ast.Name, b: ast.Name) -> bool:
        return a.id == b.id and {id(d) for d in rd.defs_reaching(a)} == {id(d) for d in rd.defs_reaching(b)}
    idx_assigns = [st for st in walk_shallow(gs.node) if isinstance(st, ast.Assign) and len(st.targets) == 1
                   and isinstance(st.targets[0], ast.Attribute) and st.targets[0].attr == "index"]
    ctx.require(len(idx_assigns) <= 1, f"{rid}: several assignments to an `.index` in grid_search (unrecognised form)")
    ia = idx_assigns[0] if idx_assigns else None
    if ia is not None:
        ctx.require(isinstance(ia.value, ast.Name) and isinstance(ia.targets[0].value, ast.Name), f"{rid}: unrecognised form of `{norm(ia)}`")
        list_name = ia.value.id
    else:
        cands = {c.func.value.id for c in _calls(gs, "append") if isinstance(c.func.value, ast.Name) and contains(loop, c)
                 and block_of(stmt_of(cfg, c)) is loop.body}
        ctx.require(len(cands) == 1, f"{rid}: cannot identify the list of row labels in grid_search (candidates {sorted(cands)})")
        list_name = next(iter(cands))
    apps = [c for c in _calls(gs, "append") if isinstance(c.func.value, ast.Name) and c.func.value.id == list_name]
    ctx.require(apps, f"{rid}: nothing is appended to `{list_name}`")
    # (a) same value, same iteration
    up_st = stmt_of(cfg, up)
    for ap in apps:
        ap_st = stmt_of(cfg, ap)
        same_iter = contains(loop, ap) and block_of(ap_st) is loop.body and block_of(up_st) is loop.body
        if len(ap.args) == 1 and same_value(ctx, gs, ap.args[0], key) and same_iter:
            ctx.ok(rid, gs, ap_st, "the label recorded for the row is the key its sub-circuit is stored under (same value, same iteration)",
                   {"key": norm(key)}, label="label == sub-circuit key")
        elif not same_iter:
            ctx.violation(rid, gs, ap_st, "label and sub-circuit are not recorded once per iteration of the row loop (conditional or misplaced): "
                                          "labels and circuits drift apart", label="label == sub-circuit key")
        else:
            ctx.violation(rid, gs, ap_st, f"the row is labelled `{norm(ap.args[0]) if ap.args else '?'}` but its sub-circuit is stored under "
                                          f"`{norm(key)}`: the returned table maps a result column to another row's parameter values",
                          label="label == sub-circuit key")
    # (b) unique: contains the loop variable
    loopvars = set(target_names(loop.target))
    kr = resolve_local(ctx, gs, key)
    dep = {n.id for n in ast.walk(kr) if isinstance(n, ast.Name) and n.id in loopvars and any(d is loop for d in rd.defs_reaching(n))}
    kst = stmt_of(cfg, kr) or up_st
    if dep:
        ctx.ok(rid, gs, kst, "the key contains the row label, so every row has its own key", {"key": norm(kr)}, label="key is unique per row")
    else:
        ctx.violation(rid, gs, kst, f"the key `{norm(kr)}` does not depend on the row: every row would be stored under the same key and "
                                    f"overwrite the previous one (one circuit is simulated instead of one per row)", label="key is unique per row")
    # (c) + (d) the labels become the index of the iterated table (or of a copy of it), after the loop
    if ia is None:
        ctx.violation(rid, gs, loop, "the parameter table's index is never set to the list of circuit keys: the returned table does not map "
                                     "result labels to parameter values", label="parameter table index")
        labelled = None
    else:
        labelled = ia.targets[0].value
        src = resolve_local(ctx, gs, labelled)
        is_copy = isinstance(src, ast.Call) and ((call_name(src) == "copy" and isinstance(src.func, ast.Attribute) and isinstance(src.func.value, ast.Name)
                                                  and src.func.value.id == loop_table.id)
                                                 or (call_name(src) == "deepcopy" and src.args and isinstance(src.args[0], ast.Name)
                                                     and src.args[0].id == loop_table.id))
        if same_defs(labelled, loop_table) or is_copy:
            ctx.ok(rid, gs, loop, "rows are visited in the order of the table that receives the labels", label="row order")
        else:
            ctx.violation(rid, gs, loop, f"the loop runs over `{norm(it)}` but the labels are assigned to `{labelled.id}.index`: label i would "
                                         f"not belong to row i", label="row order")
        after = not contains(loop, ia) and cfg.dominates(loop, ia)
        fresh = [assigned_value(d, list_name) if not isinstance(d, ast.arguments) else None for d in rd.defs_reaching(ia.value)]
        fresh_ok = len(fresh) == 1 and isinstance(fresh[0], ast.List) and not fresh[0].elts
        if after and fresh_ok:
            ctx.ok(rid, gs, ia, "after the loop the table's index becomes exactly the list of recorded keys", label="parameter table index")
        else:
            ctx.violation(rid, gs, ia, "the table's index is not set, after the row loop, to the freshly built list of keys", label="parameter table index")
    # (e) the labelled table is returned
    rets = [n for n in walk_shallow(gs.node) if isinstance(n, ast.Return)]
    ok_ret = ia is not None and len(rets) == 1 and isinstance(rets[0].value, ast.Tuple) and len(rets[0].value.elts) == 2 \
        and isinstance(rets[0].value.elts[1], ast.Name) and same_defs(rets[0].value.elts[1], labelled) and cfg.dominates(ia, rets[0])
    if ok_ret:
        ctx.ok(rid, gs, rets[0], "the re-indexed parameter table is what grid_search returns", label="returned table")
    else:
        ctx.violation(rid, gs, rets[0] if rets else gs.node, "grid_search does not return the table whose index was set to the result labels",
                      label="returned table")


# --------------------------------------------------------------------------------------------
# R3 — row values reach what the parameter map addresses
# --------------------------------------------------------------------------------------------

def _for_over(ctx, f, name: ast.Name):
    b = binding_loop(ctx, f, name)
    return b


def r3_values_reach_targets(ctx, rid):
    gs = _func(ctx, "grid_search")
    ac = _func(ctx, "adapt_circuit")
    loop, up = _row_loop(ctx, gs, rid)
    rd = ctx.rd(gs)
    acalls = [c for c in _calls(gs, "adapt_circuit") if contains(loop, c)]
    ctx.require(len(acalls) == 1, f"{rid}: expected one adapt_circuit call in the row loop")
    bound = dict(zip(ac.params, acalls[0].args))
    bound.update({k.arg: k.value for k in acalls[0].keywords})
    P = bound.get(ac.params[1])
    ctx.require(isinstance(P, ast.Name), f"{rid}: the row parameters handed to adapt_circuit are not a plain name (unrecognised form)")
    stores = [st for st in walk_shallow(gs.node) if isinstance(st, ast.Assign) and len(st.targets) == 1 and isinstance(st.targets[0], ast.Subscript)
              and isinstance(st.targets[0].value, ast.Name) and st.targets[0].value.id == P.id and contains(loop, st)]
    ctx.require(stores, f"{rid}: nothing is stored into `{P.id}` inside the row loop")
    rowvars = set(target_names(loop.target))
    for st in stores:
        k = st.targets[0].slice
        v = st.value
        col = row = None
        tbl = None
        if isinstance(v, ast.Subscript) and isinstance(v.value, ast.Subscript) and isinstance(v.value.value, ast.Name):
            tbl, col, row = v.value.value, v.value.slice, v.slice            # table[col][row]
        elif isinstance(v, ast.Subscript) and isinstance(v.value, ast.Attribute) and v.value.attr in ("loc", "at") \
                and isinstance(v.value.value, ast.Name) and isinstance(v.slice, ast.Tuple) and len(v.slice.elts) == 2:
            tbl, row, col = v.value.value, v.slice.elts[0], v.slice.elts[1]  # table.loc[row, col]
        if tbl is None:
            raise AnalysisError(f"{rid}: `{norm(st)}` does not read `<table>[<key>][<row>]` (unrecognised form)")
        table_ok = isinstance(loop.iter, ast.Attribute) and isinstance(loop.iter.value, ast.Name) and loop.iter.value.id == tbl.id
        col_ok = same_value(ctx, gs, col, k)
        row_ok = isinstance(row, ast.Name) and row.id in rowvars and any(d is loop for d in rd.defs_reaching(row))
        if table_ok and col_ok and row_ok:
            ctx.ok(rid, gs, st, "the row's parameter dict gets, under each key, the table value of that key in that row", label="row values")
        else:
            ctx.violation(rid, gs, st, f"`{norm(st)}` does not store the value of column `{norm(k)}` in the current row "
                                       f"(column matches: {col_ok}, row is the loop's row label: {row_ok}, same table: {table_ok}): the row would "
                                       f"be simulated with another row's or another parameter's value", label="row values")

    # ---- adapt_circuit
    rda = ctx.rd(ac)
    p_params, p_map = ac.params[1], ac.params[2]
    outer = [st for st in ac.node.body if isinstance(st, ast.For)]
    ctx.require(len(outer) == 1, f"{rid}: adapt_circuit no longer has one top-level loop over the parameters")
    oloop = outer[0]
    it = oloop.iter
    base = it.func.value if isinstance(it, ast.Call) and call_name(it) in ("keys", "items") and isinstance(it.func, ast.Attribute) else it
    ctx.require(_unmodified_param(ctx, ac, base, p_params), f"{rid}: adapt_circuit's loop iterates `{norm(it)}`, not the parameter dict (unrecognised form)")
    if isinstance(oloop.target, ast.Name):
        keyname = oloop.target.id
    elif isinstance(oloop.target, ast.Tuple) and isinstance(oloop.target.elts[0], ast.Name) and call_name(it) == "items":
        keyname = oloop.target.elts[0].id
    else:
        raise AnalysisError(f"{rid}: unrecognised target of adapt_circuit's parameter loop: {norm(oloop)}")

    def is_key(e):
        return isinstance(e, ast.Name) and e.id == keyname and any(d is oloop for d in rda.defs_reaching(e)) and len(rda.defs_reaching(e)) == 1

    def is_val(e):
        """the value of params[key] for the loop's key"""
        if not isinstance(e, ast.Name):
            return False
        if isinstance(oloop.target, ast.Tuple) and e.id in target_names(oloop.target.elts[1]):
            return any(d is oloop for d in rda.defs_reaching(e))
        r = resolve_local(ctx, ac, e)
        return isinstance(r, ast.Subscript) and _unmodified_param(ctx, ac, r.value, p_params) and is_key(r.slice)

    map_subs = [s for s in walk_shallow(ac.node) if isinstance(s, ast.Subscript) and isinstance(s.value, ast.Name) and s.value.id == p_map
                and contains(oloop, s)]
    ctx.require(map_subs, f"{rid}: adapt_circuit never reads the parameter map inside its loop")
    bad = [s for s in map_subs if not is_key(s.slice)]
    if bad:
        ctx.violation(rid, ac, stmt_of(ctx.cfg(ac), bad[0]), f"`{norm(bad[0])}` reads the parameter map under another key than the one whose value "
                                                             f"is applied: a value would be written to another parameter's targets", label="map entry of the same key")
    else:
        ctx.ok(rid, ac, oloop, f"all {len(map_subs)} reads of the parameter map use the key whose value is applied", label="map entry of the same key")

    def from_map_list(e, field):
        """e is a loop variable over param_map[key][field] (directly or through a local alias)."""
        if not isinstance(e, ast.Name):
            return None
        b = binding_loop(ctx, ac, e)
        if b is None:
            return None
        src = resolve_local(ctx, ac, b[1])
        ok = isinstance(src, ast.Subscript) and isinstance(src.slice, ast.Constant) and src.slice.value == field \
            and isinstance(src.value, ast.Subscript) and isinstance(src.value.value, ast.Name) and src.value.value.id == p_map and is_key(src.value.slice)
        return b if ok else None

    # node records
    uv = _calls(ac, "update_var")
    ctx.require(len(uv) == 1, f"{rid}: expected one update_var call in adapt_circuit")
    ukw = {k.arg: k.value for k in uv[0].keywords}
    ctx.require("node_vars" in ukw and "edge_vars" in ukw and isinstance(ukw["node_vars"], ast.Name) and isinstance(ukw["edge_vars"], ast.Name),
                f"{rid}: `{norm(uv[0])}` does not pass node_vars= and edge_vars= by name (unrecognised form)")
    nname, ename = ukw["node_vars"].id, ukw["edge_vars"].id
    nstores = [st for st in walk_shallow(ac.node) if isinstance(st, ast.Assign) and len(st.targets) == 1 and isinstance(st.targets[0], ast.Subscript)
               and isinstance(st.targets[0].value, ast.Name) and st.targets[0].value.id == nname]
    ctx.require(nstores, f"{rid}: adapt_circuit never fills `{nname}`")
    for st in nstores:
        k = st.targets[0].slice
        good = isinstance(k, ast.JoinedStr) and fstring_template(k) is not None and re.fullmatch(r"⟨[^⟩]*⟩/⟨[^⟩]*⟩", fstring_template(k)) is not None
        if good:
            h = [v.value for v in k.values if isinstance(v, ast.FormattedValue)]
            good = from_map_list(h[0], "nodes") is not None and from_map_list(h[1], "vars") is not None and is_val(st.value)
        if good:
            ctx.ok(rid, ac, st, "a node record is `<node>/<var>` of the key's own node and variable lists and carries the key's value",
                   label=f"node record {norm(st)}")
        else:
            ctx.violation(rid, ac, st, f"`{norm(st)}` is not `<node of map[key]['nodes']>/<var of map[key]['vars']>` = params[key]: the value "
                                       f"would reach another variable than the parameter map names", label=f"node record {norm(st)}")
    # edge records
    eapps = [c for c in _calls(ac, "append") if isinstance(c.func.value, ast.Name) and c.func.value.id == ename]
    ctx.require(eapps, f"{rid}: adapt_circuit never fills `{ename}`")
    carries_idx = False
    for no, ap in enumerate(eapps, 1):
        rec = ap.args[0] if ap.args else None
        if not (isinstance(rec, ast.Tuple) and len(rec.elts) in (3, 4)):
            raise AnalysisError(f"{rid}: edge record `{norm(ap)}` is not a 3- or 4-tuple (unrecognised form)")
        ap_st = stmt_of(ctx.cfg(ac), ap)
        why = []
        # source / target = elements 0 / 1 of one get_edge result
        ge = None
        for i in (0, 1):
            e = rec.elts[i]
            if isinstance(e, ast.Subscript) and isinstance(e.slice, ast.Constant) and e.slice.value == i and isinstance(e.value, ast.Name):
                g = resolve_local(ctx, ac, e.value)
                if isinstance(g, ast.Call) and call_name(g) == "get_edge" and (ge is None or ge is g):
                    ge = g
                    continue
            why.append(f"element {i} is `{norm(e)}`, not element {i} of the edge that get_edge resolved")
        d = rec.elts[2]
        if not (isinstance(d, ast.Dict) and len(d.keys) == 1 and d.keys[0] is not None and from_map_list(d.keys[0], "vars") is not None
                and is_val(d.values[0])):
            why.append(f"the attribute update `{norm(d)}` is not {{<var of map[key]['vars']>: params[key]}}")
        variable_idx = False
        if ge is not None:
            gkw = dict(zip(("source", "target", "idx"), ge.args))
            gkw.update({k.arg: k.value for k in ge.keywords})
            roles = {}
            eloop = None
            for role, pos in (("source", 0), ("target", 1), ("idx", 2)):
                a = gkw.get(role)
                if a is None or (role == "idx" and isinstance(a, ast.Constant) and a.value in (0, None)):
                    continue
                b = binding_loop(ctx, ac, a) if isinstance(a, ast.Name) else None
                if b is None or position_in_target(b[0], a.id) != pos or (eloop is not None and b[2] is not eloop):
                    why.append(f"get_edge's `{role}` is `{norm(a)}`, not element {pos} of the map's edge entry this record is built for")
                else:
                    eloop = b[2]
                    roles[role] = a
            if "source" not in roles or "target" not in roles:
                if not why:
                    why.append("get_edge is not called with the source and target of the map's edge entry")
            elif eloop is not None:
                src = resolve_local(ctx, ac, eloop.iter)
                if not (isinstance(src, ast.Subscript) and isinstance(src.slice, ast.Constant) and src.slice.value == "edges"
                        and isinstance(src.value, ast.Subscript) and is_key(src.value.slice)):
                    why.append(f"the edge entries iterate `{norm(eloop.iter)}`, not map[key]['edges']")
            if "idx" in roles:
                variable_idx = True
                if len(rec.elts) == 4 and same_value(ctx, ac, rec.elts[3], roles["idx"]):
                    carries_idx = True
                else:
                    ctx.violation(rid, ac, ap_st,
                                  f"the edge is resolved with idx=`{norm(roles['idx'])}` but the record handed to update_var is `{norm(rec)}` and "
                                  f"does not carry that index: update_var re-resolves (source, target) with its default index 0, so a sweep over "
                                  f"the idx-th parallel edge silently changes edge 0 instead", label="edge address idx reaches update_var")
                    continue
            elif len(rec.elts) == 4 and not (isinstance(rec.elts[3], ast.Constant) and rec.elts[3].value in (0, None)):
                why.append(f"the record carries index `{norm(rec.elts[3])}` although the edge was resolved with index 0")
        label = "edge address idx reaches update_var" if variable_idx else f"edge record {no} (index 0)"
        if why:
            ctx.violation(rid, ac, ap_st, "edge update record is wrong: " + "; ".join(why), label=label)
        else:
            ctx.ok(rid, ac, ap_st, "the record is (source, target) of the edge resolved for one map entry, {var: value of the key}"
                                   + (" and the entry's idx" if variable_idx else ""), {"record": norm(rec)}, label=label)
    # update_var receives both collections
    fresh_ok = True
    for nm, kind in ((ukw["node_vars"], ast.Dict), (ukw["edge_vars"], ast.List)):
        vals = [assigned_value(d, nm.id) for d in rda.defs_reaching(nm)]
        fresh_ok = fresh_ok and len(vals) == 1 and isinstance(vals[0], kind)
    if fresh_ok:
        ctx.ok(rid, ac, uv[0], "update_var receives the node records and the edge records built above", label="records handed to update_var",
               nontrivial=False)
    else:
        ctx.violation(rid, ac, uv[0], "update_var does not receive the freshly built node/edge records", label="records handed to update_var")

    # ---- consumer: CircuitTemplate.update_var edge loop
    upd = ctx.repo.get_func(CIRC, "CircuitTemplate.update_var")
    ep = "edge_vars"
    ctx.require(ep in upd.params, f"{rid}: CircuitTemplate.update_var lost its edge_vars parameter")
    eloops = [st for st in walk_shallow(upd.node) if isinstance(st, ast.For) and isinstance(st.iter, ast.Name) and st.iter.id == ep]
    ctx.require(len(eloops) == 1 and isinstance(eloops[0].target, ast.Tuple) and len(eloops[0].target.elts) >= 3,
                f"{rid}: update_var's loop over edge_vars has an unrecognised form")
    el = eloops[0]
    telts = el.target.elts
    rdu = ctx.rd(upd)

    def rec_pos(e):
        """which element of the record does expression e denote?  0,1,2 direct; 3 = the optional index"""
        if isinstance(e, ast.Name):
            for i, t in enumerate(telts):
                if isinstance(t, ast.Name) and t.id == e.id and any(d is el for d in rdu.defs_reaching(e)) and len(rdu.defs_reaching(e)) == 1:
                    return i
            r = resolve_local(ctx, upd, e)
            if r is not e:
                return rec_pos(r)
        if isinstance(e, ast.IfExp) and isinstance(e.orelse, ast.Constant) and e.orelse.value in (0, None) and isinstance(e.test, ast.Name):
            b = e.body
            if isinstance(b, ast.Subscript) and isinstance(b.slice, ast.Constant) and b.slice.value == 0 and isinstance(b.value, ast.Name) \
                    and b.value.id == e.test.id and len(telts) == 4 and isinstance(telts[3], ast.Starred) \
                    and isinstance(telts[3].value, ast.Name) and telts[3].value.id == b.value.id:
                return 3
        return None
    ges = [c for c in _calls(upd, "get_edge") if contains(el, c)]
    ctx.require(len(ges) == 1, f"{rid}: expected one get_edge call in update_var's edge loop, found {len(ges)}")
    g = ges[0]
    gkw = dict(zip(("source", "target", "idx"), g.args))
    gkw.update({k.arg: k.value for k in g.keywords})
    st_ok = rec_pos(gkw.get("source")) == 0 and rec_pos(gkw.get("target")) == 1
    idx_ok = "idx" in gkw and rec_pos(gkw["idx"]) == 3
    if st_ok and idx_ok:
        ctx.ok(rid, upd, g, "update_var resolves the edge with the record's source, target and index", label="update_var: get_edge uses the record's idx")
    elif not st_ok:
        ctx.violation(rid, upd, g, f"`{norm(g)}` does not resolve the edge by the record's (source, target)", label="update_var: get_edge uses the record's idx")
    else:
        ctx.violation(rid, upd, g, f"`{norm(g)}` ignores the index of the edge record (default index 0): parameter updates addressed to the "
                                   f"idx-th parallel edge between two variables change edge 0 instead"
                                   + ("" if carries_idx else " (and adapt_circuit does not pass the index on)"),
                      label="update_var: get_edge uses the record's idx")
    for st in walk_shallow(upd.node):
        if isinstance(st, ast.Assign) and contains(el, st) and len(st.targets) == 1 and isinstance(st.targets[0], ast.Subscript) \
                and isinstance(st.targets[0].value, ast.Attribute) and st.targets[0].value.attr == "_edge_map":
            k = st.targets[0].slice
            if isinstance(k, ast.Tuple) and len(k.elts) == 3 and rec_pos(k.elts[0]) == 0 and rec_pos(k.elts[1]) == 1 and rec_pos(k.elts[2]) == 3:
                ctx.ok(rid, upd, st, "the updated edge is re-registered under the (source, target, idx) it was resolved with",
                       label="update_var: edge map key")
            else:
                ctx.violation(rid, upd, st, f"the updated edge is re-registered under `{norm(k)}`, not under the (source, target, idx) it was "
                                            f"resolved with: the edge map and the edge list disagree afterwards", label="update_var: edge map key")


# --------------------------------------------------------------------------------------------
# R4 — re-addressing of inputs/outputs and the run call
# --------------------------------------------------------------------------------------------

def r4_all_prefix_and_run(ctx, rid):
    gs = _func(ctx, "grid_search")
    rd = ctx.rd(gs)
    run = _the_run_call(ctx, gs, rid)
    kw = {k.arg: k.value for k in run.keywords}
    for role in ("outputs", "inputs"):
        ctx.require(role in kw and isinstance(kw[role], ast.Name), f"{rid}: run() does not receive {role}= by name (unrecognised form)")
        nm = kw[role]
        stores = [(st, st.targets[0].slice, st.value) for st in ordered(walk_shallow(gs.node))
                  if isinstance(st, ast.Assign) and len(st.targets) == 1 and isinstance(st.targets[0], ast.Subscript)
                  and isinstance(st.targets[0].value, ast.Name) and st.targets[0].value.id == nm.id]
        for d in rd.defs_reaching(nm):
            dv = assigned_value(d, nm.id) if not isinstance(d, ast.arguments) else None
            if isinstance(dv, ast.DictComp):
                stores.append((d, dv.key, dv.value))
        if not stores:
            ctx.violation(rid, gs, run, f"the {role} handed to run() are never re-addressed to the sub-circuits (`all/<path>`): a path of the "
                                        f"single circuit does not exist in the combined circuit", label=f"{role}: all/ prefix")
            continue
        for st, k, v in stores:
            path = v if role == "outputs" else k
            other = k if role == "outputs" else v
            good = isinstance(path, ast.JoinedStr) and fstring_template(path) is not None \
                and re.fullmatch(r"all/⟨[^⟩]*⟩", fstring_template(path)) is not None
            why = "" if good else f"`{norm(path)}` is not `all/<original path>`"
            if good:
                hole = [x.value for x in path.values if isinstance(x, ast.FormattedValue)][0]
                hb = binding_loop(ctx, gs, hole) if isinstance(hole, ast.Name) else None
                ob = binding_loop(ctx, gs, other) if isinstance(other, ast.Name) else None
                src_ok = False
                if hb is not None and ob is not None and hb[2] is ob[2] and isinstance(hb[1], ast.Call) and call_name(hb[1]) == "items":
                    want_hole, want_other = (1, 0) if role == "outputs" else (0, 1)
                    recv = hb[1].func.value
                    if isinstance(recv, ast.Call) and call_name(recv) == "copy":
                        recv = recv.func.value
                    orig = role if role in gs.params else None
                    src_ok = position_in_target(hb[0], hole.id) == want_hole and position_in_target(ob[0], other.id) == want_other \
                        and isinstance(recv, ast.Name) and recv.id == orig
                    if role == "inputs" and src_ok:
                        # iterating while storing into the same dict requires a copy
                        src_ok = isinstance(hb[1].func.value, ast.Call) and call_name(hb[1].func.value) == "copy"
                        why = "" if src_ok else "the dict is modified while it is iterated (no copy)"
                if not src_ok:
                    good = False
                    why = why or (f"key and path do not come from one `{role}.items()` pair of the caller's {role}")
            if good:
                ctx.ok(rid, gs, st, f"every requested {role[:-1]} is re-addressed to all sub-circuits under "
                                    f"{'its own key' if role == 'outputs' else 'its own array'}", {"path": norm(path)}, label=f"{role}: all/ prefix")
            else:
                ctx.violation(rid, gs, st, f"{role} are not re-addressed as `all/<path>` of the same entry: {why}: only some grid rows would be "
                                           f"{'recorded' if role == 'outputs' else 'driven'} or the entry would be mixed up", label=f"{role}: all/ prefix")
    for p in ("simulation_time", "step_size", "sampling_step_size"):
        if p in kw and _unmodified_param(ctx, gs, kw[p], p):
            ctx.ok(rid, gs, run, f"run() receives the caller's {p} unchanged", label=f"run argument {p}", nontrivial=False)
        else:
            ctx.violation(rid, gs, run, f"run() does not receive the caller's `{p}` unchanged (`{norm(kw[p]) if p in kw else 'missing'}`): the sweep "
                                        f"would be integrated differently from an individual run", label=f"run argument {p}")
    rets = [n for n in walk_shallow(gs.node) if isinstance(n, ast.Return)]
    run_st = stmt_of(ctx.cfg(gs), run)
    good = len(rets) == 1 and isinstance(rets[0].value, ast.Tuple) and rets[0].value.elts and isinstance(rets[0].value.elts[0], ast.Name) \
        and isinstance(run_st, ast.Assign) and run_st.value is run and [d for d in rd.defs_reaching(rets[0].value.elts[0])] == [run_st]
    if good:
        ctx.ok(rid, gs, rets[0], "the DataFrame returned by run() is returned unchanged", label="returned results", nontrivial=False)
    else:
        ctx.violation(rid, gs, rets[0] if rets else gs.node, "grid_search does not return the result of the combined run unchanged", label="returned results")


# --------------------------------------------------------------------------------------------
# R5 — linearize_grid keeps values and keys together
# --------------------------------------------------------------------------------------------

def r5_linearize_grid(ctx, rid):
    lg = _func(ctx, "linearize_grid")
    gs = _func(ctx, "grid_search")
    p_grid = lg.params[0]
    frames = _calls(lg, "DataFrame")
    ctx.require(len(frames) == 2, f"{rid}: expected two DataFrame(...) returns in linearize_grid, found {len(frames)}")
    plain = [c for c in frames if len(c.args) == 1 and not c.keywords]
    perm = [c for c in frames if c not in plain]
    ctx.require(len(plain) == 1 and len(perm) == 1, f"{rid}: unrecognised forms of the DataFrame calls in linearize_grid")
    if _unmodified_param(ctx, lg, plain[0].args[0], p_grid):
        ctx.ok(rid, lg, plain[0], "equal-length grids become a DataFrame of the grid itself (row i = i-th value of every key)",
               label="pairwise grid", nontrivial=False)
    else:
        ctx.violation(rid, lg, plain[0], f"the pairwise grid is built from `{norm(plain[0].args[0])}`, not from the caller's grid", label="pairwise grid")
    pc = perm[0]
    kw = {k.arg: k.value for k in pc.keywords}
    data = pc.args[0] if pc.args else kw.get("data")
    cols = kw.get("columns") or (pc.args[2] if len(pc.args) > 2 else None)
    ctx.require(data is not None and isinstance(cols, ast.Name), f"{rid}: `{norm(pc)}` lacks data or columns=<name> (unrecognised form)")
    # lock-step appends
    def appends(nm):
        return [c for c in _calls(lg, "append") if isinstance(c.func.value, ast.Name) and c.func.value.id == nm and len(c.args) == 1]
    kapps = appends(cols.id)
    ctx.require(len(kapps) == 1, f"{rid}: expected one append to `{cols.id}` in linearize_grid")
    kb = binding_loop(ctx, lg, kapps[0].args[0]) if isinstance(kapps[0].args[0], ast.Name) else None
    ctx.require(kb is not None and isinstance(kb[1], ast.Call) and call_name(kb[1]) == "items"
                and _unmodified_param(ctx, lg, kb[1].func.value, p_grid) and position_in_target(kb[0], kapps[0].args[0].id) == 0,
                f"{rid}: the column keys are not the keys of `for key, val in {p_grid}.items()` (unrecognised form)")
    # the values list: the name behind meshgrid(*...)
    d = resolve_local(ctx, lg, data)
    form = None
    if isinstance(d, ast.Call) and call_name(d) == "reshape" and isinstance(d.func, ast.Attribute) and isinstance(d.func.value, ast.Call) \
            and call_name(d.func.value) == "stack":
        stack = d.func.value
        mg = stack.args[0] if stack.args else None
        if isinstance(mg, ast.Call) and call_name(mg) == "meshgrid" and len(mg.args) == 1 and isinstance(mg.args[0], ast.Starred):
            inner = mg.args[0].value
            if isinstance(inner, ast.Call) and call_name(inner) in ("tuple", "list") and len(inner.args) == 1:
                inner = inner.args[0]
            if isinstance(inner, ast.Name):
                form = (stack, mg, inner, d)
    if form is None:
        raise AnalysisError(f"{rid}: the permuted grid `{norm(d)}` is not np.stack(np.meshgrid(*values), axis).reshape(-1, n) (unrecognised form)")
    stack, mg, vals, resh = form
    vapps = appends(vals.id)
    ctx.require(len(vapps) == 1, f"{rid}: expected one append to `{vals.id}` in linearize_grid")
    vb = binding_loop(ctx, lg, vapps[0].args[0]) if isinstance(vapps[0].args[0], ast.Name) else None
    cfg = ctx.cfg(lg)
    ks, vs = stmt_of(cfg, kapps[0]), stmt_of(cfg, vapps[0])
    if vb is not None and vb[2] is kb[2] and position_in_target(vb[0], vapps[0].args[0].id) == 1 and block_of(ks) is block_of(vs) \
            and block_of(ks) is kb[2].body:
        ctx.ok(rid, lg, vs, "value list j and key j come from the same grid entry (appended in lock-step)", label="values/keys lock-step")
    else:
        ctx.violation(rid, lg, vs, "the value lists and the column keys are not appended from the same grid entry in the same iteration: a "
                                   "column of the permuted grid would be labelled with another parameter's key", label="values/keys lock-step")
    skw = {k.arg: k.value for k in stack.keywords}
    axis = stack.args[1] if len(stack.args) > 1 else skw.get("axis")
    n_expr = resh.args[1] if len(resh.args) == 2 else (resh.args[0].elts[1] if len(resh.args) == 1 and isinstance(resh.args[0], ast.Tuple)
                                                        and len(resh.args[0].elts) == 2 else None)
    first = resh.args[0] if len(resh.args) == 2 else (resh.args[0].elts[0] if n_expr is not None else None)
    axis_ok = axis is not None and ast.unparse(axis) == "-1"
    n_ok = n_expr is not None and ast.unparse(n_expr) in (f"len({p_grid})", f"len({cols.id})", f"len({vals.id})") and first is not None \
        and ast.unparse(first) == "-1"
    if axis_ok and n_ok:
        ctx.ok(rid, lg, stmt_of(cfg, resh), "the mesh is stacked along the last axis and flattened to rows of n values: column j holds values of key j",
               {"grid": norm(resh)}, label="permuted grid layout")
    else:
        ctx.violation(rid, lg, stmt_of(cfg, resh), f"the permuted grid `{norm(resh)}` is not stack(meshgrid(*values), -1).reshape(-1, n) "
                                                   f"(axis is -1: {axis_ok}; reshape to (-1, n): {n_ok}): the rows would not be parameter combinations with "
                                                   f"column j belonging to key j", label="permuted grid layout")
    # grid_search linearises the caller's grid with the caller's flag
    lcs = _calls(gs, "linearize_grid")
    ctx.require(len(lcs) == 1, f"{rid}: expected one linearize_grid call in grid_search")
    b = dict(zip(lg.params, lcs[0].args))
    b.update({k.arg: k.value for k in lcs[0].keywords})
    st = stmt_of(ctx.cfg(gs), lcs[0])
    good = _unmodified_param(ctx, gs, b.get(lg.params[0]), "param_grid") and _unmodified_param(ctx, gs, b.get(lg.params[1]), "permute_grid") \
        and isinstance(st, ast.Assign) and isinstance(st.targets[0], ast.Name) and st.targets[0].id == "param_grid"
    if good:
        ctx.ok(rid, gs, st, "grid_search linearises the caller's grid with the caller's permute flag", label="grid_search linearises", nontrivial=False)
    else:
        ctx.violation(rid, gs, st, "grid_search does not linearise the caller's grid with the caller's permute flag", label="grid_search linearises")


def r6_edge_update_selects_one_edge(ctx, rid):
    """grid_search -> adapt_circuit -> CircuitTemplate.update_var(edge_vars): the sweep value must reach exactly the addressed
    parallel edge (same rule as C07-R4: selection by identity, not by value)."""
    from .c07 import r4_edge_update_replaces_exactly_one_edge
    r4_edge_update_replaces_exactly_one_edge(ctx, rid)


RULES = [
    ("C17-R1", r1_private_copy_uncoupled, 5),
    ("C17-R2", r2_one_key_per_row, 4),
    ("C17-R3", r3_values_reach_targets, 7),
    ("C17-R4", r4_all_prefix_and_run, 6),
    ("C17-R5", r5_linearize_grid, 4),
    ("C17-R6", r6_edge_update_selects_one_edge, 1),
]
