"""C19 — DDEHistory returns the piecewise-linear interpolant of what it was given (DESIGN §4 C19)."""
from __future__ import annotations

import ast

import sympy as sp

from engine import AnalysisError
from engine.srcmodel import walk_shallow, norm, parent, dotted
from engine.util import (is_attr_of, enumerate_paths, get_method, header_nodes, stmt_calls, call_name,
                         single_def_value, contains)
from engine.cfg import stmt_of
from engine.dataflow import assigned_value
from engine import symx

PROPERTY = "C19"
REL = "pyrates/backend/base/base_backend.py"
CLS = "DDEHistory"

EXPLANATION = (
    "Decides structural necessary conditions of C19 on class DDEHistory (pyrates/backend/base/base_backend.py): "
    "R1 the caller's arrays never escape into the object by reference (only element stores into a buffer this class "
    "allocated); R2 on every non-raising path of update() the time list, the row buffer and the row counter advance "
    "exactly once and in a consistent order; R3 the row store is dominated by the capacity test and the full+bounded "
    "branch can only raise, the full+growable branch passes _grow(); R4 _grow() enlarges by an integer factor >= 2, "
    "copies the valid rows before re-binding and keeps dtype/trailing shape; R5 __call__ clamps with the recorded first/"
    "last time and otherwise returns an expression that normalises (sympy, exact) to y[i]+(t-t_i)/(t_{i+1}-t_i)*(y[i+1]-y[i]) "
    "with i = bisect_right(times, t) - 1.  NOT decided: floating-point equality at t = t_i, behaviour for non-increasing "
    "update times, numpy's copy semantics of element assignment (trusted)."
)
RULE_TEXT = ("one obligation per (rule, construct): paths of update() enumerated exhaustively (acyclic CFG); escape analysis "
             "over every load of the data parameters; algebraic normal form of the interpolation return. Non-trivial = needed a "
             "path, dominance, escape or algebra argument (not a mere presence test).")
ASSUMPTIONS = ["numpy element/slice assignment `buf[i] = y` copies the values of y into buf (library semantics).",
               "bisect.bisect_right has its documented meaning."]

ALLOC = {"empty", "zeros", "ones", "full", "empty_like", "zeros_like"}


def _cls(ctx):
    return ctx.repo.get_class(REL, CLS)


def _is_alloc(e):
    return isinstance(e, ast.Call) and call_name(e) in ALLOC


def r1_records_are_copies(ctx, rid):
    cls = _cls(ctx)
    data_params = {"__init__": "y0", "update": "y"}
    for mname, p in data_params.items():
        f = get_method(ctx, cls, mname)
        ctx.require(p in f.params, f"{rid}: parameter {p} of DDEHistory.{mname} vanished")
        selfn = f.self_name
        for n in walk_shallow(f.node):
            if not (isinstance(n, ast.Name) and n.id == p and isinstance(n.ctx, ast.Load)):
                continue
            par = parent(n)
            st = stmt_of(ctx.cfg(f), n)
            # (a) element store into self._y
            if isinstance(st, ast.Assign) and st.value is n and len(st.targets) == 1 \
                    and isinstance(st.targets[0], ast.Subscript) and is_attr_of(st.targets[0].value, selfn, "_y"):
                ctx.ok(rid, f, st, f"`{p}` is copied into the row buffer by element assignment")
                continue
            # (b) metadata reads
            if isinstance(par, ast.Attribute) and par.attr in ("shape", "dtype", "ndim", "size"):
                ctx.ok(rid, f, st, f"only metadata `.{par.attr}` of `{p}` is read", nontrivial=False)
                continue
            # (c) re-binding the parameter itself through asarray / float
            if isinstance(par, ast.Call) and call_name(par) in ("asarray", "float", "array", "ascontiguousarray") \
                    and isinstance(st, ast.Assign) and st.value is par and len(st.targets) == 1 \
                    and isinstance(st.targets[0], ast.Name) and st.targets[0].id == p:
                ctx.ok(rid, f, st, f"`{p}` is re-bound to itself (no escape)", nontrivial=False)
                continue
            ctx.violation(rid, f, st, f"the caller's array `{p}` escapes by reference: used outside an element store into "
                                     f"self._y (a later mutation by the caller would alter the stored record)")
    # every store to self._y binds a buffer allocated here
    n_stores = 0
    for mname, f in cls.methods.items():
        selfn = f.self_name
        for st in walk_shallow(f.node):
            if isinstance(st, ast.Assign) and any(is_attr_of(t, selfn, "_y") for t in st.targets):
                n_stores += 1
                v = st.value
                okv = _is_alloc(v)
                if isinstance(v, ast.Name):
                    defs = ctx.rd(f).defs_reaching(v)
                    vals = [assigned_value(d, v.id) for d in defs]
                    okv = bool(vals) and all(x is not None and _is_alloc(x) for x in vals)
                if okv:
                    ctx.ok(rid, f, st, "self._y is bound to an array allocated inside this class")
                else:
                    ctx.violation(rid, f, st, "self._y is bound to a value that is not a fresh allocation of this class "
                                             "(records could alias caller data)")
    ctx.require(n_stores >= 2, f"{rid}: expected stores to self._y in __init__ and _grow, found {n_stores}")


def _classify_update_stmt(st, selfn):
    if isinstance(st, ast.Expr) and isinstance(st.value, ast.Call) and isinstance(st.value.func, ast.Attribute) \
            and st.value.func.attr == "append" and is_attr_of(st.value.func.value, selfn, "_t"):
        return "t"
    if isinstance(st, ast.Assign) and len(st.targets) == 1 and isinstance(st.targets[0], ast.Subscript) \
            and is_attr_of(st.targets[0].value, selfn, "_y"):
        return "y"
    if isinstance(st, ast.AugAssign) and is_attr_of(st.target, selfn, "_n"):
        return "n"
    if isinstance(st, ast.Assign) and any(is_attr_of(t, selfn, "_n") for t in st.targets):
        return "n="
    return None


def r2_state_advances_together(ctx, rid):
    f = get_method(ctx, _cls(ctx), "update")
    selfn = f.self_name
    cfg = ctx.cfg(f)
    paths = enumerate_paths(cfg)
    normal = [p for p in paths if p[-1] is cfg.EXIT]
    ctx.require(normal, f"{rid}: update() has no normal path")
    for p in normal:
        seq = [(_classify_update_stmt(s, selfn), s) for s in p if isinstance(s, ast.stmt)]
        seq = [(k, s) for k, s in seq if k]
        kinds = [k for k, _ in seq]
        label = "path " + cfg.path_str(p)
        facts = {"path": cfg.path_str(p), "events": kinds}
        if sorted(kinds) != ["n", "t", "y"]:
            ctx.violation(rid, f, f.node, f"a non-raising path of update() does not perform exactly one time append, one row "
                                          f"store and one counter increment (events: {kinds})", facts, label=label)
            continue
        ystore = [s for k, s in seq if k == "y"][0]
        ninc = [s for k, s in seq if k == "n"][0]
        sub = ystore.targets[0].slice
        uses_n = is_attr_of(sub, selfn, "_n")
        inc_ok = isinstance(ninc.op, ast.Add) and isinstance(ninc.value, ast.Constant) and ninc.value.value == 1
        if not uses_n:
            ctx.violation(rid, f, ystore, "the row store does not use the row counter self._n as its index", facts, label=label + " store")
        elif kinds.index("y") > kinds.index("n"):
            ctx.violation(rid, f, ystore, "the row is stored after the counter was incremented (skips a row / writes past the valid range)", facts, label=label + " order")
        elif not inc_ok:
            ctx.violation(rid, f, ninc, "the row counter is not advanced by exactly one per record", facts, label=label + " inc")
        else:
            ctx.ok(rid, f, f.node, "one append, one store at the pre-increment counter, one increment", facts, label=label)


def _capacity_test(st, selfn):
    """`if self._n >= len(self._y)` (also ==, >, .shape[0])."""
    if not isinstance(st, ast.If) or not isinstance(st.test, ast.Compare) or len(st.test.ops) != 1:
        return False
    l, op, r = st.test.left, st.test.ops[0], st.test.comparators[0]

    def is_cap(e):
        if isinstance(e, ast.Call) and call_name(e) == "len" and e.args and is_attr_of(e.args[0], selfn, "_y"):
            return True
        if isinstance(e, ast.Subscript) and isinstance(e.value, ast.Attribute) and e.value.attr == "shape" \
                and is_attr_of(e.value.value, selfn, "_y"):
            return True
        return False
    if is_attr_of(l, selfn, "_n") and is_cap(r) and isinstance(op, (ast.GtE, ast.Eq)):
        return True
    if is_cap(l) and is_attr_of(r, selfn, "_n") and isinstance(op, (ast.LtE, ast.Eq)):
        return True
    return False


def r3_bounded_history_refuses(ctx, rid):
    f = get_method(ctx, _cls(ctx), "update")
    selfn = f.self_name
    cfg = ctx.cfg(f)
    stores = [s for s in cfg.stmts() if _classify_update_stmt(s, selfn) == "y"]
    ctx.require(stores, f"{rid}: no row store found in update()")
    tests = [s for s in cfg.stmts() if _capacity_test(s, selfn)]
    any_test_form = [s for s in cfg.stmts() if isinstance(s, ast.If) and any(is_attr_of(n, selfn, "_n") for n in ast.walk(s.test))]
    if not tests and any_test_form:
        raise AnalysisError(f"{rid}: capacity test in update() has an unrecognised form: {norm(any_test_form[0])}")

    def is_grow(n):
        return isinstance(n, ast.stmt) and any(isinstance(c.func, ast.Attribute) and c.func.attr == "_grow"
                                               and isinstance(c.func.value, ast.Name) and c.func.value.id == selfn
                                               for c in stmt_calls(n)) and not isinstance(n, (ast.If, ast.While))
    for store in stores:
        dom = [t for t in tests if cfg.dominates(t, store)]
        if not dom:
            ctx.violation(rid, f, store, "the row store is not dominated by a test of the counter against the buffer capacity "
                                        "(a full buffer would be overwritten or indexed out of range)")
            continue
        t = dom[0]
        # every path from the true branch to the store passes _grow(); paths that avoid it must end in RAISE
        bad = None
        for s in cfg.successors(t, "true"):
            if is_grow(s):
                continue
            if s is store:
                bad = [t, s]
                break
            p = cfg.reachable_avoiding(s, store, is_grow)
            if p is not None:
                bad = [t] + p
                break
        facts = {"capacity_test": norm(t), "dominators": [norm(d) for d in cfg.dominators(store) if isinstance(d, ast.stmt)]}
        if bad:
            facts["witness"] = cfg.path_str(bad)
            ctx.violation(rid, f, store, "on the buffer-full branch a path reaches the row store without growing the buffer and "
                                        "without raising (a bounded history would overwrite/overflow instead of refusing)", facts)
        else:
            # the non-growable sub-branch must raise: there must exist a raise in the true-branch
            raises = [n for n in cfg.stmts() if isinstance(n, ast.Raise) and contains(t, n) and any(contains(b, n) for b in t.body)]
            if not raises:
                ctx.violation(rid, f, t, "the buffer-full branch contains no raise: a history with max_steps cannot refuse", facts)
            else:
                ctx.ok(rid, f, store, "store dominated by the capacity test; full branch reaches the store only via _grow(), else raises", facts)
    # _growable must be what separates grow from raise
    grow_calls = [s for s in cfg.stmts() if is_grow(s)]
    ctx.require(grow_calls, f"{rid}: no call of self._grow() in update()")
    for g in grow_calls:
        guards = [d for d in cfg.dominators(g) if isinstance(d, ast.If) and any(is_attr_of(n, selfn, "_growable") for n in ast.walk(d.test))]
        if guards:
            ctx.ok(rid, f, g, "growth happens only under the _growable flag", {"guard": norm(guards[0])})
        else:
            ctx.violation(rid, f, g, "self._grow() is not guarded by the _growable flag: a history bounded by max_steps would grow "
                                    "or the bounded case is indistinguishable")
    # the flag is False exactly when max_steps was given
    init = get_method(ctx, _cls(ctx), "__init__")
    sets = [(s, s.value) for s in walk_shallow(init.node) if isinstance(s, ast.Assign) and any(is_attr_of(t, init.self_name, "_growable") for t in s.targets)]
    ctx.require(sets, f"{rid}: __init__ no longer sets _growable")
    icfg = ctx.cfg(init)
    for s, v in sets:
        guard = [d for d in icfg.dominators(s) if isinstance(d, ast.If) and d is not s]
        if not guard or not isinstance(v, ast.Constant):
            raise AnalysisError(f"{rid}: unrecognised form of the _growable assignment: {norm(s)}")
        g = guard[0]
        test_is_none = isinstance(g.test, ast.Compare) and isinstance(g.test.left, ast.Name) and g.test.left.id == "max_steps" \
            and isinstance(g.test.ops[0], (ast.Is, ast.IsNot)) and isinstance(g.test.comparators[0], ast.Constant) and g.test.comparators[0].value is None
        if not test_is_none:
            raise AnalysisError(f"{rid}: unrecognised guard of the _growable assignment: {norm(g)}")
        in_true = any(contains(b, s) for b in g.body)
        none_branch = in_true == isinstance(g.test.ops[0], ast.Is)
        if bool(v.value) == none_branch:
            ctx.ok(rid, init, s, f"_growable={v.value} on the max_steps {'is' if none_branch else 'is not'} None branch")
        else:
            ctx.violation(rid, init, s, f"_growable={v.value} on the branch where max_steps {'is' if none_branch else 'is not'} None: "
                                        "a bounded history would grow (or an unbounded one refuse)")


def r4_growth_keeps_records(ctx, rid):
    cls = _cls(ctx)
    f = get_method(ctx, cls, "_grow")
    selfn = f.self_name
    cfg = ctx.cfg(f)
    rebind = [s for s in cfg.stmts() if isinstance(s, ast.Assign) and any(is_attr_of(t, selfn, "_y") for t in s.targets)]
    ctx.require(len(rebind) == 1 and isinstance(rebind[0].value, ast.Name), f"{rid}: unrecognised form of the re-binding of self._y in _grow")
    rb = rebind[0]
    newname = rb.value.id
    # allocation
    allocs = [s for s in cfg.stmts() if isinstance(s, ast.Assign) and any(isinstance(t, ast.Name) and t.id == newname for t in s.targets)]
    ctx.require(len(allocs) == 1 and _is_alloc(allocs[0].value), f"{rid}: unrecognised allocation of the new buffer in _grow")
    alloc = allocs[0].value
    # --- capacity: first element of the shape tuple
    shape = alloc.args[0] if alloc.args else None
    cap_expr = None
    if isinstance(shape, ast.BinOp) and isinstance(shape.op, ast.Add) and isinstance(shape.left, ast.Tuple) and len(shape.left.elts) == 1:
        cap_expr = shape.left.elts[0]
        tail = shape.right
    elif isinstance(shape, ast.Tuple) and shape.elts:
        cap_expr = shape.elts[0]
        tail = shape.elts[1] if len(shape.elts) == 2 and isinstance(shape.elts[1], ast.Starred) else None
    ctx.require(cap_expr is not None, f"{rid}: unrecognised shape expression of the new buffer: {norm(alloc)}")

    def inline(e, depth=0):
        if isinstance(e, ast.Name) and depth < 5:
            v = single_def_value(ctx, f, e)
            if v is not None:
                return inline(v, depth + 1)
        return e
    cap = inline(cap_expr)
    factor = None
    old_ok = False
    if isinstance(cap, ast.BinOp) and isinstance(cap.op, ast.Mult):
        for a, b in ((cap.left, cap.right), (cap.right, cap.left)):
            a_i = inline(a)
            if isinstance(a_i, ast.Call) and call_name(a_i) == "len" and a_i.args and is_attr_of(a_i.args[0], selfn, "_y"):
                old_ok = True
                b_i = inline(b)
                if isinstance(b_i, ast.Constant):
                    factor = b_i.value
                elif isinstance(b_i, ast.Attribute) and isinstance(b_i.value, ast.Name) and b_i.value.id in (selfn, cls.name):
                    at = ctx.repo.lookup_attr(cls, b_i.attr)
                    if at and isinstance(at[1], ast.Constant):
                        factor = at[1].value
    ctx.require(old_ok, f"{rid}: new capacity is not of the recognised form old_capacity * factor: {ast.unparse(cap)}")
    facts = {"capacity": ast.unparse(cap), "factor": factor}
    if isinstance(factor, int) and not isinstance(factor, bool) and factor >= 2:
        ctx.ok(rid, f, allocs[0], f"capacity grows by the integer factor {factor} >= 2", facts)
    else:
        ctx.violation(rid, f, allocs[0], f"growth factor is {factor!r}: the new buffer is not guaranteed to have room for the next "
                                         "row with an integer capacity (update() would index out of range or np.empty would reject a float)", facts)
    # --- trailing shape and dtype from the old buffer
    tail_ok = tail is not None and "shape[1:]" in ast.unparse(tail) and any(is_attr_of(n, selfn, "_y") for n in ast.walk(tail))
    dtype_kw = [k for k in alloc.keywords if k.arg == "dtype"]
    dtype_ok = bool(dtype_kw) and isinstance(dtype_kw[0].value, ast.Attribute) and dtype_kw[0].value.attr == "dtype" \
        and is_attr_of(dtype_kw[0].value.value, selfn, "_y")
    if tail_ok and dtype_ok:
        ctx.ok(rid, f, allocs[0], "trailing shape and dtype are taken from the old buffer", label="new buffer layout")
    else:
        ctx.violation(rid, f, allocs[0], "the new buffer does not take trailing shape and dtype from the old buffer "
                                         f"(tail_ok={tail_ok}, dtype_ok={dtype_ok}): records would be cast or reshaped on growth", label="new buffer layout")
    # --- copy of the valid rows precedes the re-binding
    copies = []
    for s in cfg.stmts():
        if isinstance(s, ast.Assign) and len(s.targets) == 1 and isinstance(s.targets[0], ast.Subscript) \
                and isinstance(s.targets[0].value, ast.Name) and s.targets[0].value.id == newname:
            copies.append(s)
    good = None
    for c in copies:
        tgt, val = c.targets[0], c.value
        if isinstance(val, ast.Subscript) and is_attr_of(val.value, selfn, "_y") and isinstance(tgt.slice, ast.Slice) \
                and isinstance(val.slice, ast.Slice) and tgt.slice.lower is None and val.slice.lower is None \
                and tgt.slice.upper is not None and val.slice.upper is not None \
                and ast.dump(tgt.slice.upper) == ast.dump(val.slice.upper) \
                and (is_attr_of(tgt.slice.upper, selfn, "_n") or ast.unparse(inline(tgt.slice.upper)) in (f"len({selfn}._y)",)):
            good = c
    if good is None:
        ctx.violation(rid, f, rb, "self._y is re-bound to the new buffer without first copying rows [:self._n] of the old one "
                                  "(recorded history is lost on growth)", {"copies_seen": [norm(c) for c in copies]})
    elif not cfg.dominates(good, rb):
        ctx.violation(rid, f, rb, "the copy of the valid rows does not precede the re-binding of self._y on every path")
    else:
        ctx.ok(rid, f, rb, "rows [:n] are copied into the new buffer before self._y is re-bound", {"copy": norm(good)})


def r5_query(ctx, rid):
    f = get_method(ctx, _cls(ctx), "__call__")
    selfn = f.self_name
    cfg = ctx.cfg(f)
    tpar = [p for p in f.params if p != selfn]
    ctx.require(len(tpar) == 1, f"{rid}: __call__ signature changed")
    tname = tpar[0]
    rets = sorted([s for s in cfg.stmts() if isinstance(s, ast.Return)], key=lambda s: s.lineno)
    ctx.require(len(rets) == 3, f"{rid}: expected 3 returns (two clamps + interpolation) in __call__, found {len(rets)}")

    def t_index(e):
        """self._t[k] -> k (int) or None"""
        if isinstance(e, ast.Subscript) and is_attr_of(e.value, selfn, "_t"):
            try:
                return ast.literal_eval(e.slice)
            except Exception:
                return None
        return None

    def guard_of(ret):
        g = [d for d in cfg.dominators(ret) if isinstance(d, ast.If) and any(contains(b, ret) for b in d.body)]
        return g[0] if g else None

    # ---- lower clamp
    lo, hi, mid = rets
    g = guard_of(lo)
    ok_lo = False
    if g is not None and isinstance(g.test, ast.Compare) and len(g.test.ops) == 1:
        l, op, r = g.test.left, g.test.ops[0], g.test.comparators[0]
        if isinstance(l, ast.Name) and l.id == tname and t_index(r) == 0 and isinstance(op, (ast.LtE, ast.Lt)):
            ok_lo = True
    row0 = isinstance(lo.value, ast.Subscript) and is_attr_of(lo.value.value, selfn, "_y") \
        and isinstance(lo.value.slice, ast.Constant) and lo.value.slice.value == 0
    if g is None:
        raise AnalysisError(f"{rid}: first return of __call__ is not guarded by an if")
    if ok_lo and row0:
        ctx.ok(rid, f, lo, "query at/before the first recorded time returns row 0", {"guard": norm(g)})
    else:
        ctx.violation(rid, f, lo, f"lower clamp is wrong: guard `{norm(g)}` must compare t with the first recorded time (t <= self._t[0]) "
                                  f"and return row 0", {"guard": norm(g), "returns": norm(lo)})
    # ---- upper clamp
    g = guard_of(hi)
    if g is None:
        raise AnalysisError(f"{rid}: second return of __call__ is not guarded by an if")
    ok_hi = False
    if isinstance(g.test, ast.Compare) and len(g.test.ops) == 1:
        l, op, r = g.test.left, g.test.ops[0], g.test.comparators[0]
        if isinstance(l, ast.Name) and l.id == tname and t_index(r) == -1 and isinstance(op, ast.GtE):
            ok_hi = True
    v = hi.value
    last_row = isinstance(v, ast.Subscript) and is_attr_of(v.value, selfn, "_y") and isinstance(v.slice, ast.BinOp) \
        and isinstance(v.slice.op, ast.Sub) and is_attr_of(v.slice.left, selfn, "_n") and isinstance(v.slice.right, ast.Constant) \
        and v.slice.right.value == 1
    if ok_hi and last_row:
        ctx.ok(rid, f, hi, "query at/after the last recorded time returns the last valid row n-1", {"guard": norm(g)})
    else:
        ctx.violation(rid, f, hi, f"upper clamp is wrong: guard `{norm(g)}` must be t >= self._t[-1] (strict > would index past the "
                                  f"time list at t == t_last) and return row self._n - 1 of the pre-allocated buffer (row -1 is unwritten memory)",
                      {"guard": norm(g), "returns": norm(hi)})
    # ---- interpolation
    B = sp.Symbol("B")      # bisect_right(self._t, t)

    def leaf(n):
        if isinstance(n, ast.Call) and call_name(n) in ("bisect_right", "bisect"):
            a = n.args
            if len(a) == 2 and is_attr_of(a[0], selfn, "_t") and isinstance(a[1], ast.Name) and a[1].id == tname:
                return B
            raise AnalysisError(f"{rid}: unrecognised bisect call {ast.unparse(n)}")
        if isinstance(n, ast.Call) and call_name(n) == "bisect_left":
            return sp.Symbol("B_left")
        if isinstance(n, ast.Name) and n.id != tname:
            val = single_def_value(ctx, f, n)
            if val is not None:
                return symx.to_sympy(val, leaf=leaf)
        return None
    try:
        expr = symx.to_sympy(mid.value, leaf=leaf)
    except symx.Unsupported as e:
        raise AnalysisError(f"{rid}: interpolation return has an unsupported form: {e}")
    i = B - 1
    t = sp.Symbol(tname)
    good = symx.is_linear_interpolant(expr, q=t, Y=f"{selfn}._y", X=f"{selfn}._t", lo=i, hi=i + 1)
    facts = {"normalised": str(sp.simplify(expr)), "reference": "Y(B-1) + (t - T(B-1))/(T(B) - T(B-1)) * (Y(B) - Y(B-1)),  B = bisect_right(T, t)"}
    if good:
        ctx.ok(rid, f, mid, "interior query normalises to the linear interpolant between the neighbouring records", facts)
    else:
        ctx.violation(rid, f, mid, "interior query is not the linear interpolation between records bisect_right(times,t)-1 and its successor", facts)
    # float(t) conversion of the query must not change t otherwise: t is only re-bound to float(t)
    for s in cfg.stmts():
        if isinstance(s, (ast.Assign, ast.AugAssign)):
            tg = s.targets if isinstance(s, ast.Assign) else [s.target]
            if any(isinstance(x, ast.Name) and x.id == tname for x in tg):
                if isinstance(s, ast.Assign) and isinstance(s.value, ast.Call) and call_name(s.value) == "float" \
                        and len(s.value.args) == 1 and isinstance(s.value.args[0], ast.Name) and s.value.args[0].id == tname:
                    ctx.ok(rid, f, s, "query time only converted to float", nontrivial=False)
                else:
                    ctx.violation(rid, f, s, "the query time is modified before the lookup")


def r6_update_time_is_recorded_unchanged(ctx, rid):
    """The recorded time is the `t` that was passed (float(t)), and __init__ records t0 / row 0 / n = 1."""
    cls = _cls(ctx)
    f = get_method(ctx, cls, "update")
    selfn = f.self_name
    for s in walk_shallow(f.node):
        if isinstance(s, ast.stmt) and _classify_update_stmt(s, selfn) == "t":
            a = s.value.args
            good = len(a) == 1 and ((isinstance(a[0], ast.Name) and a[0].id == "t") or
                                    (isinstance(a[0], ast.Call) and call_name(a[0]) == "float" and len(a[0].args) == 1
                                     and isinstance(a[0].args[0], ast.Name) and a[0].args[0].id == "t"))
            (ctx.ok if good else ctx.violation)(rid, f, s, "the recorded time is the update's t" if good else
                                                "the recorded time is not the t passed to update()")
    init = get_method(ctx, cls, "__init__")
    sn = init.self_name
    n_init = [s for s in walk_shallow(init.node) if isinstance(s, ast.Assign) and any(is_attr_of(t, sn, "_n") for t in s.targets)]
    row0 = [s for s in walk_shallow(init.node) if isinstance(s, ast.Assign) and len(s.targets) == 1 and isinstance(s.targets[0], ast.Subscript)
            and is_attr_of(s.targets[0].value, sn, "_y")]
    t_init = [s for s in walk_shallow(init.node) if isinstance(s, ast.Assign) and any(is_attr_of(t, sn, "_t") for t in s.targets)]
    ctx.require(len(n_init) == 1 and len(row0) == 1 and len(t_init) == 1, f"{rid}: unrecognised initialisation in DDEHistory.__init__")
    good = isinstance(n_init[0].value, ast.Constant) and n_init[0].value.value == 1 \
        and isinstance(row0[0].targets[0].slice, ast.Constant) and row0[0].targets[0].slice.value == 0 \
        and isinstance(t_init[0].value, ast.List) and len(t_init[0].value.elts) == 1
    if good:
        ctx.ok(rid, init, n_init[0], "initial record: one time, row 0, n = 1")
    else:
        ctx.violation(rid, init, n_init[0], "the initial record is inconsistent (times list, row 0 and n = 1 must describe one record)")


RULES = [
    ("C19-R1", r1_records_are_copies, 4),
    ("C19-R2", r2_state_advances_together, 2),
    ("C19-R3", r3_bounded_history_refuses, 4),
    ("C19-R4", r4_growth_keeps_records, 3),
    ("C19-R5", r5_query, 3),
    ("C19-R6", r6_update_time_is_recorded_unchanged, 2),
]
