"""C19 — DDEHistory returns the piecewise-linear interpolant of what it was given (DESIGN §4 C19).

All rules work on *normalised* expressions (engine.util.normalise): local single-definition aliases (`row = self._n`,
`time_stamps = self._t`) and one-line private helpers (`self._allocate(...)` -> `np.empty(...)`) are inlined first, so that
the rules see roles (the row counter, the row buffer, the time list) instead of local names.
"""
from __future__ import annotations

import ast

import sympy as sp

from engine import AnalysisError
from engine.srcmodel import walk_shallow, norm, parent, dotted
from engine.util import (is_attr_of, enumerate_paths, get_method, stmt_calls, call_name, contains, normalise)
from engine.cfg import stmt_of
from engine import symx

PROPERTY = "C19"
REL = "pyrates/backend/base/base_backend.py"
CLS = "DDEHistory"

EXPLANATION = (
    "Decides structural necessary conditions of C19 on class DDEHistory (pyrates/backend/base/base_backend.py), on expressions "
    "normalised by inlining local aliases and one-line private helpers: "
    "R1 the caller's arrays never escape into the object by reference (only element stores into a buffer this class "
    "allocated); R2 on every non-raising path of update() (symbolic execution of the row counter along each path) exactly one time "
    "is appended, exactly one row is stored at the pre-update counter and the counter ends one higher, and an update that is refused by an explicit raise has changed neither times, rows nor counter; R3 a path that found the "
    "buffer full reaches the row store only through _grow(), _grow() is reached only when the history is growable, a full bounded "
    "history has a raising path, and the flag is true exactly when max_steps is None; R4 _grow() enlarges by an integer factor >= 2, "
    "copies the valid rows before re-binding and keeps dtype/trailing shape; R5 __call__ clamps with the recorded first/"
    "last time and otherwise returns an expression that normalises (sympy, exact) to y[i]+(t-t_i)/(t_{i+1}-t_i)*(y[i+1]-y[i]) "
    "with i = bisect_right(times, t) - 1; R6 the recorded time is the update's t, the initial record is (t0, y0, n=1).  "
    "NOT decided: floating-point equality at t = t_i, behaviour for non-increasing update times, numpy's copy semantics of element "
    "assignment (trusted)."
)
RULE_TEXT = ("one obligation per (rule, construct): paths of update() enumerated exhaustively (acyclic CFG) and executed symbolically; "
             "escape analysis over every load of the data parameters; algebraic normal form of the interpolation return. Non-trivial = "
             "needed a path, dominance, escape or algebra argument (not a mere presence test).")
ASSUMPTIONS = ["numpy element/slice assignment `buf[i] = y` copies the values of y into buf (library semantics).",
               "bisect.bisect_right has its documented meaning."]

ALLOC = {"empty", "zeros", "ones", "full", "empty_like", "zeros_like"}


def _cls(ctx):
    return ctx.repo.get_class(REL, CLS)


def _is_alloc(e):
    return isinstance(e, ast.Call) and call_name(e) in ALLOC


def _N(ctx, f, e):
    return normalise(ctx, f, e)


def _is_self_attr(e, selfn, attr):
    return is_attr_of(e, selfn, attr)


def _is_buffer(ctx, f, e, selfn) -> bool:
    """`e` denotes the row buffer: self._y (possibly through an alias) or a local that holds a fresh allocation of this class
    (which is bound to self._y afterwards - R1 checks every binding of self._y)."""
    v = _N(ctx, f, e)
    return _is_self_attr(v, selfn, "_y") or _is_alloc(v)


def _strip_float(e):
    while isinstance(e, ast.Call) and call_name(e) in ("float", "asarray") and len(e.args) == 1 and isinstance(e.func, (ast.Name, ast.Attribute)):
        e = e.args[0]
    return e


def _is_pure_predicate(ctx, cls, mname):
    """A method of the class that contains no store rooted at self, calls no other method of self with arguments, and whose every
    return is a truth value (constant, comparison, not/and/or, bool(...))."""
    try:
        g = get_method(ctx, cls, mname)
    except AnalysisError:
        return False
    sn = g.self_name
    def rooted(e):
        while isinstance(e, (ast.Attribute, ast.Subscript)):
            e = e.value
        return isinstance(e, ast.Name) and e.id == sn
    for n in walk_shallow(g.node):
        if isinstance(n, (ast.Assign, ast.AugAssign, ast.AnnAssign)):
            tg = n.targets if isinstance(n, ast.Assign) else [n.target]
            if any(isinstance(t, (ast.Attribute, ast.Subscript)) and rooted(t) for t in tg):
                return False
        if isinstance(n, ast.Call) and isinstance(n.func, ast.Attribute) and rooted(n.func) and isinstance(n.func.value, ast.Name) and (n.args or n.keywords):
            return False
        if isinstance(n, (ast.Global, ast.Nonlocal, ast.Yield, ast.YieldFrom)):
            return False
        if isinstance(n, ast.Return):
            v = n.value
            if not (isinstance(v, (ast.Constant, ast.Compare, ast.BoolOp)) or (isinstance(v, ast.UnaryOp) and isinstance(v.op, ast.Not))
                    or (isinstance(v, ast.Call) and isinstance(v.func, ast.Name) and v.func.id == "bool")):
                return False
    return True


# ------------------------------------------------------------------------------------------------
def r1_records_are_copies(ctx, rid):
    cls = _cls(ctx)
    data_params = {"__init__": "y0", "update": "y"}
    for mname, p in data_params.items():
        f = get_method(ctx, cls, mname)
        ctx.require(p in f.params, f"{rid}: parameter {p} of DDEHistory.{mname} vanished")
        selfn = f.self_name
        # names that carry the parameter by reference: p itself and locals re-bound to asarray(p)/p
        carriers = {p}
        for st in walk_shallow(f.node):
            if isinstance(st, ast.Assign) and len(st.targets) == 1 and isinstance(st.targets[0], ast.Name):
                v = _strip_float(st.value)
                if isinstance(v, ast.Name) and v.id in carriers:
                    carriers.add(st.targets[0].id)
        for n in walk_shallow(f.node):
            if not (isinstance(n, ast.Name) and n.id in carriers and isinstance(n.ctx, ast.Load)):
                continue
            par = parent(n)
            st = stmt_of(ctx.cfg(f), n)
            # (a) element store into the row buffer
            if isinstance(st, ast.Assign) and st.value is n and len(st.targets) == 1 and isinstance(st.targets[0], ast.Subscript) \
                    and _is_buffer(ctx, f, st.targets[0].value, selfn):
                ctx.ok(rid, f, st, f"`{n.id}` is copied into the row buffer by element assignment")
                continue
            # (b) metadata reads
            if isinstance(par, ast.Attribute) and par.attr in ("shape", "dtype", "ndim", "size"):
                ctx.ok(rid, f, st, f"only metadata `.{par.attr}` of `{n.id}` is read", nontrivial=False)
                continue
            # (c) re-binding a carrier through asarray / plain alias
            if isinstance(st, ast.Assign) and len(st.targets) == 1 and isinstance(st.targets[0], ast.Name) \
                    and st.targets[0].id in carriers and _strip_float(st.value) is n:
                ctx.ok(rid, f, st, f"`{n.id}` is re-bound to a local alias (no escape)", nontrivial=False)
                continue
            # (d) handed to a predicate method of the class that stores nothing and returns a truth value
            if isinstance(par, ast.Call) and n in par.args and isinstance(par.func, ast.Attribute) and isinstance(par.func.value, ast.Name) \
                    and par.func.value.id == selfn and _is_pure_predicate(ctx, cls, par.func.attr):
                ctx.ok(rid, f, st, f"`{n.id}` is handed to the predicate `{par.func.attr}` (stores nothing on the object, returns a truth value)")
                continue
            ctx.violation(rid, f, st, f"the caller's array `{p}` escapes by reference: used outside an element store into "
                                     f"self._y (a later mutation by the caller would alter the stored record)")
    # every store to self._y binds a buffer allocated here
    n_stores = 0
    for mname, f in cls.methods.items():
        selfn = f.self_name
        if selfn is None:
            continue
        for st in walk_shallow(f.node):
            if isinstance(st, ast.Assign) and any(_is_self_attr(t, selfn, "_y") for t in st.targets):
                n_stores += 1
                v = _N(ctx, f, st.value)
                if _is_alloc(v):
                    ctx.ok(rid, f, st, "self._y is bound to an array allocated inside this class", {"normalised": ast.unparse(v)[:160]})
                else:
                    ctx.violation(rid, f, st, "self._y is bound to a value that is not a fresh allocation of this class "
                                             "(records could alias caller data)", {"normalised": ast.unparse(v)[:160]})
    ctx.require(n_stores >= 2, f"{rid}: expected stores to self._y in __init__ and _grow, found {n_stores}")


# ------------------------------------------------------------------------------------------------
N0, CAP = sp.symbols("n0 cap")


class _Exec:
    """Symbolic execution of the row counter along one path of update()."""

    def __init__(self, ctx, f):
        self.ctx, self.f, self.selfn = ctx, f, f.self_name
        self.cur = N0
        self.env = {}
        self.events = []          # (kind, stmt, detail)

    def sym(self, e):
        selfn = self.selfn

        def leaf(n):
            if _is_self_attr(n, selfn, "_n"):
                return self.cur
            if isinstance(n, ast.Call) and call_name(n) == "len" and n.args and _is_self_attr(self._alias(n.args[0]), selfn, "_y"):
                return CAP
            if isinstance(n, ast.Name) and n.id in self.env:
                return self.env[n.id]
            return None
        try:
            return symx.to_sympy(e, leaf=leaf)
        except symx.Unsupported:
            return sp.Symbol("opaque_" + str(abs(hash(ast.dump(e))) % 10 ** 6))

    def _alias(self, e):
        # follow local Name aliases of attributes (old_buffer = self._y)
        for _ in range(4):
            if isinstance(e, ast.Name) and e.id in self.aliases:
                e = self.aliases[e.id]
            else:
                break
        return e

    aliases: dict = {}

    def step(self, st):
        selfn = self.selfn
        if isinstance(st, ast.Assign) and len(st.targets) == 1:
            t = st.targets[0]
            if isinstance(t, ast.Name):
                if isinstance(st.value, ast.Attribute):
                    self.aliases = dict(self.aliases)
                    self.aliases[t.id] = st.value
                self.env[t.id] = self.sym(st.value)
                return
            if _is_self_attr(t, selfn, "_n"):
                new = self.sym(st.value)
                self.events.append(("n", st, sp.simplify(new - self.cur)))
                self.cur = new
                return
            if isinstance(t, ast.Subscript) and _is_self_attr(self._alias(t.value), selfn, "_y"):
                self.events.append(("y", st, sp.simplify(self.sym(t.slice) - N0)))
                return
            if isinstance(t, ast.Subscript) and _is_self_attr(self._alias(t.value), selfn, "_t"):
                self.events.append(("t!", st, t.slice))       # a recorded time stamp is rewritten in place
                return
        if isinstance(st, ast.AugAssign) and _is_self_attr(st.target, selfn, "_n"):
            d = self.sym(st.value)
            d = d if isinstance(st.op, ast.Add) else (-d if isinstance(st.op, ast.Sub) else sp.Symbol("opaque_aug"))
            self.events.append(("n", st, sp.simplify(d)))
            self.cur = self.cur + d
            return
        if isinstance(st, ast.Expr) and isinstance(st.value, ast.Call) and isinstance(st.value.func, ast.Attribute) \
                and st.value.func.attr == "append" and _is_self_attr(self._alias(st.value.func.value), selfn, "_t"):
            self.events.append(("t", st, None))
            return
        if isinstance(st, ast.Expr) and isinstance(st.value, ast.Call) and isinstance(st.value.func, ast.Attribute) \
                and st.value.func.attr in ("extend", "insert", "pop", "clear") and _is_self_attr(self._alias(st.value.func.value), selfn, "_t"):
            self.events.append(("t?", st, st.value.func.attr))


def _same_stamp_test(ctx, f, test):
    """Is `test` a comparison of the update's time with the LAST recorded time?  ('exact', polarity) for == / != (polarity +1: true
    means "same stamp"), ('close', polarity) for a closeness test (isclose / abs(difference) < tol), None otherwise."""
    selfn = f.self_name
    tpar = [p for p in f.params if p != selfn]
    tname = tpar[0] if tpar else None
    t = _N(ctx, f, test)
    neg = 1
    while isinstance(t, ast.UnaryOp) and isinstance(t.op, ast.Not):
        t, neg = t.operand, -neg

    def is_time(e):
        e = _strip_float(e)
        return isinstance(e, ast.Name) and e.id == tname

    def is_last(e):
        return isinstance(e, ast.Subscript) and _is_self_attr(e.value, selfn, "_t") and (
            (isinstance(e.slice, ast.UnaryOp) and isinstance(e.slice.op, ast.USub) and isinstance(e.slice.operand, ast.Constant) and e.slice.operand.value == 1)
            or (isinstance(e.slice, ast.Constant) and e.slice.value == -1)
            or (isinstance(e.slice, ast.BinOp) and isinstance(e.slice.op, ast.Sub) and _is_self_attr(e.slice.left, selfn, "_n")
                and isinstance(e.slice.right, ast.Constant) and e.slice.right.value == 1))
    if isinstance(t, ast.Compare) and len(t.ops) == 1:
        l, op, r = t.left, t.ops[0], t.comparators[0]
        if (is_time(l) and is_last(r)) or (is_last(l) and is_time(r)):
            if isinstance(op, ast.Eq):
                return ("exact", neg)
            if isinstance(op, ast.NotEq):
                return ("exact", -neg)
        # abs(t - last) < tol
        a = l if isinstance(l, ast.Call) and call_name(l) in ("abs", "fabs") else None
        if a is not None and a.args and isinstance(a.args[0], ast.BinOp) and isinstance(a.args[0].op, ast.Sub) \
                and ((is_time(a.args[0].left) and is_last(a.args[0].right)) or (is_last(a.args[0].left) and is_time(a.args[0].right))):
            return ("close", neg if isinstance(op, (ast.Lt, ast.LtE)) else -neg)
    if isinstance(t, ast.Call) and call_name(t) in ("isclose", "allclose") and len(t.args) >= 2 \
            and ((is_time(t.args[0]) and is_last(t.args[1])) or (is_last(t.args[0]) and is_time(t.args[1]))):
        return ("close", neg)
    return None


def _predicate_conjuncts(ctx, g):
    """The conditions that hold whenever the predicate method g returns a true value, for the shape
    `[alias = ...]* [if C: return False]* return X`; None for any other shape."""
    out = []
    body = [s for s in g.node.body if not (isinstance(s, ast.Expr) and isinstance(s.value, ast.Constant))]

    def pos(e, neg):
        while isinstance(e, ast.UnaryOp) and isinstance(e.op, ast.Not):
            e, neg = e.operand, not neg
        if isinstance(e, ast.Call) and isinstance(e.func, ast.Name) and e.func.id == "bool" and len(e.args) == 1:
            return pos(e.args[0], neg)
        if isinstance(e, ast.BoolOp) and ((isinstance(e.op, ast.Or) and neg) or (isinstance(e.op, ast.And) and not neg)):
            for v in e.values:
                pos(v, neg)
            return
        out.append((e, neg))
    for s in body[:-1]:
        if isinstance(s, ast.Assign) and len(s.targets) == 1 and isinstance(s.targets[0], ast.Name):
            continue
        if isinstance(s, ast.If) and not s.orelse and len(s.body) == 1 and isinstance(s.body[0], ast.Return) \
                and isinstance(s.body[0].value, ast.Constant) and s.body[0].value.value is False:
            pos(s.test, True)
            continue
        return None
    if not body or not isinstance(body[-1], ast.Return) or body[-1].value is None:
        return None
    pos(body[-1].value, False)
    return out


def _stamp_move(ctx, rid, f, cfg, p, ex):
    """A normal path of update() that rewrites a recorded time stamp.  The interpolant through the records is unchanged by moving the
    LAST record's stamp forward to t only if that record ends a flat segment which the new state prolongs: rows n-2 and n-1 are equal,
    the new state equals row n-1, both by exact comparison of all components, and t lies after the last stamp.  Everything else a
    stamp rewrite can do loses the record (t_i, y_i)."""
    selfn = f.self_name
    label = "a recorded time stamp is moved only along a flat segment"
    kinds = [k for k, _, _ in ex.events]
    st, idx = next((s_, d) for k, s_, d in ex.events if k == "t!")
    facts = {"path": cfg.path_str(p), "events": kinds}
    if kinds != ["t!"]:
        ctx.violation(rid, f, st, f"a path of update() rewrites a recorded time stamp (`{norm(st)[:60]}`) and also changes rows / counter / times "
                                  f"(events: {kinds}): times, rows and counter no longer describe the same records", facts, label=label)
        return
    i_ = ex.sym(idx)
    if not (sp.simplify(i_ + 1) == 0 or sp.simplify(i_ - N0 + 1) == 0):
        ctx.violation(rid, f, st, f"`{norm(st)[:60]}` rewrites the stamp of a record other than the last one: queries between the records around it "
                                  f"are interpolated over the wrong interval", facts, label=label)
        return
    tpar = [q for q in f.params if q != selfn]
    if _strip_float(st.value) is None or not (isinstance(_strip_float(st.value), ast.Name) and _strip_float(st.value).id == tpar[0]):
        ctx.violation(rid, f, st, f"`{norm(st)[:60]}` sets the last stamp to something other than the update's time", facts, label=label)
        return
    # the guards on the path: calls of predicate methods taken on their true edge
    conj = []
    for k, x in enumerate(p[:-1]):
        if not isinstance(x, ast.If):
            continue
        taken = "true" in cfg.g[x][p[k + 1]]["labels"]
        parts = x.test.values if isinstance(x.test, ast.BoolOp) and isinstance(x.test.op, ast.And) else [x.test]
        if not taken:
            continue
        for e in parts:
            if isinstance(e, ast.Call) and isinstance(e.func, ast.Attribute) and isinstance(e.func.value, ast.Name) and e.func.value.id == selfn:
                try:
                    g = get_method(ctx, _cls(ctx), e.func.attr)
                except AnalysisError:
                    continue
                if not _is_pure_predicate(ctx, _cls(ctx), e.func.attr):
                    continue
                cj = _predicate_conjuncts(ctx, g)
                if cj is None:
                    raise AnalysisError(f"{rid}: the predicate {e.func.attr} that licenses a stamp move has a shape the rule cannot read")
                # map the callee's parameters to the call's arguments (positional)
                gp = [q for q in g.params if q != g.self_name]
                amap = {q: a for q, a in zip(gp, e.args)}
                conj.append((g, cj, amap))
    if not conj:
        ctx.violation(rid, f, st, f"`{norm(st)[:60]}` moves the last record's stamp on a path that appends nothing, and no predicate on the path "
                                  f"establishes that the record only prolongs a flat segment: the record (t_n-1, y_n-1) is lost", facts, label=label)
        return

    def row_of(g, e):
        """'new' for the update's state, sympy index relative to n for self._y[...] rows, None otherwise."""
        v = normalise(ctx, g, e)
        while isinstance(v, ast.Call) and isinstance(v.func, ast.Attribute) and v.func.attr in ("astype", "asarray", "ravel", "reshape") :
            v = v.func.value if v.func.attr != "asarray" else (v.args[0] if v.args else v)
            v = normalise(ctx, g, v)
        if isinstance(v, ast.Name):
            return ("new", v.id)
        if isinstance(v, ast.Subscript) and is_attr_of(normalise(ctx, g, v.value), g.self_name, "_y"):
            def leaf(n):
                if is_attr_of(n, g.self_name, "_n"):
                    return N0
                return None
            try:
                return ("row", sp.simplify(symx.to_sympy(normalise(ctx, g, v.slice), leaf=leaf) - N0))
            except symx.Unsupported:
                return None
        return None
    have_flat = have_new = have_later = False
    for g, cj, amap in conj:
        for e, neg in cj:
            if neg:
                if isinstance(e, ast.Compare) and len(e.ops) == 1 and isinstance(e.ops[0], (ast.LtE, ast.Lt)) and isinstance(e.ops[0], ast.LtE):
                    have_later = have_later or _is_last_stamp(ctx, g, e.comparators[0])
                continue
            if isinstance(e, ast.Compare) and len(e.ops) == 1 and isinstance(e.ops[0], ast.Gt) and _is_last_stamp(ctx, g, e.comparators[0]):
                have_later = True
                continue
            inner = None
            if isinstance(e, ast.Call) and call_name(e) in ("all",) and len(e.args) == 1 and isinstance(e.args[0], ast.Compare) \
                    and len(e.args[0].ops) == 1 and isinstance(e.args[0].ops[0], ast.Eq):
                inner = (e.args[0].left, e.args[0].comparators[0])
            elif isinstance(e, ast.Call) and call_name(e) == "array_equal" and len(e.args) == 2:
                inner = (e.args[0], e.args[1])
            if inner is None:
                continue
            a, b = row_of(g, inner[0]), row_of(g, inner[1])
            ks = {a, b}
            if ("row", sp.Integer(-1)) in ks and ("row", sp.Integer(-2)) in ks:
                have_flat = True
            if ("row", sp.Integer(-1)) in ks and any(k_ and k_[0] == "new" and k_[1] in amap for k_ in ks):
                have_new = True
    if have_flat and have_new and have_later:
        ctx.ok(rid, f, st, "the last stamp is moved to the update's time only where rows n-2 and n-1 are equal, the new state equals row n-1 "
                           "(exact, all components) and the time lies after the last stamp: the interpolant is unchanged", facts, label=label)
    else:
        missing = [w for w, h in (("rows n-2 and n-1 are equal (the history ends with a flat segment)", have_flat),
                                  ("the new state equals row n-1", have_new), ("the new time lies after the last stamp", have_later)) if not h]
        ctx.violation(rid, f, st, f"`{norm(st)[:60]}` moves the last record's stamp forward, but the licensing predicate does not establish that "
                                  f"{' / '.join(missing)} by exact comparison of all components: where the last record ends a ramp its stamp is "
                                  f"stretched, hist(t_n-1) no longer returns y_n-1 and the segment before it is interpolated along the wrong line",
                      facts, label=label)


def _is_last_stamp(ctx, g, e):
    v = normalise(ctx, g, e)
    if not (isinstance(v, ast.Subscript) and is_attr_of(normalise(ctx, g, v.value), g.self_name, "_t")):
        return False
    s_ = v.slice
    return isinstance(s_, ast.UnaryOp) and isinstance(s_.op, ast.USub) and isinstance(s_.operand, ast.Constant) and s_.operand.value == 1


def r2_state_advances_together(ctx, rid):
    f = get_method(ctx, _cls(ctx), "update")
    cfg = ctx.cfg(f)
    paths = enumerate_paths(cfg)
    normal = [p for p in paths if p[-1] is cfg.EXIT]
    ctx.require(normal, f"{rid}: update() has no normal path")
    stamp_tests = {s: _same_stamp_test(ctx, f, s.test) for s in cfg.stmts() if isinstance(s, ast.If) and _same_stamp_test(ctx, f, s.test)}
    for s_, (kind_, _pol) in stamp_tests.items():
        if kind_ == "close":
            ctx.violation(rid, f, s_, f"`{norm(s_)[:70]}` treats an update whose time is merely CLOSE to the last recorded time as a repeated stamp: "
                                      f"strictly increasing stamps inside the tolerance (default rtol scales with t) overwrite the last record instead "
                                      f"of being appended, so hist(t_i) is no longer y_i", label="repeated stamp is decided by exact equality")

    def same_stamp_path(p):
        for k, x in enumerate(p[:-1]):
            if x in stamp_tests and stamp_tests[x][0] == "exact":
                labels = cfg.g[x][p[k + 1]]["labels"]
                taken = "true" in labels
                if (stamp_tests[x][1] > 0) == taken:
                    return x
        return None
    for p in normal:
        ex = _Exec(ctx, f)
        for s in p:
            if isinstance(s, ast.stmt):
                ex.step(s)
        kinds = [k for k, _, _ in ex.events]
        if "t!" in kinds:
            _stamp_move(ctx, rid, f, cfg, p, ex)
            continue
        label = "path " + cfg.path_str(p)
        facts = {"path": cfg.path_str(p), "events": [(k, str(d)) for k, _, d in ex.events], "counter_after": str(sp.simplify(ex.cur))}
        stores = [(s, d) for k, s, d in ex.events if k == "y"]
        g_ = same_stamp_path(p)
        if g_ is not None:
            # update(t, y) with t equal to the last recorded time (not reachable for strictly increasing stamps): the only sound
            # reaction other than a refusal is to replace the state of that last record and leave times and counter alone
            if kinds == ["y"] and sp.simplify(stores[0][1] + 1) == 0 and sp.simplify(ex.cur - N0) == 0:
                ctx.ok(rid, f, g_, "an update for exactly the last recorded time replaces that record's state; times and counter unchanged",
                       facts, label="repeated stamp replaces the last record")
            else:
                ctx.violation(rid, f, g_, f"an update for the last recorded time changes the history other than by replacing the last row "
                                          f"(events: {kinds}, counter {sp.simplify(ex.cur)})", facts, label="repeated stamp replaces the last record")
            continue
        if kinds.count("t") != 1 or "t?" in kinds:
            ctx.violation(rid, f, f.node, f"a non-raising path of update() does not append exactly one time to the time list (events: {kinds})",
                          facts, label=label)
        elif len(stores) != 1:
            ctx.violation(rid, f, f.node, f"a non-raising path of update() does not store exactly one row (events: {kinds})", facts, label=label)
        elif sp.simplify(stores[0][1]) != 0:
            ctx.violation(rid, f, stores[0][0], f"the row is stored at index n0 + ({stores[0][1]}) instead of the number of valid rows n0 "
                                               f"(skips a row / overwrites the last record / writes past the valid range)", facts, label=label + " store")
        elif sp.simplify(ex.cur - N0 - 1) != 0:
            ctx.violation(rid, f, f.node, f"after a record the row counter is {sp.simplify(ex.cur)} instead of n0 + 1", facts, label=label + " inc")
        else:
            ctx.ok(rid, f, f.node, "one time appended, one row stored at the pre-update counter, counter advanced by one", facts, label=label)
    # a refused update (explicit raise) leaves the history exactly as it was: times, rows and counter are used together by
    # __call__ (clamp against the last time, row n-1), so a time appended before the refusal makes later queries read row n
    refusing = [p for p in paths if p[-1] is cfg.RAISE and len(p) >= 2 and isinstance(p[-2], ast.Raise)]
    for p in refusing:
        ex = _Exec(ctx, f)
        for s in p[:-2]:
            if isinstance(s, ast.stmt):
                ex.step(s)
        changed = [(k, norm(st)) for k, st, _ in ex.events]
        label = "refusing path " + cfg.path_str(p)
        if changed:
            ctx.violation(rid, f, ex.events[0][1], f"an update that is refused (raise at line {p[-2].lineno}) has already changed the history "
                                                   f"({', '.join(k for k, _ in changed)}): times, rows and counter no longer describe the same records",
                          {"path": cfg.path_str(p), "events": changed}, label="refused update leaves the history unchanged")
        else:
            ctx.ok(rid, f, p[-2], "a refused update changes neither times, rows nor counter", {"path": cfg.path_str(p)},
                   label="refused update leaves the history unchanged")


# ------------------------------------------------------------------------------------------------
def _full_polarity(ctx, f, test):
    """+1 if `test` true means "buffer full", -1 if true means "room left", None if not a capacity test, 'bad' if a capacity test of
    an unsound form (strict >)."""
    selfn = f.self_name
    t = _N(ctx, f, test)
    neg = 1
    while isinstance(t, ast.UnaryOp) and isinstance(t.op, ast.Not):
        t = t.operand
        neg = -neg
    if not (isinstance(t, ast.Compare) and len(t.ops) == 1):
        return None
    l, op, r = t.left, t.ops[0], t.comparators[0]

    def is_cap(e):
        if isinstance(e, ast.Call) and call_name(e) == "len" and e.args and _is_self_attr(e.args[0], selfn, "_y"):
            return True
        return isinstance(e, ast.Subscript) and isinstance(e.value, ast.Attribute) and e.value.attr == "shape" \
            and _is_self_attr(e.value.value, selfn, "_y") and isinstance(e.slice, ast.Constant) and e.slice.value == 0

    def is_n(e):
        return _is_self_attr(e, selfn, "_n")
    if is_n(l) and is_cap(r):
        kind = {ast.GtE: 1, ast.Eq: 1, ast.Lt: -1, ast.NotEq: -1}.get(type(op))
    elif is_cap(l) and is_n(r):
        kind = {ast.LtE: 1, ast.Eq: 1, ast.Gt: -1, ast.NotEq: -1}.get(type(op))
    else:
        return None
    if kind is None:
        return "bad"
    return kind * neg


def _growable_polarity(ctx, f, test):
    selfn = f.self_name
    t = _N(ctx, f, test)
    neg = 1
    while isinstance(t, ast.UnaryOp) and isinstance(t.op, ast.Not):
        t = t.operand
        neg = -neg
    if _is_self_attr(t, selfn, "_growable"):
        return neg
    return None


def r3_bounded_history_refuses(ctx, rid):
    f = get_method(ctx, _cls(ctx), "update")
    selfn = f.self_name
    cfg = ctx.cfg(f)

    def is_store(s):
        return isinstance(s, ast.Assign) and len(s.targets) == 1 and isinstance(s.targets[0], ast.Subscript) \
            and _is_self_attr(_N(ctx, f, s.targets[0].value), selfn, "_y")

    def is_grow(s):
        return isinstance(s, ast.stmt) and not isinstance(s, (ast.If, ast.While)) and any(
            isinstance(c.func, ast.Attribute) and c.func.attr == "_grow" and isinstance(c.func.value, ast.Name) and c.func.value.id == selfn
            for c in stmt_calls(s))
    stores = [s for s in cfg.stmts() if is_store(s)]
    # a store that replaces the LAST valid row under an exact same-stamp test (R2) needs no room
    stamp_ifs = [s for s in cfg.stmts() if isinstance(s, ast.If) and (_same_stamp_test(ctx, f, s.test) or ("", 0))[0] == "exact"]

    def replaces_last(s):
        idx = _N(ctx, f, s.targets[0].slice)
        last = isinstance(idx, ast.BinOp) and isinstance(idx.op, ast.Sub) and _is_self_attr(idx.left, selfn, "_n") \
            and isinstance(idx.right, ast.Constant) and idx.right.value == 1
        return last and any(contains(g, s) for g in stamp_ifs)
    stores = [s for s in stores if not replaces_last(s)]
    ctx.require(stores, f"{rid}: no row store found in update()")
    tests = {}
    for s in cfg.stmts():
        if isinstance(s, ast.If):
            pol = _full_polarity(ctx, f, s.test)
            if pol == "bad":
                raise AnalysisError(f"{rid}: capacity test in update() has an unrecognised form: {norm(s)}")
            if pol is not None:
                tests[s] = pol
    gtests = {s: _growable_polarity(ctx, f, s.test) for s in cfg.stmts() if isinstance(s, ast.If) and _growable_polarity(ctx, f, s.test) is not None}
    paths = enumerate_paths(cfg)

    def edge(path, node):
        i = [k for k, x in enumerate(path) if x is node]
        if not i or i[0] + 1 >= len(path):
            return None
        labels = cfg.g[path[i[0]]][path[i[0] + 1]]["labels"]
        return True if "true" in labels else (False if "false" in labels else None)
    n_full_raise = 0
    verdicts = []
    for p in paths:
        ends_normal = p[-1] is cfg.EXIT
        store_pos = [k for k, x in enumerate(p) if any(x is s for s in stores)]
        full = None
        for tnode, pol in tests.items():
            e = edge(p, tnode)
            if e is not None:
                full = (e == (pol == 1))
        growable = None
        for gnode, pol in gtests.items():
            e = edge(p, gnode)
            if e is not None:
                growable = (e == (pol == 1))
        grow_pos = [k for k, x in enumerate(p) if is_grow(x)]
        if not ends_normal:
            if full and growable is False:
                n_full_raise += 1
            continue
        if not store_pos:
            continue
        facts = {"path": cfg.path_str(p), "buffer_full": full, "growable": growable}
        if full is None:
            verdicts.append(("violation", stores[0], "a path reaches the row store without any test of the counter against the buffer capacity "
                                                      "(a full buffer would be overwritten or indexed out of range)", facts))
        elif full and not (grow_pos and grow_pos[0] < store_pos[0]):
            verdicts.append(("violation", stores[0], "on the buffer-full branch a path reaches the row store without growing the buffer and "
                                                      "without raising (a bounded history would overwrite/overflow instead of refusing)", facts))
        elif grow_pos and growable is not True:
            verdicts.append(("violation", p[grow_pos[0]], "self._grow() is reached on a path where the _growable flag was not tested true: a history "
                                                           "bounded by max_steps would grow", facts))
        elif grow_pos and not full:
            verdicts.append(("info", p[grow_pos[0]], "growth on a path where the buffer is not full", facts))
        else:
            verdicts.append(("ok", stores[0], "row store reached with room left, or after _grow() under the _growable flag", facts))
    seen = set()
    for status, node, msg, facts in verdicts:
        key = (status, id(node), msg)
        if key in seen:
            continue
        seen.add(key)
        if status == "violation":
            ctx.violation(rid, f, node, msg, facts)
        elif status == "ok":
            ctx.ok(rid, f, node, msg, facts, label=f"{norm(node)} [{facts['path']}]")
        else:
            ctx.info(rid, f, node, msg, facts)
    if n_full_raise >= 1:
        ctx.ok(rid, f, f.node, "a full history that is not growable can only raise", label="bounded history refuses")
    else:
        ctx.violation(rid, f, f.node, "no raising path for a full buffer of a bounded (not growable) history: it cannot refuse updates beyond "
                                      "its capacity", label="bounded history refuses")
    # the flag is true exactly when max_steps was not given
    init = get_method(ctx, _cls(ctx), "__init__")
    sn = init.self_name
    sets = [s for s in walk_shallow(init.node) if isinstance(s, ast.Assign) and any(_is_self_attr(t, sn, "_growable") for t in s.targets)]
    ctx.require(sets, f"{rid}: __init__ no longer sets _growable")
    icfg = ctx.cfg(init)
    for s in sets:
        v = _N(ctx, init, s.value)
        verdict = None
        if isinstance(v, ast.Compare) and len(v.ops) == 1 and isinstance(v.left, ast.Name) and v.left.id == "max_steps" \
                and isinstance(v.comparators[0], ast.Constant) and v.comparators[0].value is None:
            verdict = isinstance(v.ops[0], (ast.Is, ast.Eq))
            where = "assigned `max_steps is None`" if verdict else "assigned `max_steps is not None`"
        elif isinstance(v, ast.UnaryOp) and isinstance(v.op, ast.Not) and isinstance(v.operand, ast.Compare) \
                and isinstance(v.operand.left, ast.Name) and v.operand.left.id == "max_steps":
            verdict = isinstance(v.operand.ops[0], (ast.IsNot, ast.NotEq))
            where = f"assigned `{ast.unparse(v)}`"
        elif isinstance(v, ast.Constant) and isinstance(v.value, bool):
            guard = [d for d in icfg.dominators(s) if isinstance(d, ast.If) and d is not s]
            if not guard:
                raise AnalysisError(f"{rid}: unrecognised form of the _growable assignment: {norm(s)}")
            g = guard[0]
            gt = _N(ctx, init, g.test)
            if not (isinstance(gt, ast.Compare) and isinstance(gt.left, ast.Name) and gt.left.id == "max_steps"
                    and isinstance(gt.ops[0], (ast.Is, ast.IsNot)) and isinstance(gt.comparators[0], ast.Constant) and gt.comparators[0].value is None):
                raise AnalysisError(f"{rid}: unrecognised guard of the _growable assignment: {norm(g)}")
            in_true = any(contains(b, s) for b in g.body)
            none_branch = in_true == isinstance(gt.ops[0], ast.Is)
            verdict = bool(v.value) == none_branch
            where = f"_growable={v.value} on the branch where max_steps {'is' if none_branch else 'is not'} None"
        else:
            raise AnalysisError(f"{rid}: unrecognised form of the _growable assignment: {norm(s)}")
        if verdict:
            ctx.ok(rid, init, s, f"the history is growable exactly when max_steps is None ({where})")
        else:
            ctx.violation(rid, init, s, f"{where}: a bounded history would grow (or an unbounded one refuse)")


# ------------------------------------------------------------------------------------------------
def r4_growth_keeps_records(ctx, rid):
    cls = _cls(ctx)
    f = get_method(ctx, cls, "_grow")
    selfn = f.self_name
    cfg = ctx.cfg(f)
    rebind = [s for s in cfg.stmts() if isinstance(s, ast.Assign) and any(_is_self_attr(t, selfn, "_y") for t in s.targets)]
    ctx.require(len(rebind) == 1, f"{rid}: expected exactly one re-binding of self._y in _grow")
    rb = rebind[0]
    alloc = _N(ctx, f, rb.value)
    ctx.require(_is_alloc(alloc), f"{rid}: the value re-bound to self._y in _grow does not normalise to an allocation: {ast.unparse(alloc)[:120]}")
    # --- capacity: first element of the shape tuple
    shape = alloc.args[0] if alloc.args else next((k.value for k in alloc.keywords if k.arg == "shape"), None)
    cap_expr = tail = None
    if isinstance(shape, ast.BinOp) and isinstance(shape.op, ast.Add) and isinstance(shape.left, ast.Tuple) and len(shape.left.elts) == 1:
        cap_expr, tail = shape.left.elts[0], shape.right
    elif isinstance(shape, ast.Tuple) and shape.elts:
        cap_expr = shape.elts[0]
        tail = shape.elts[1].value if len(shape.elts) == 2 and isinstance(shape.elts[1], ast.Starred) else None
    ctx.require(cap_expr is not None, f"{rid}: unrecognised shape expression of the new buffer: {ast.unparse(alloc)[:120]}")

    def cap_sym(e):
        def leaf(n):
            if isinstance(n, ast.Call) and call_name(n) == "len" and n.args and _is_self_attr(n.args[0], selfn, "_y"):
                return CAP
            if isinstance(n, ast.Subscript) and isinstance(n.value, ast.Attribute) and n.value.attr == "shape" and _is_self_attr(n.value.value, selfn, "_y") \
                    and isinstance(n.slice, ast.Constant) and n.slice.value == 0:
                return CAP
            if isinstance(n, ast.Attribute) and isinstance(n.value, ast.Name) and n.value.id in (selfn, cls.name):
                at = ctx.repo.lookup_attr(cls, n.attr)
                if at and isinstance(at[1], ast.Constant) and isinstance(at[1].value, (int, float)) and not isinstance(at[1].value, bool):
                    return sp.nsimplify(at[1].value, rational=True)
            return None
        return symx.to_sympy(e, leaf=leaf)
    try:
        new_cap = sp.simplify(cap_sym(cap_expr))
    except symx.Unsupported as e:
        raise AnalysisError(f"{rid}: new capacity has an unsupported form: {e}")
    facts = {"new_capacity": str(new_cap), "normalised_allocation": ast.unparse(alloc)[:200]}
    ratio = sp.simplify(new_cap / CAP)
    diff = sp.simplify(new_cap - CAP)
    if new_cap.free_symbols - {CAP}:
        raise AnalysisError(f"{rid}: new capacity `{new_cap}` depends on something other than the old capacity")
    if ratio.is_Integer and ratio >= 2:
        ctx.ok(rid, f, rb, f"capacity grows by the integer factor {ratio} >= 2", facts, label="growth factor")
    elif diff.is_Integer and diff >= 1:
        ctx.ok(rid, f, rb, f"capacity grows by {diff} rows", facts, label="growth factor")
    else:
        ctx.violation(rid, f, rb, f"the new capacity is `{new_cap}` (old capacity = cap): not an integer enlargement - update() would index out of "
                                  f"range or np.empty would reject a float size", facts, label="growth factor")
    # --- trailing shape and dtype from the old buffer
    tail_ok = tail is not None and isinstance(tail, ast.Subscript) and isinstance(tail.value, ast.Attribute) and tail.value.attr == "shape" \
        and _is_self_attr(tail.value.value, selfn, "_y") and isinstance(tail.slice, ast.Slice) and tail.slice.upper is None \
        and isinstance(tail.slice.lower, ast.Constant) and tail.slice.lower.value == 1
    dtype_kw = [k.value for k in alloc.keywords if k.arg == "dtype"] or ([alloc.args[1]] if len(alloc.args) > 1 else [])
    dtype_ok = bool(dtype_kw) and isinstance(dtype_kw[0], ast.Attribute) and dtype_kw[0].attr == "dtype" and _is_self_attr(dtype_kw[0].value, selfn, "_y")
    if tail_ok and dtype_ok:
        ctx.ok(rid, f, rb, "trailing shape and dtype are taken from the old buffer", label="new buffer layout")
    else:
        ctx.violation(rid, f, rb, "the new buffer does not take trailing shape and dtype from the old buffer "
                                  f"(tail_ok={tail_ok}, dtype_ok={dtype_ok}): records would be cast or reshaped on growth", facts, label="new buffer layout")
    # --- copy of the valid rows precedes the re-binding
    def root_name(e):
        for _ in range(5):
            if isinstance(e, ast.Name):
                from engine.util import single_def_value
                v = single_def_value(ctx, f, e)
                if isinstance(v, ast.Name):
                    e = v
                    continue
            break
        return e.id if isinstance(e, ast.Name) else None
    new_name = root_name(rb.value)
    good = None
    copies = []
    for s in cfg.stmts():
        if isinstance(s, ast.Assign) and len(s.targets) == 1 and isinstance(s.targets[0], ast.Subscript) and s is not rb:
            tgt, val = s.targets[0], s.value
            if root_name(tgt.value) != new_name or new_name is None:
                continue
            copies.append(s)
            nv = _N(ctx, f, val)
            if isinstance(nv, ast.Subscript) and _is_self_attr(nv.value, selfn, "_y") and isinstance(tgt.slice, ast.Slice) and isinstance(nv.slice, ast.Slice) \
                    and tgt.slice.lower is None and nv.slice.lower is None and tgt.slice.upper is not None and nv.slice.upper is not None:
                up_t, up_v = _N(ctx, f, tgt.slice.upper), nv.slice.upper
                if ast.dump(up_t) == ast.dump(up_v) and (_is_self_attr(up_t, selfn, "_n") or ast.unparse(up_t) == f"len({selfn}._y)"):
                    good = s
    if good is None:
        ctx.violation(rid, f, rb, "self._y is re-bound to the new buffer without first copying rows [:self._n] of the old one "
                                  "(recorded history is lost on growth)", {"copies_seen": [norm(c) for c in copies]}, label="rows copied before re-binding")
    elif not cfg.dominates(good, rb):
        ctx.violation(rid, f, rb, "the copy of the valid rows does not precede the re-binding of self._y on every path", label="rows copied before re-binding")
    else:
        ctx.ok(rid, f, rb, "rows [:n] are copied into the new buffer before self._y is re-bound", {"copy": norm(good)}, label="rows copied before re-binding")


# ------------------------------------------------------------------------------------------------
def _canonical_query(ctx, rid, f0):
    """The query method in its canonical shape - three returns (two clamps, one interpolation), each value spelt at its return - with
    a single-entry MEMO (`if t == self.A: return self.B` ... `self.A = t; self.B = y`) taken out and reported separately.
    Returns (function to analyse, memo description or None)."""
    from engine.inline import clone, _mk, InlinedFunction
    from engine.srcmodel import set_parents
    selfn = f0.self_name
    tpar = [p for p in f0.params if p != selfn]
    if len(tpar) != 1:
        return f0, None
    tname = tpar[0]
    node = clone(f0.node)
    body = [st for st in node.body if not (isinstance(st, ast.Expr) and isinstance(st.value, ast.Constant))]

    def sattr(e):
        return e.attr if isinstance(e, ast.Attribute) and isinstance(e.value, ast.Name) and e.value.id == selfn else None

    def is_t(e):
        e = _strip_float(e)
        return isinstance(e, ast.Name) and e.id == tname
    memo = None
    for st in list(body):
        if isinstance(st, ast.If) and not st.orelse and len(st.body) == 1 and isinstance(st.body[0], ast.Return) and sattr(st.body[0].value) \
                and isinstance(st.test, ast.Compare) and len(st.test.ops) == 1 and isinstance(st.test.ops[0], ast.Eq):
            l, r = st.test.left, st.test.comparators[0]
            key = sattr(r) if is_t(l) else (sattr(l) if is_t(r) else None)
            if key:
                memo = {"key": key, "val": sattr(st.body[0].value), "hit": st}
                body.remove(st)
                break
    stores = []
    if memo:
        class _Strip(ast.NodeTransformer):
            def visit_Assign(self, st):
                if len(st.targets) == 1 and sattr(st.targets[0]) in (memo["key"], memo["val"]):
                    stores.append(st)
                    return None
                return st
        new_body = []
        for st in body:
            r = _Strip().visit(st)
            if r is not None:
                new_body.append(r)
        body = new_body
        memo["stores"] = stores
    # `if ..: y = a  elif ..: y = b  else: ...; y = c` followed by `return y`  ->  a return in every arm
    if body and isinstance(body[-1], ast.Return) and isinstance(body[-1].value, ast.Name) and len(body) >= 2 and isinstance(body[-2], ast.If):
        yname = body[-1].value.id

        def push(stmts):
            """turn the last statement of the block into a return of y's value; False if the block does not end in `y = e` / if-chain"""
            if not stmts:
                return False
            last = stmts[-1]
            if isinstance(last, ast.Assign) and len(last.targets) == 1 and isinstance(last.targets[0], ast.Name) and last.targets[0].id == yname:
                stmts[-1] = ast.copy_location(ast.Return(value=last.value), last)
                return True
            if isinstance(last, ast.If) and last.orelse:
                return push(last.body) and push(last.orelse)
            return False
        chain = body[-2]
        if chain.orelse and push(chain.body) and push(chain.orelse):
            body = body[:-1]
    node.body = body
    ast.fix_missing_locations(node)
    set_parents(node)
    node._parent = getattr(f0.node, "_parent", None)
    fi = _mk(InlinedFunction, f0, node)
    fi.origin = f0
    return fi, memo


def _memo_obligations(ctx, rid, f0, memo):
    """A single-entry memo of the query: the stored key is the query time, the stored value the answer returned for it, and an answer
    that is clamped to the NEWEST record - it changes with the next update - is never stored."""
    selfn = f0.self_name
    cfg = ctx.cfg(f0)
    tpar = [p for p in f0.params if p != selfn][0]

    def sattr(e):
        return e.attr if isinstance(e, ast.Attribute) and isinstance(e.value, ast.Name) and e.value.id == selfn else None
    stores = [st for st in cfg.stmts() if isinstance(st, ast.Assign) and len(st.targets) == 1 and sattr(st.targets[0]) in (memo["key"], memo["val"])]
    keys = [st for st in stores if sattr(st.targets[0]) == memo["key"]]
    vals = [st for st in stores if sattr(st.targets[0]) == memo["val"]]
    if not keys or not vals:
        raise AnalysisError(f"{rid}: the query memo `{memo['key']}` / `{memo['val']}` is consulted but never filled in __call__ (unrecognised form)")
    for st in keys:
        if not (isinstance(_strip_float(st.value), ast.Name) and _strip_float(st.value).id == tpar):
            ctx.violation(rid, f0, st, f"the memo key `{norm(st)}` is not the query time", label="query memo: key is the query time")
            return
    # the newest-record clamp: an if whose test compares the query with the last recorded time (>=, >)
    def is_tail_test(test):
        for c in ast.walk(_N(ctx, f0, test)):
            if isinstance(c, ast.Compare) and len(c.ops) == 1:
                sides = [c.left, c.comparators[0]]
                for a, b in (sides, sides[::-1]):
                    if isinstance(_strip_float(a), ast.Name) and _strip_float(a).id == tpar and isinstance(b, ast.Subscript) \
                            and _is_self_attr(b.value, selfn, "_t") and ast.unparse(b.slice) in ("-1", "self._n - 1"):
                        op = c.ops[0] if a is sides[0] else {ast.Lt: ast.Gt(), ast.LtE: ast.GtE(), ast.Gt: ast.Lt(), ast.GtE: ast.LtE()}.get(type(c.ops[0]), c.ops[0])
                        if isinstance(op, (ast.GtE, ast.Gt)):
                            return True
        return False
    tails = [s for s in cfg.stmts() if isinstance(s, ast.If) and is_tail_test(s.test)]
    if not tails:
        raise AnalysisError(f"{rid}: cannot find the newest-record clamp of __call__ to check the query memo against (unrecognised form)")
    bad = None
    for tl in tails:
        for st in vals:
            # a path from the clamp's TRUE arm to the store
            for succ in cfg.successors(tl, "true"):
                if succ is st or cfg.reachable(succ, st):
                    bad = (tl, st)
    if bad:
        tl, st = bad
        ctx.violation(rid, f0, st, f"`{norm(st)}` also memoises an answer that was clamped to the newest record (`{norm(tl)[:50]}`): that answer "
                                   f"changes with the next update, so a repeated query for the same time after an update returns the stale "
                                   f"old last record instead of the interpolant", label="query memo: only answers that cannot change are stored")
    else:
        ctx.ok(rid, f0, vals[0], "the query memo stores only answers before the newest record (append-only records cannot change them)",
               {"memo": [memo["key"], memo["val"]]}, label="query memo: only answers that cannot change are stored")


def r5_query(ctx, rid):
    f0 = get_method(ctx, _cls(ctx), "__call__")
    f, memo = _canonical_query(ctx, rid, f0)
    if memo:
        _memo_obligations(ctx, rid, f0, memo)
    selfn = f.self_name
    cfg = ctx.cfg(f)
    tpar = [p for p in f.params if p != selfn]
    ctx.require(len(tpar) == 1, f"{rid}: __call__ signature changed")
    tname = tpar[0]
    rets = sorted([s for s in cfg.stmts() if isinstance(s, ast.Return)], key=lambda s: s.lineno)
    ctx.require(len(rets) == 3, f"{rid}: expected 3 returns (two clamps + interpolation) in __call__, found {len(rets)}")

    def is_query(e):
        e = _strip_float(e)
        return isinstance(e, ast.Name) and e.id == tname

    def t_index(e):
        if isinstance(e, ast.Subscript) and _is_self_attr(e.value, selfn, "_t"):
            try:
                return ast.literal_eval(e.slice)
            except Exception:
                return None
        return None

    def guard_of(ret):
        g = [d for d in cfg.dominators(ret) if isinstance(d, ast.If) and any(contains(b, ret) for b in d.body)]
        return g[0] if g else None

    def cmp_parts(g):
        """(op, time-list index) with the query on the left-hand side (operands swapped if necessary)."""
        t = _N(ctx, f, g.test)
        if isinstance(t, ast.BoolOp) and isinstance(t.op, ast.And):
            # `t >= t[-1] and t > t[0]`: the extra conjunct only sends the single-record case (t == t[0] == t[-1]) to the lower clamp,
            # which returns the same row; the deciding conjunct is the comparison with the last recorded time
            subs_ = [cmp_parts(ast.If(test=v, body=[], orelse=[])) for v in t.values]
            last_ = [c for c in subs_ if c is not None and c[1] == -1]
            rest_ = [c for c in subs_ if c is None or c[1] != -1]
            if len(last_) == 1 and all(c is not None and c[1] == 0 and c[0] in (ast.Gt, ast.GtE) for c in rest_):
                return last_[0]
            return None
        if not (isinstance(t, ast.Compare) and len(t.ops) == 1):
            return None
        l, op, r = t.left, t.ops[0], t.comparators[0]
        swap = {ast.Lt: ast.Gt, ast.Gt: ast.Lt, ast.LtE: ast.GtE, ast.GtE: ast.LtE}
        if is_query(l) and t_index(r) is not None:
            return type(op), t_index(r)
        if is_query(r) and t_index(l) is not None and type(op) in swap:
            return swap[type(op)], t_index(l)
        return None
    # which return is which: by its guard, not by its position (a guard may carry extra conjuncts, e.g. `t >= t[-1] and t > t[0]`)
    def clamp_kind(ret):
        g_ = guard_of(ret)
        if g_ is None:
            return None
        t_ = _N(ctx, f, g_.test)
        parts_ = list(t_.values) if isinstance(t_, ast.BoolOp) and isinstance(t_.op, ast.And) else [t_]
        for c_ in parts_:
            fake = ast.If(test=c_, body=[], orelse=[])
            cp_ = cmp_parts(fake)
            if cp_ is not None and cp_[1] == 0 and cp_[0] in (ast.LtE, ast.Lt) and len(parts_) == 1:
                return "lo"
            if cp_ is not None and cp_[1] == -1 and cp_[0] in (ast.GtE, ast.Gt):
                return "hi"
        return None
    kinds_ = [clamp_kind(r) for r in rets]
    if sorted(k for k in kinds_ if k) == ["hi", "lo"] and kinds_.count(None) == 1:
        lo, hi, mid = rets[kinds_.index("lo")], rets[kinds_.index("hi")], rets[kinds_.index(None)]
    else:
        lo, hi, mid = rets
    # ---- lower clamp
    g = guard_of(lo)
    if g is None:
        raise AnalysisError(f"{rid}: first return of __call__ is not guarded by an if")
    cp = cmp_parts(g)
    lov = _N(ctx, f, lo.value)
    row0 = isinstance(lov, ast.Subscript) and _is_self_attr(lov.value, selfn, "_y") and isinstance(lov.slice, ast.Constant) and lov.slice.value == 0
    if cp is not None and cp[1] == 0 and cp[0] in (ast.LtE, ast.Lt) and row0:
        ctx.ok(rid, f, lo, "query at/before the first recorded time returns row 0", {"guard": norm(g)})
    else:
        ctx.violation(rid, f, lo, f"lower clamp is wrong: guard `{norm(g)}` must compare t with the first recorded time (t <= self._t[0]) "
                                  f"and return row 0", {"guard": norm(g), "returns": norm(lo)})
    # ---- upper clamp
    g = guard_of(hi)
    if g is None:
        raise AnalysisError(f"{rid}: second return of __call__ is not guarded by an if")
    cp = cmp_parts(g)
    hv = _N(ctx, f, hi.value)
    last_row = isinstance(hv, ast.Subscript) and _is_self_attr(hv.value, selfn, "_y") and isinstance(hv.slice, ast.BinOp) \
        and isinstance(hv.slice.op, ast.Sub) and _is_self_attr(hv.slice.left, selfn, "_n") and isinstance(hv.slice.right, ast.Constant) \
        and hv.slice.right.value == 1
    if cp is not None and cp[1] == -1 and cp[0] is ast.GtE and last_row:
        ctx.ok(rid, f, hi, "query at/after the last recorded time returns the last valid row n-1", {"guard": norm(g)})
    else:
        ctx.violation(rid, f, hi, f"upper clamp is wrong: guard `{norm(g)}` must be t >= self._t[-1] (strict > would index past the "
                                  f"time list at t == t_last) and return row self._n - 1 of the pre-allocated buffer (row -1 is unwritten memory)",
                      {"guard": norm(g), "returns": norm(hi)})
    # ---- interpolation
    B = sp.Symbol("B")      # bisect_right(self._t, t)
    tq = sp.Symbol(tname)

    def leaf(n):
        if isinstance(n, ast.Call) and call_name(n) in ("bisect_right", "bisect"):
            a = n.args
            if len(a) == 2 and not n.keywords and _is_self_attr(a[0], selfn, "_t") and is_query(a[1]):
                return B
            # explicit search bounds: the whole record [0, n) (lo 0, or 1 behind the lower clamp; hi = number of records) is the same
            # search; a lower bound remembered on the object by the query method itself hides every record before it
            if len(a) >= 2 and _is_self_attr(a[0], selfn, "_t") and (is_query(a[1]) or (isinstance(a[1], ast.Call) and call_name(a[1]) == "float"
                                                                                      and len(a[1].args) == 1 and is_query(a[1].args[0]))):
                bounds = dict(zip(("lo", "hi"), a[2:4]))
                bounds.update({k.arg: k.value for k in n.keywords if k.arg in ("lo", "hi")})
                lo_e, hi_e = bounds.get("lo"), bounds.get("hi")
                lo_ok = lo_e is None or (isinstance(lo_e, ast.Constant) and lo_e.value in (0, 1))
                hi_ok = hi_e is None or _is_self_attr(hi_e, selfn, "_n") or (isinstance(hi_e, ast.Call) and call_name(hi_e) == "len"
                                                                              and len(hi_e.args) == 1 and _is_self_attr(hi_e.args[0], selfn, "_t"))
                if lo_ok and hi_ok and len(a) <= 4 and all(k.arg in ("lo", "hi") for k in n.keywords):
                    return B
                if lo_e is not None and isinstance(lo_e, ast.Attribute) and isinstance(lo_e.value, ast.Name) and lo_e.value.id == selfn \
                        and any(isinstance(w, ast.Attribute) and isinstance(w.ctx, ast.Store) and w.attr == lo_e.attr and isinstance(w.value, ast.Name)
                                and w.value.id == selfn for w in ast.walk(f.node)):
                    ctx.violation(rid, f, n, f"`{ast.unparse(n)}` starts the interval search at `{ast.unparse(lo_e)}`, a position the query method itself "
                                             f"stores on the object: a query earlier than the previous one (second delay, rejected step, any "
                                             f"non-monotone order) cannot reach the records before it and is answered from the wrong interval",
                                  label="interval search restricted by a remembered position")
                    return B
            raise AnalysisError(f"{rid}: unrecognised bisect call {ast.unparse(n)}")
        if isinstance(n, ast.Call) and call_name(n) == "bisect_left":
            return sp.Symbol("B_left")
        if isinstance(n, ast.Call) and call_name(n) == "float" and len(n.args) == 1 and is_query(n.args[0]):
            return tq
        if isinstance(n, ast.Call) and any(isinstance(a, ast.Constant) and isinstance(a.value, str) for a in n.args):
            return sp.Symbol("opaque_" + "".join(ch if ch.isalnum() else "_" for ch in ast.unparse(n))[:60])
        return None
    nm = _N(ctx, f, mid.value)

    def alternatives(e, limit=8):
        """Case split on conditional sub-expressions: [(conditions [(test, polarity)], expression without IfExp)]."""
        import copy as _copy
        alts = [([], e)]
        for _ in range(limit):
            progressed = False
            nxt = []
            for conds, x in alts:
                tgt = next((n for n in ast.walk(x) if isinstance(n, ast.IfExp)), None)
                if tgt is None:
                    nxt.append((conds, x))
                    continue
                progressed = True
                for pol, arm in ((True, tgt.body), (False, tgt.orelse)):
                    class _Rp(ast.NodeTransformer):
                        def visit_IfExp(self, n):
                            if ast.dump(n) == ast.dump(tgt):
                                return _copy.deepcopy(arm)
                            return self.generic_visit(n)
                    nxt.append((conds + [(tgt.test, pol)], _Rp().visit(_copy.deepcopy(x))))
            alts = nxt
            if not progressed:
                break
            if len(alts) > 2 ** limit:
                raise AnalysisError(f"{rid}: too many conditional alternatives in the interpolation return")
        return alts

    def literals(conds):
        """Comparisons known to hold: (sympy lhs, op, sympy rhs) with op in <,<=,>,>=."""
        out = []
        neg = {ast.Lt: ast.GtE, ast.LtE: ast.Gt, ast.Gt: ast.LtE, ast.GtE: ast.Lt}

        def add(t, pol):
            if isinstance(t, ast.UnaryOp) and isinstance(t.op, ast.Not):
                return add(t.operand, not pol)
            if isinstance(t, ast.BoolOp) and ((isinstance(t.op, ast.And) and pol) or (isinstance(t.op, ast.Or) and not pol)):
                for v in t.values:
                    add(v, pol)
                return
            if isinstance(t, ast.Compare):
                items = [t.left] + list(t.comparators)
                if not pol and len(t.ops) > 1:
                    return
                for l, op, r in zip(items, t.ops, items[1:]):
                    o = type(op) if pol else neg.get(type(op))
                    if o in neg:
                        try:
                            out.append((symx.to_sympy(l, leaf=leaf), o, symx.to_sympy(r, leaf=leaf)))
                        except symx.Unsupported:
                            pass
        for t, pol in conds:
            add(t, pol)
        return out
    i = B - 1
    Tf = sp.Function(f"{selfn}._t")
    verdicts = []
    for conds, alt in alternatives(nm):
        try:
            expr = symx.to_sympy(alt, leaf=leaf)
        except symx.Unsupported as e:
            raise AnalysisError(f"{rid}: interpolation return has an unsupported form: {e}")
        if symx.is_linear_interpolant(expr, q=tq, Y=f"{selfn}._y", X=f"{selfn}._t", lo=i, hi=i + 1):
            verdicts.append((True, "bisect bracket", expr))
            continue
        # a bracket index that is not bisect-derived (cached / guessed) is right only under the guard T[j] <= t < T[j+1]
        cands = {a.args[0] for a in expr.atoms(sp.Function) if a.func == sp.Function(f"{selfn}._y") and len(a.args) == 1}
        j = next((c for c in cands if symx.is_linear_interpolant(expr, q=tq, Y=f"{selfn}._y", X=f"{selfn}._t", lo=c, hi=c + 1)), None)
        if j is None:
            verdicts.append((False, "not the linear interpolation between two neighbouring records", expr))
            continue
        lits = literals(conds)
        lower = any((l == tq and o in (ast.GtE, ast.Gt) and sp.simplify(r - Tf(j)) == 0) or
                    (r == tq and o in (ast.LtE, ast.Lt) and sp.simplify(l - Tf(j)) == 0) for l, o, r in lits)
        upper = any((l == tq and o in (ast.Lt, ast.LtE) and sp.simplify(r - Tf(j + 1)) == 0) or
                    (r == tq and o in (ast.Gt, ast.GtE) and sp.simplify(l - Tf(j + 1)) == 0) for l, o, r in lits)
        if lower and upper:
            verdicts.append((True, f"bracket {j} guarded by T[j] <= t < T[j+1]", expr))
        else:
            verdicts.append((False, f"uses the bracket index `{j}` that is neither bisect_right(times, t) - 1 nor guarded by "
                                    f"times[j] <= t < times[j+1] (lower bound checked: {lower}, upper bound checked: {upper})", expr))
    facts = {"alternatives": [{"ok": ok, "why": why, "normalised": str(sp.simplify(x))[:240]} for ok, why, x in verdicts],
             "reference": "Y(B-1) + (t - T(B-1))/(T(B) - T(B-1)) * (Y(B) - Y(B-1)),  B = bisect_right(T, t)"}
    bad = [why for ok, why, _ in verdicts if not ok]
    if not bad:
        ctx.ok(rid, f, mid, "interior query normalises to the linear interpolant between the neighbouring records", facts)
    else:
        ctx.violation(rid, f, mid, "interior query is not the linear interpolation between records bisect_right(times,t)-1 and its successor: "
                      + "; ".join(bad), facts)
    # the query time is only converted to float before the lookup
    for s in cfg.stmts():
        if isinstance(s, (ast.Assign, ast.AugAssign)):
            tg = s.targets if isinstance(s, ast.Assign) else [s.target]
            if any(isinstance(x, ast.Name) and x.id == tname for x in tg):
                if isinstance(s, ast.Assign) and is_query(s.value):
                    ctx.ok(rid, f, s, "query time only converted to float", nontrivial=False)
                else:
                    ctx.violation(rid, f, s, "the query time is modified before the lookup")


def r6_update_time_is_recorded_unchanged(ctx, rid):
    """The recorded time is the `t` that was passed (float(t)), and __init__ records t0 / row 0 / n = 1."""
    cls = _cls(ctx)
    f = get_method(ctx, cls, "update")
    selfn = f.self_name
    tparam = [p for p in f.params if p != selfn][0]
    n_app = 0
    for s in walk_shallow(f.node):
        if isinstance(s, ast.Expr) and isinstance(s.value, ast.Call) and isinstance(s.value.func, ast.Attribute) and s.value.func.attr == "append" \
                and _is_self_attr(_N(ctx, f, s.value.func.value), selfn, "_t"):
            n_app += 1
            a = s.value.args
            v = _strip_float(_N(ctx, f, a[0])) if len(a) == 1 else None
            good = isinstance(v, ast.Name) and v.id == tparam
            (ctx.ok if good else ctx.violation)(rid, f, s, "the recorded time is the update's t" if good else
                                                "the recorded time is not the t passed to update()")
    ctx.require(n_app >= 1, f"{rid}: update() no longer appends to the time list")
    init = get_method(ctx, cls, "__init__")
    sn = init.self_name
    n_init = [s for s in walk_shallow(init.node) if isinstance(s, ast.Assign) and any(_is_self_attr(t, sn, "_n") for t in s.targets)]
    row0 = [s for s in walk_shallow(init.node) if isinstance(s, ast.Assign) and len(s.targets) == 1 and isinstance(s.targets[0], ast.Subscript)
            and _is_buffer(ctx, init, s.targets[0].value, sn)]
    t_init = [s for s in walk_shallow(init.node) if isinstance(s, ast.Assign) and any(_is_self_attr(t, sn, "_t") for t in s.targets)]
    ctx.require(len(n_init) == 1 and len(row0) == 1 and len(t_init) == 1, f"{rid}: unrecognised initialisation in DDEHistory.__init__")
    nv = _N(ctx, init, n_init[0].value)
    iv = _N(ctx, init, row0[0].targets[0].slice)
    tv = _N(ctx, init, t_init[0].value)
    good = isinstance(nv, ast.Constant) and nv.value == 1 and isinstance(iv, ast.Constant) and iv.value == 0 \
        and isinstance(tv, ast.List) and len(tv.elts) == 1
    if good:
        ctx.ok(rid, init, n_init[0], "initial record: one time, row 0, n = 1")
    else:
        ctx.violation(rid, init, n_init[0], "the initial record is inconsistent (times list, row 0 and n = 1 must describe one record)")


RULES = [
    ("C19-R1", r1_records_are_copies, 4),
    ("C19-R2", r2_state_advances_together, 2),
    ("C19-R3", r3_bounded_history_refuses, 3),
    ("C19-R4", r4_growth_keeps_records, 3),
    ("C19-R5", r5_query, 3),
    ("C19-R6", r6_update_time_is_recorded_unchanged, 2),
]
