"""Index-role typing (DESIGN §4 C16-R1): a two-point type system Src / Tgt over index-valued expressions of one function.

Everything is computed from the AST, the CFG reaching definitions of the engine and a frozen table of role-preserving
library calls.  Nothing here reports obligations; `rules/c16.py` enumerates the sinks and asks `Roles.role(expr)`.

Role values
    None            no role known (neutral)
    'S' / 'T'       source side / target side (an index, a list of indices, a count, a node list, a variable path)
    'W'             a weight container: rows are targets, columns are sources
    'X'             mixed: both 'S' and 'T' reach this expression
    ('tup', r0, r1, ...)        a tuple whose elements have the given roles (zip element, `W.shape`)
    ('open', (r0, ...), r)      a tuple with known prefix and all further elements of role r
"""
from __future__ import annotations

import ast
from typing import Dict, Optional

from engine.srcmodel import walk_shallow, parent
from engine.util import call_name

SRC, TGT, WGT, MIX = "S", "T", "W", "X"

# names that carry a role when they name a dict key, an attribute, a keyword or a parameter
SRC_NAMES = {"source_idx", "source_nodes", "sidx", "Ns", "n_source", "source_var", "source", "svar", "snode", "sop"}
TGT_NAMES = {"target_idx", "target_nodes", "tidx", "Nt", "n_target", "target_var", "target", "tvar", "tnode", "top"}
WGT_NAMES = {"weight", "weights"}
# string constants that name a generated index constant / the weight constant
STRING_SEEDS = {"source_idx": SRC, "target_idx": TGT, "weight": WGT}

# calls whose result denotes the same side as their (first) argument / receiver
PRESERVE_FUNCS = {"unique", "asarray", "array", "list", "tuple", "sorted", "int", "float", "deepcopy", "copy", "str",
                  "_relabel_var", "squeeze", "flatten", "ravel", "atleast_1d"}
PRESERVE_METHODS = {"squeeze", "split", "copy", "flatten", "ravel", "tolist", "astype"}
MODULE_ALIASES = {"np", "_np", "numpy", "copy", "jnp", "torch"}
ALLOC = {"zeros", "ones", "empty", "full"}


def seed_of(name: Optional[str]):
    if name in SRC_NAMES:
        return SRC
    if name in TGT_NAMES:
        return TGT
    if name in WGT_NAMES:
        return WGT
    return None


def opposite(r):
    return {SRC: TGT, TGT: SRC}.get(r)


def show(r) -> str:
    return {None: "none", SRC: "Src", TGT: "Tgt", WGT: "Weight", MIX: "Src+Tgt (mixed)"}.get(r, str(r)) if not isinstance(r, tuple) else str(r)


def join(*rs):
    out = None
    for r in rs:
        if r is None:
            continue
        if out is None or out == r:
            out = r
        elif isinstance(out, tuple) or isinstance(r, tuple):
            return None
        elif {out, r} <= {SRC, TGT, MIX}:
            out = MIX
        else:
            # a weight joined with an index role: no single role
            return None
    return out


def string_seed(text: str):
    for k, r in STRING_SEEDS.items():
        if text == k or text.startswith(k + "_"):
            return r
    return None


# ------------------------------------------------------------------------------------------------
# generic, name-independent helpers shared by rules/c04.py and rules/c16.py
# ------------------------------------------------------------------------------------------------

def split_literals(test: ast.AST, pol: bool, out: list):
    """`test` holds with polarity `pol`: append its conjunct literals (expr, polarity) to `out`.  Negations are pushed through
    not/and/or (De Morgan); a remaining disjunction stays one (BoolOp, polarity) literal that no recogniser will match."""
    if isinstance(test, ast.UnaryOp) and isinstance(test.op, ast.Not):
        return split_literals(test.operand, not pol, out)
    if isinstance(test, ast.BoolOp) and (isinstance(test.op, ast.And) == pol):
        for x in test.values:
            split_literals(x, pol, out)
        return
    if not pol and isinstance(test, ast.Compare) and len(test.ops) == 1 and type(test.ops[0]) in _NEGATED:
        # not (a != b)  ==  a == b : keep every literal that has an exact positive spelling positive
        flipped = ast.Compare(left=test.left, ops=[_NEGATED[type(test.ops[0])]()], comparators=test.comparators)
        ast.copy_location(flipped, test)
        flipped._parent = getattr(test, "_parent", None)
        out.append((flipped, True))
        return
    out.append((test, pol))


_NEGATED = {ast.Eq: ast.NotEq, ast.NotEq: ast.Eq, ast.In: ast.NotIn, ast.NotIn: ast.In, ast.Is: ast.IsNot, ast.IsNot: ast.Is}


def _reach_forward(cfg, a, b) -> bool:
    """b reachable from a without taking a loop back edge (i.e. within the same iteration)."""
    seen = {a}
    stack = [a]
    while stack:
        n = stack.pop()
        if n is b:
            return True
        for s in cfg.g.successors(n):
            if "back" in cfg.g[n][s]["labels"] or s in seen:
                continue
            seen.add(s)
            stack.append(s)
    return False


def branch_reaching(cfg, g: ast.stmt, st: ast.stmt):
    """Which outcome of the test of `g` (If/While) leads to `st` inside one iteration: True / False / None (both or neither)."""
    def out(label):
        return [x for x in cfg.successors(g, label) if "back" not in cfg.g[g][x]["labels"]]
    t = any(_reach_forward(cfg, x, st) for x in out("true"))
    f = any(_reach_forward(cfg, x, st) for x in out("false"))
    if t == f:
        return None
    return t


def path_literals(cfg, st: ast.stmt, expr: Optional[ast.AST] = None):
    """Conjunction of test literals [(expr, polarity)] that hold whenever statement `st` (and, if given, the sub-expression `expr`
    of it, which may sit in one arm of conditional expressions) is evaluated: dominating if/while tests with the outcome that
    leads here - early returns, `continue` guards and nested ifs all reduce to this - plus enclosing `a if t else b` tests."""
    out: list = []
    for g in cfg.dominators(st):
        if g is st or not isinstance(g, (ast.If, ast.While)):
            continue
        pol = branch_reaching(cfg, g, st)
        if pol is None:
            continue
        split_literals(g.test, pol, out)
    n = expr
    while n is not None and n is not st:
        p = parent(n)
        if isinstance(p, ast.IfExp) and n is not p.test:
            split_literals(p.test, n is p.body, out)
        n = p
    return out


def bind_args(call: ast.Call, g) -> Optional[Dict[str, ast.AST]]:
    """parameter name -> argument expression for a call of repository function `g` (defaults included); None for */** forwarding."""
    if any(isinstance(a, ast.Starred) for a in call.args) or any(k.arg is None for k in call.keywords):
        return None
    params = list(g.params)
    if g.cls is not None and not g.is_static and params and not (isinstance(call.func, ast.Attribute) and isinstance(call.func.value, ast.Name)
                                                                  and call.func.value.id == g.cls.name):
        params = params[1:]
    binding: Dict[str, ast.AST] = {}
    for i, a in enumerate(call.args):
        if i < len(params):
            binding[params[i]] = a
    for k in call.keywords:
        binding[k.arg] = k.value
    a = g.node.args
    pos = [x.arg for x in a.posonlyargs + a.args]
    for i, dflt in enumerate(a.defaults):
        binding.setdefault(pos[len(pos) - len(a.defaults) + i], dflt)
    for x, dflt in zip(a.kwonlyargs, a.kw_defaults):
        if dflt is not None:
            binding.setdefault(x.arg, dflt)
    return binding


def private_helper(ctx, f, call: ast.Call):
    """The single repository function a call resolves to when it is a helper of the calling code: a nested def, a function of the
    same module or a method of the same class hierarchy reached through self/cls/the class name.  None otherwise."""
    try:
        targets, how = ctx.cg.resolve_call(f, call)
    except Exception:
        return None
    if len(targets) != 1 or how not in ("local-def", "module", "qualified", "dispatch", "by-name"):
        return None
    g = targets[0]
    if g is f or g.module is not f.module:
        return None
    if how in ("dispatch", "by-name"):
        recv = call.func.value if isinstance(call.func, ast.Attribute) else None
        if not isinstance(recv, ast.Name):
            return None
        if how == "dispatch":
            if recv.id != (f.self_name or ""):
                return None
        else:
            # a closure inside a method calling `self.helper(...)`: `self` is the enclosing method's receiver
            p = getattr(f, "parent", None)
            while p is not None and p.cls is None:
                p = getattr(p, "parent", None)
            if p is None or recv.id != (p.self_name or "") or g.cls is None or g.cls not in getattr(p.cls, "mro", [p.cls]):
                return None
    return g


# callees that are sinks / role-preserving anchors of the role rules themselves: they stay calls in the inlined view
VIEW_KEEP = ("_get_indexed_var_str", "_relabel_var")


def view(ctx, f):
    """The function as the role rules read it: engine.inline.inlined(f) - private helpers called in statement position are spliced
    in, so roles flow through extracted blocks as through ordinary locals.  Obligations are reported under the original f."""
    if getattr(f, "origin", None) is not None:
        return f
    cache = ctx.__dict__.setdefault("_roles_views", {})
    key = f.qual
    if key not in cache:
        from engine.inline import inlined
        try:
            cache[key] = inlined(ctx, f, keep=VIEW_KEEP)
        except Exception:
            cache[key] = f
    return cache[key]


class Roles:
    """Role inference for the expressions of one function.  `param_roles` carries the roles of the arguments when the function is
    analysed as a helper of a typed caller (the roles the parameter names declare are joined with them)."""

    def __init__(self, ctx, f, param_roles: Optional[dict] = None, depth: int = 0):
        self.ctx = ctx
        self.f = f
        self.rd = ctx.rd(f)
        self.params = set(f.params)
        self.param_roles = dict(param_roles or {})
        self.depth = depth
        self._memo: Dict = {}
        self._busy = set()
        # flow-insensitive container growth: name -> [appended expr]
        self.grow: Dict[str, list] = {}
        for n in walk_shallow(f.node):
            if isinstance(n, ast.Call) and isinstance(n.func, ast.Attribute) and n.func.attr in ("append", "extend") \
                    and isinstance(n.func.value, ast.Name) and len(n.args) == 1:
                self.grow.setdefault(n.func.value.id, []).append(n.args[0])
            if isinstance(n, ast.AugAssign) and isinstance(n.op, ast.Add) and isinstance(n.target, ast.Name):
                self.grow.setdefault(n.target.id, []).append(n.value)

    # ---- public -----------------------------------------------------------------------------
    def role(self, e: ast.AST, env: Optional[dict] = None):
        env = env or {}
        key = (id(e), tuple(sorted(env.items(), key=lambda kv: kv[0])))
        if key in self._memo:
            return self._memo[key]
        if key in self._busy:
            return None
        self._busy.add(key)
        try:
            r = self._role(e, env)
        finally:
            self._busy.discard(key)
        self._memo[key] = r
        return r

    def atom(self, e, env=None):
        r = self.role(e, env)
        return r if not isinstance(r, tuple) else None

    # ---- iteration --------------------------------------------------------------------------
    def elem_role(self, it: ast.AST, env):
        """Role structure of one element obtained by iterating `it`."""
        if isinstance(it, ast.Call):
            cn = call_name(it)
            if cn == "zip":
                return ("tup",) + tuple(self.elem_role(a, env) for a in it.args)
            if cn == "enumerate" and it.args:
                inner = self.elem_role(it.args[0], env)
                return ("tup", inner if not isinstance(inner, tuple) else None, inner)
            if cn in ("range", "arange") and len(it.args) == 1:
                return self.atom(it.args[0], env)
            if cn in ("items", "keys", "values"):
                return None
        if isinstance(it, (ast.Tuple, ast.List)):
            return join(*[self.atom(x, env) for x in it.elts])
        # a container grown by `.append(<tuple>)` has elements of that tuple structure
        return self.role(it, env)

    def destructure(self, target: ast.AST, struct, name: str):
        """Role that `name` receives when `target` is bound to a value of role structure `struct`."""
        if isinstance(target, ast.Name):
            return struct if target.id == name else None
        if isinstance(target, ast.Starred):
            return None
        if isinstance(target, (ast.Tuple, ast.List)):
            n = len(target.elts)
            if isinstance(struct, tuple) and struct[0] == "tup" and len(struct) - 1 == n:
                parts = struct[1:]
            elif isinstance(struct, tuple) and struct[0] == "open":
                pre = list(struct[1])
                parts = (pre + [struct[2]] * n)[:n]
            elif struct in (SRC, TGT):
                parts = [struct] * n
            else:
                parts = [None] * n
            for t, p in zip(target.elts, parts):
                if any(isinstance(x, ast.Name) and x.id == name for x in ast.walk(t)):
                    return self.destructure(t, p, name)
        return None

    # ---- the evaluator ----------------------------------------------------------------------
    def _name(self, n: ast.Name, env):
        if n.id in env:
            return env[n.id]
        if n.id in self.params and n.id in self.param_roles:
            # helper analysed under a typed call: the argument's role joined with what the parameter's name declares
            if all(isinstance(d, ast.arguments) for d in self.rd.defs_reaching(n)):
                return join(seed_of(n.id), self.param_roles[n.id])
        if n.id in self.params and seed_of(n.id) is not None:
            return seed_of(n.id)            # a parameter keeps the role its name declares (e.g. target_nodes = source_nodes default)
        defs = self.rd.defs_reaching(n)
        if not defs:
            return None
        rs = []
        empty_container = False
        for d in defs:
            if isinstance(d, ast.arguments):
                rs.append(join(seed_of(n.id), self.param_roles.get(n.id)))
            elif isinstance(d, ast.Assign):
                got = None
                for t in d.targets:
                    if isinstance(t, ast.Name) and t.id == n.id:
                        got = self.role(d.value, env)
                        if isinstance(d.value, (ast.List, ast.Dict)) and not getattr(d.value, "elts", getattr(d.value, "keys", None)):
                            empty_container = True
                        if isinstance(d.value, ast.Call) and call_name(d.value) in ("list", "dict") and not d.value.args:
                            empty_container = True
                    elif isinstance(t, (ast.Tuple, ast.List)) and any(isinstance(x, ast.Name) and x.id == n.id for x in ast.walk(t)):
                        if isinstance(d.value, (ast.Tuple, ast.List)) and len(d.value.elts) == len(t.elts):
                            for te, ve in zip(t.elts, d.value.elts):
                                if isinstance(te, ast.Name) and te.id == n.id:
                                    got = self.role(ve, env)
                                    if isinstance(ve, (ast.List, ast.Dict)) and not getattr(ve, "elts", getattr(ve, "keys", None)):
                                        empty_container = True
                                elif any(isinstance(x, ast.Name) and x.id == n.id for x in ast.walk(te)):
                                    got = self.destructure(te, self.role(ve, env), n.id)
                        else:
                            got = self.destructure(t, self.role(d.value, env), n.id)
                rs.append(got)
            elif isinstance(d, ast.AnnAssign) and d.value is not None:
                rs.append(self.role(d.value, env))
            elif isinstance(d, (ast.For, ast.AsyncFor)):
                rs.append(self.destructure(d.target, self.elem_role(d.iter, env), n.id))
            elif isinstance(d, ast.AugAssign):
                empty_container = True
            else:
                rs.append(None)
        r = join(*rs)
        if r is None and empty_container and n.id in self.grow:
            r = join(*[self.role(x, env) for x in self.grow[n.id]])
        return r

    def _role(self, e, env):
        if isinstance(e, ast.Name):
            return self._name(e, env) if isinstance(e.ctx, ast.Load) else None
        if isinstance(e, ast.Constant):
            return string_seed(e.value) if isinstance(e.value, str) else None
        if isinstance(e, ast.JoinedStr):
            rs = [self.atom(v.value, env) for v in e.values if isinstance(v, ast.FormattedValue)]
            if e.values and isinstance(e.values[0], ast.Constant) and isinstance(e.values[0].value, str):
                rs.append(string_seed(e.values[0].value))
            return join(*rs)
        if isinstance(e, ast.Attribute):
            if e.attr == "shape" and self.atom(e.value, env) == WGT:
                return ("tup", TGT, SRC)
            if e.attr == "T":
                return None
            return seed_of(e.attr)
        if isinstance(e, ast.Subscript):
            k = e.slice
            if isinstance(k, ast.Constant) and isinstance(k.value, str):
                return seed_of(k.value)
            base = self.role(e.value, env)
            if isinstance(base, tuple):
                parts = base[1:] if base[0] == "tup" else None
                if isinstance(k, ast.Constant) and isinstance(k.value, int):
                    if parts is not None and -len(parts) <= k.value < len(parts):
                        return parts[k.value]
                if isinstance(k, ast.Slice) and parts is not None and k.step is None \
                        and all(b is None or (isinstance(b, ast.Constant) and isinstance(b.value, int)) for b in (k.lower, k.upper)):
                    lo = k.lower.value if k.lower is not None else None       # names[:3] keeps the roles of the selected positions
                    hi = k.upper.value if k.upper is not None else None
                    return ("tup",) + tuple(parts[lo:hi])
                return None
            return base if base in (SRC, TGT, WGT) else None
        if isinstance(e, ast.Starred):
            return self.role(e.value, env)
        if isinstance(e, ast.List):
            return join(*[self.atom(x, env) for x in e.elts])
        if isinstance(e, ast.Tuple):
            return ("tup",) + tuple(self.role(x, env) for x in e.elts)
        if isinstance(e, ast.IfExp):
            return join(self.role(e.body, env), self.role(e.orelse, env))
        if isinstance(e, (ast.ListComp, ast.GeneratorExp, ast.SetComp)):
            env2 = dict(env)
            for g in e.generators:
                struct = self.elem_role(g.iter, env2)
                for x in ast.walk(g.target):
                    if isinstance(x, ast.Name):
                        r = self.destructure(g.target, struct, x.id)
                        env2[x.id] = r if not isinstance(r, tuple) else None
            return self.atom(e.elt, env2)
        if isinstance(e, ast.BinOp):
            l, r = self.role(e.left, env), self.role(e.right, env)
            if isinstance(e.op, ast.Add) and isinstance(l, tuple) and l[0] == "tup" and not isinstance(r, tuple) and r is not None:
                return ("open", tuple(l[1:]), r)
            if isinstance(l, tuple) or isinstance(r, tuple):
                return None
            return l if (l is not None and l == r) else None
        if isinstance(e, ast.Call):
            return self._call(e, env)
        return None

    def _call(self, c: ast.Call, env):
        cn = call_name(c)
        fn = c.func
        recv = fn.value if isinstance(fn, ast.Attribute) else None
        recv_is_module = isinstance(recv, ast.Name) and recv.id in MODULE_ALIASES
        recv_is_self = isinstance(recv, ast.Name) and recv.id == (self.f.self_name or "")
        if cn in ("pop", "get") and recv is not None and c.args and isinstance(c.args[0], ast.Constant) \
                and isinstance(c.args[0].value, str):
            return seed_of(c.args[0].value)
        if cn == "len" and len(c.args) == 1:
            r = self.atom(c.args[0], env)
            return r if r in (SRC, TGT, MIX) else None
        if cn in ("range", "arange") and len(c.args) == 1:
            r = self.atom(c.args[0], env)
            return r if r in (SRC, TGT, MIX) else None
        if cn == "argwhere" and len(c.args) == 1 and isinstance(c.args[0], ast.Compare) and len(c.args[0].ops) == 1 \
                and isinstance(c.args[0].ops[0], ast.Eq):
            return join(self.atom(c.args[0].left, env), self.atom(c.args[0].comparators[0], env))
        if cn in ALLOC and c.args and (recv is None or recv_is_module):
            sh = c.args[0]
            if isinstance(sh, ast.Tuple) and len(sh.elts) == 2:
                a, b = self.atom(sh.elts[0], env), self.atom(sh.elts[1], env)
                if a == TGT and b == SRC:
                    return WGT
            return None
        if cn == "_get_indexed_var_str":
            rs = [self.atom(a, env) for a in c.args] + [self.atom(k.value, env) for k in c.keywords]
            return join(*[r for r in rs if r in (SRC, TGT, MIX)])
        if recv is not None and not recv_is_module and not recv_is_self and cn in PRESERVE_METHODS:
            return self.role(recv, env)
        if cn in PRESERVE_FUNCS and c.args and (recv is None or recv_is_module or recv_is_self):
            return self.role(c.args[0], env)
        return self._helper_return(c, env)

    # ---- look through extracted helpers -------------------------------------------------------
    def helper_roles(self, c: ast.Call, env=None):
        """(helper FunctionInfo, {parameter: role}) when `c` calls a private helper of this function with at least one typed
        argument; None otherwise."""
        if self.depth >= 2:
            return None
        g = private_helper(self.ctx, self.f, c)
        if g is None:
            return None
        binding = bind_args(c, g)
        if binding is None:
            return None
        proles = {}
        for p, a in binding.items():
            r = self.role(a, env)
            if r is not None:
                proles[p] = r
        if not any(r in (SRC, TGT, WGT, MIX) or isinstance(r, tuple) for r in proles.values()):
            return None
        return g, proles

    def _helper_return(self, c: ast.Call, env):
        hr = self.helper_roles(c, env)
        if hr is None:
            return None
        g, proles = hr
        gv = view(self.ctx, g)
        sub = Roles(self.ctx, gv, proles, self.depth + 1)
        rets = [s.value for s in walk_shallow(gv.node) if isinstance(s, ast.Return) and s.value is not None]
        if not rets:
            return None
        r = join(*[sub.role(v) for v in rets])
        return None if r == MIX else r


# ------------------------------------------------------------------------------------------------
# buffered accumulation through fancy indexing (shared by C04-R12 and offered to C01)
# ------------------------------------------------------------------------------------------------

_INDEX_ARRAY_CALLS = {"ravel", "flatten", "arange", "nonzero", "flatnonzero", "where", "unique", "asarray", "array", "astype", "tolist", "list",
                      "argsort", "searchsorted", "repeat", "tile", "concatenate", "digitize"}


def index_arrayness(ctx, f, e, depth=0):
    """True: `e` is positively an ARRAY of positions (may repeat a position); False: positively one scalar position; None: unknown."""
    from engine.dataflow import assigned_value
    if depth > 4:
        return None
    if isinstance(e, ast.Constant):
        return False
    if isinstance(e, (ast.List, ast.ListComp, ast.GeneratorExp)):
        return True
    if isinstance(e, ast.Slice):
        return None                      # a plain slice never repeats a position
    if isinstance(e, ast.Subscript):
        if isinstance(e.slice, ast.Slice):
            return index_arrayness(ctx, f, e.value, depth + 1)
        return None
    if isinstance(e, ast.Call):
        cn = call_name(e)
        if cn in ("int", "len") and not isinstance(e.func, ast.Attribute):
            return False
        if cn in _INDEX_ARRAY_CALLS:
            return True
        return None
    if isinstance(e, ast.Name) and getattr(e, "_parent", None) is not None:
        defs = ctx.rd(f).defs_reaching(e)
        if not defs:
            return None
        kinds = []
        for d in defs:
            if isinstance(d, (ast.For, ast.AsyncFor)):
                kinds.append(False)                              # one element per iteration
            elif isinstance(d, (ast.Assign, ast.AnnAssign)):
                v = assigned_value(d, e.id)
                if v is not None:
                    kinds.append(index_arrayness(ctx, f, v, depth + 1))
                elif isinstance(d, ast.Assign) and isinstance(d.value, ast.Call) and call_name(d.value) == "unique" \
                        and any(k.arg in ("return_inverse", "return_index") for k in d.value.keywords):
                    kinds.append(True)                           # uniq, inverse = np.unique(x, return_inverse=True)
                else:
                    kinds.append(None)
            else:
                kinds.append(None)
        if all(k is True for k in kinds):
            return True
        if all(k is False for k in kinds):
            return False
        return None
    return None


def buffered_fancy_accumulations(ctx, f):
    """[(statement, index expr)] for `A[<index arrays>] += v` / `-=`: numpy evaluates the right-hand side once per DISTINCT position
    (the read-modify-write is buffered), so contributions that address the same position twice are applied only once - unlike a loop,
    np.add.at or bincount.  Only statements whose index is positively an array of positions are returned."""
    out = []
    for st in walk_shallow(f.node):
        if isinstance(st, ast.AugAssign) and isinstance(st.op, (ast.Add, ast.Sub)) and isinstance(st.target, ast.Subscript):
            idx = st.target.slice
            elts = idx.elts if isinstance(idx, ast.Tuple) else [idx]
            for x in elts:
                if index_arrayness(ctx, f, x) is True:
                    out.append((st, x))
                    break
    return out


def accumulation_sites(ctx, f):
    """all element-wise accumulations into a subscripted array in f: [('augassign'|'add.at', node)]"""
    out = []
    for st in walk_shallow(f.node):
        if isinstance(st, ast.AugAssign) and isinstance(st.op, (ast.Add, ast.Sub)) and isinstance(st.target, ast.Subscript):
            out.append(("augassign", st))
        if isinstance(st, ast.Call) and call_name(st) == "at" and isinstance(st.func, ast.Attribute) and isinstance(st.func.value, ast.Attribute) \
                and st.func.value.attr in ("add", "subtract"):
            out.append(("add.at", st))
    return out
