"""C12 — get_jacobian_func returns the derivative of get_run_func (DESIGN §4 C12)."""
from __future__ import annotations

import ast
import re
from dataclasses import dataclass, field
from typing import Dict, List, Optional, Tuple

import sympy as sp

from engine import AnalysisError, symx
from engine.srcmodel import walk_shallow, norm, parent, ancestors
from engine.util import call_name, is_attr_of, contains, in_body

PROPERTY = "C12"
CG = "pyrates/backend/computegraph.py"
BASE = "pyrates/backend/base/base_backend.py"
FORT = "pyrates/backend/fortran/fortran_backend.py"

EXPLANATION = (
    "Correctness of sympy.diff is library semantics; what is decided is WHERE Jacobian entries are written and from what.  "
    "R1 provenance of every Jacobian row/column index: at each store into an entry table (a dict keyed by a 2-tuple whose value "
    "derives from sympy.diff: J0_entries, J_hist[d], dfdu, dfdp) the row is a counter advanced once per element of the FULL state "
    "list (the parallel lists returned by _get_symbolic_rhs, shown to be appended exactly once per DE) by that element's layout "
    "extent, reset where its loop starts and read before it is advanced, and the function differentiated is that loop's own "
    "element; the column is either such a counter whose loop element is the symbol differentiated against, or a value read from the "
    "state layout (sym_to_y_idx/_state_var_indices) that travels together with the symbol differentiated against; a counter over a "
    "filtered subset is a violation (D-15).  The emitters (emit_local_array_assign calls, Fortran dfdu/dfdp lines) take (row, column) "
    "from the keys of those tables in that order; indices into y / the history vector inside emitted expressions are layout values; "
    "every override of emit_local_array_assign renders all indices in the given order.  R2 the three copies of the state-layout "
    "loop (to_func, get_jacobian_func, _compute_symbolic_jacobian) are executed symbolically: each stores an extent that starts at "
    "the counter and advances the counter to exactly the end of what it stored, and the three normal forms are equal.  R3 every "
    "sympy.diff result passes _resolve_derivatives before it is printed (at the store for exported tables, else inside "
    "_expr_to_jac_str before any other use).  R4 `sparse` is read only in if-tests; nothing that computes or emits an entry is "
    "control dependent on it and what is assigned under it flows only into the return expression.  R5 row and column get the same "
    "index base (start on both / Fortran +1 on both, 1 = FortranBackend's start_idx).  R6 (added) every emission of an entry hands "
    "_expr_to_jac_str the full past-placeholder map, because any derivative of a vector field with delayed factors may still contain "
    "a placeholder.  Recognition is by role: group containers are followed through setdefault/aliases/stored lists/comprehensions, "
    "the layout loop may live in a private helper the three consumers call, templates may be f-strings/.format/%, key components may "
    "be unpacked, offsets may be written on either side; an index whose provenance is not understood ends in ANALYSIS-ERROR, a "
    "violation is reported only when it is positively something else (enumerate position, hand-advanced counter, literal, ...).  "
    "R9 (added) the Fortran DFDU/DFDP block numbers a parameter by its PAR slot from the one slot list (name -> slot by zip with the "
    "sequence the slots were computed for), never by its position (shares the slot typing of C18-R1).  "
    "R10 (added) every key of a per-delay entry table owns its inner dict (no dict.fromkeys(keys, {}) / [{}] * n sharing; shared lint "
    "shared_mutable_fill over all ComputeGraph methods and the Jacobian hooks).  "
    "R11 (added) the delay emitted in `hist(t - <delay>)` is a value-preserving text (str/repr/plain format) of the delay the group "
    "was keyed by: no stripping/slicing/replacing/digit-limited formatting between the delay symbol and the emitted literal.  "
    "R4 accepts a pure `if sparse` switch between two complete emitters of the same table; R12 (added) where a matrix is emitted "
    "directly as (data, indices, indptr) the value list and the index list come from one ordered traversal of the entry table.  "
    "NOT decided: the values of derivatives, DFDP numerics, the vector field itself (C01), the slot arithmetic itself (C18)."
)
RULE_TEXT = ("instances = entry-table stores found by def-use from sympy.diff calls, emitter call sites / templates found by name "
             "resolution and f-string templates, layout loops found by their iteration domain; each is decided by reaching "
             "definitions, loop structure, symbolic execution (sympy) or control dependence.  Non-trivial = needed such an argument.")
ASSUMPTIONS = [
    "sympy.diff(f, s) is the partial derivative of f with respect to s (library).",
    "dict iteration order is insertion order, so zip(var_updates['DEs'].keys(), y_syms) pairs each state variable with its own symbol "
    "when y_syms is appended once per DE in the same loop (shown by R1's fullness check).",
    "Vector-valued state variables get zero blocks; their positions must still be right (the counters advance by the layout extent).",
]


# =================================================================================================
# generic helpers: name binding, iteration elements, f-string templates (also used by rules/c18.py)
# =================================================================================================

def target_path(t: ast.AST, name: str) -> Optional[tuple]:
    if isinstance(t, ast.Name):
        return () if t.id == name else None
    if isinstance(t, (ast.Tuple, ast.List)):
        for i, e in enumerate(t.elts):
            p = target_path(e, name)
            if p is not None:
                return (i,) + p
    return None


@dataclass
class Bind:
    kind: str                 # 'iter' (for / comprehension target), 'value' (assignment), 'aug', 'param', 'other'
    node: ast.AST             # the binder: For / comprehension / Assign / AugAssign / arguments
    expr: Optional[ast.AST]   # iterated expression resp. assigned value
    path: tuple               # position of the name inside the (possibly nested) target


_COMPS = (ast.ListComp, ast.SetComp, ast.DictComp, ast.GeneratorExp)


class Scope:
    """Resolves a Name load to what bound it: comprehension targets lexically, everything else by reaching definitions."""

    def __init__(self, ctx, f):
        self.ctx, self.f = ctx, f
        self.rd = ctx.rd(f)
        self.cfg = ctx.cfg(f)

    def binds(self, n: ast.Name) -> List[Bind]:
        for a in ancestors(n):
            if a is self.f.node:
                break
            if isinstance(a, _COMPS):
                for gi, g in enumerate(a.generators):
                    p = target_path(g.target, n.id)
                    if p is None:
                        continue
                    if any(contains(a.generators[k].iter, n) for k in range(gi + 1)):
                        continue
                    return [Bind("iter", g, g.iter, p)]
            if isinstance(a, ast.Lambda):
                if n.id in [x.arg for x in a.args.args]:
                    return [Bind("param", a, None, ())]
        out = []
        for d in self.rd.defs_reaching(n):
            if isinstance(d, (ast.For, ast.AsyncFor)):
                out.append(Bind("iter", d, d.iter, target_path(d.target, n.id) or ()))
            elif isinstance(d, ast.Assign):
                for t in d.targets:
                    p = target_path(t, n.id)
                    if p is None:
                        continue
                    v = d.value
                    while p and isinstance(v, (ast.Tuple, ast.List)) and p[0] < len(v.elts):
                        v, p = v.elts[p[0]], p[1:]
                    out.append(Bind("value", d, v, p))
                    break
            elif isinstance(d, ast.AnnAssign):
                out.append(Bind("value", d, d.value, ()))
            elif isinstance(d, ast.AugAssign):
                out.append(Bind("aug", d, d.value, ()))
            elif isinstance(d, ast.arguments):
                out.append(Bind("param", d, None, ()))
            else:
                out.append(Bind("other", d, None, ()))
        return out

    def single_value(self, n: ast.AST) -> Optional[ast.AST]:
        """Inline a Name that has exactly one plain-assignment binding; other expressions are returned unchanged."""
        seen = 0
        while isinstance(n, ast.Name) and seen < 8:
            b = self.binds(n)
            if len(b) == 1 and b[0].kind == "value" and not b[0].path and b[0].expr is not None:
                n = b[0].expr
                seen += 1
            else:
                break
        return n


_ORDER_WRAPPERS = {"sorted", "list", "tuple", "reversed", "iter"}


def strip_wrappers(e: ast.AST) -> ast.AST:
    while isinstance(e, ast.Call) and isinstance(e.func, ast.Name) and e.func.id in _ORDER_WRAPPERS and e.args:
        e = e.args[0]
    return e


def element_origin(expr: ast.AST, path: tuple) -> Tuple[str, ast.AST, tuple]:
    """What does position `path` of one element obtained by iterating `expr` denote?

    -> (role, base, rest): role 'key'/'value' of dict `base`, 'index' (enumerate counter over `base`), or 'elem' of `base`."""
    e = strip_wrappers(expr)
    if isinstance(e, ast.Call) and isinstance(e.func, ast.Name) and e.func.id == "enumerate" and e.args:
        if not path:
            return "elem", e, ()
        if path[0] == 0:
            return "index", e, path[1:]
        return element_origin(e.args[0], path[1:])
    if isinstance(e, ast.Call) and isinstance(e.func, ast.Name) and e.func.id == "zip":
        if not path:
            return "elem", e, ()
        if path[0] < len(e.args):
            return element_origin(e.args[path[0]], path[1:])
        return "elem", e, path
    if isinstance(e, ast.Call) and isinstance(e.func, ast.Attribute) and not e.args and e.func.attr in ("items", "keys", "values"):
        base = e.func.value
        if e.func.attr == "items":
            if not path:
                return "elem", e, ()
            return ("key" if path[0] == 0 else "value"), base, path[1:]
        return ("key" if e.func.attr == "keys" else "value"), base, path
    return "elem", e, path


def template_of(node: ast.AST) -> Tuple[Optional[str], List[ast.AST]]:
    """JoinedStr -> (text with ⟨k⟩ placeholders, [hole expression k])."""
    if isinstance(node, ast.Constant) and isinstance(node.value, str):
        return node.value, []
    if not isinstance(node, ast.JoinedStr):
        return None, []
    parts, holes = [], []
    for v in node.values:
        if isinstance(v, ast.Constant):
            parts.append(str(v.value))
        elif isinstance(v, ast.FormattedValue):
            parts.append(f"⟨{len(holes)}⟩")
            holes.append(v.value)
    return "".join(parts), holes


_FMT_FIELD = re.compile(r"\{\{|\}\}|\{([^{}!:]*)(?:![rsa])?(?::[^{}]*)?\}")
_PCT_FIELD = re.compile(r"%%|%[-+ #0]*\d*(?:\.\d+)?[sdifgr]")


def format_template(node: ast.AST) -> Tuple[Optional[str], List[ast.AST]]:
    """Like template_of for the other spellings of a formatted string: `'..{}..{0}..{k}'.format(a, b, k=c)` and
    `'..%s..%d' % (a, b)`.  -> (text with ⟨k⟩ placeholders, holes) or (None, [])."""
    if isinstance(node, ast.Call) and isinstance(node.func, ast.Attribute) and node.func.attr == "format" \
            and isinstance(node.func.value, ast.Constant) and isinstance(node.func.value.value, str) \
            and not any(isinstance(a, ast.Starred) for a in node.args) and all(k.arg for k in node.keywords):
        kw = {k.arg: k.value for k in node.keywords}
        holes: List[ast.AST] = []
        auto = [0]
        bad = []

        def rep(m):
            if m.group(0) == "{{":
                return "{"
            if m.group(0) == "}}":
                return "}"
            fld = m.group(1)
            if fld == "":
                i = auto[0]
                auto[0] += 1
                e = node.args[i] if i < len(node.args) else None
            elif fld.isdigit():
                e = node.args[int(fld)] if int(fld) < len(node.args) else None
            else:
                e = kw.get(fld)
            if e is None:
                bad.append(fld)
                return ""
            holes.append(e)
            return f"⟨{len(holes) - 1}⟩"
        text = _FMT_FIELD.sub(rep, node.func.value.value)
        return (None, []) if bad else (text, holes)
    if isinstance(node, ast.BinOp) and isinstance(node.op, ast.Mod) and isinstance(node.left, ast.Constant) \
            and isinstance(node.left.value, str):
        vals = list(node.right.elts) if isinstance(node.right, ast.Tuple) else [node.right]
        holes = []
        bad = []

        def rep(m):
            if m.group(0) == "%%":
                return "%"
            if len(holes) >= len(vals):
                bad.append(m.group(0))
                return ""
            holes.append(vals[len(holes)])
            return f"⟨{len(holes) - 1}⟩"
        text = _PCT_FIELD.sub(rep, node.left.value)
        return (None, []) if bad or len(holes) != len(vals) else (text, holes)
    return None, []


def templates_in(fnode: ast.AST):
    """(node, text, holes) for every formatted string of a function body (nested defs included): f-strings, `'..'.format(..)`
    and `'..' % (..)` with a literal format."""
    for n in ast.walk(fnode):
        if isinstance(n, ast.JoinedStr):
            par = parent(n)
            if isinstance(par, ast.FormattedValue):      # format spec
                continue
            t, h = template_of(n)
            yield n, t, h
        elif isinstance(n, (ast.Call, ast.BinOp)):
            t, h = format_template(n)
            if t is not None and h:
                yield n, t, h


def templates_spliced(S: "Scope", fnode: ast.AST):
    """templates_in, with holes that are local names bound once to a formatted string (`prefix = f'_yhist_{d}'` ...
    `f'{prefix}[{i}]'`) spliced into the text; hole numbers are re-assigned."""
    for n, t, h in templates_in(fnode):
        if t is None or not h:
            yield n, t, h
            continue
        text, holes, changed = t, list(h), False
        for _ in range(3):
            again = False
            new_holes: List[ast.AST] = []
            pieces = re.split(r"(⟨\d+⟩)", text)
            out = []
            for pc in pieces:
                m = re.fullmatch(r"⟨(\d+)⟩", pc)
                if not m:
                    out.append(pc)
                    continue
                hv = holes[int(m.group(1))]
                sub_t, sub_h = (None, [])
                if isinstance(hv, ast.Name):
                    v = S.single_value(hv)
                    if v is not hv:
                        sub_t, sub_h = template_of(v)
                        if sub_t is None:
                            sub_t, sub_h = format_template(v)
                if sub_t is not None:
                    sub_t = re.sub(r"⟨(\d+)⟩", lambda mm: f"⟨{int(mm.group(1)) + len(new_holes)}⟩", sub_t)
                    out.append(sub_t)
                    new_holes += list(sub_h)
                    again = changed = True
                else:
                    out.append(f"⟨{len(new_holes)}⟩")
                    new_holes.append(hv)
            text, holes = "".join(out), new_holes
            if not again:
                break
        yield n, text, holes


def string_template(S: "Scope", e: ast.AST, depth=0) -> Tuple[Optional[str], List[ast.AST]]:
    """Template of a string-valued expression in any spelling (f-string, .format, %, concatenation with str(x)), looking
    through single-definition names."""
    if depth > 6:
        return None, []
    e = S.single_value(e)
    t, h = template_of(e)
    if t is not None:
        return t, h
    t, h = format_template(e)
    if t is not None:
        return t, h
    if isinstance(e, ast.BinOp) and isinstance(e.op, ast.Add):
        parts, holes = [], []
        for side in (e.left, e.right):
            if isinstance(side, ast.Call) and isinstance(side.func, ast.Name) and side.func.id in ("str", "repr") and len(side.args) == 1:
                ts, hs = "⟨0⟩", [side.args[0]]
            else:
                ts, hs = string_template(S, side, depth + 1)
            if ts is None:
                return None, []
            ts = re.sub(r"⟨(\d+)⟩", lambda m: f"⟨{int(m.group(1)) + len(holes)}⟩", ts)
            parts.append(ts)
            holes += hs
        return "".join(parts), holes
    return None, []


def split_offset(e: ast.AST, S: Optional["Scope"] = None) -> Tuple[ast.AST, Optional[ast.AST]]:
    """`k + b` -> (k, b); `k` -> (k, None).  The offset is the operand that is an integer literal or (when a Scope is given) the
    backend's `_start_idx`; `b + k` is read the same way.  Without such an operand the right one is taken as the offset."""
    if isinstance(e, ast.BinOp) and isinstance(e.op, ast.Add):
        def is_off(x):
            if isinstance(x, ast.Constant) and isinstance(x.value, int) and not isinstance(x.value, bool):
                return True
            if S is not None:
                v = S.single_value(x)
                return isinstance(v, ast.Attribute) and v.attr == "_start_idx"
            return False
        if is_off(e.left) and not is_off(e.right):
            return e.right, e.left
        return e.left, e.right
    return e, None


def same_expr(a: Optional[ast.AST], b: Optional[ast.AST]) -> bool:
    if a is None or b is None:
        return a is b
    return ast.dump(a) == ast.dump(b)


def graph_cls(ctx):
    return ctx.repo.get_class(CG, "ComputeGraph")


# methods of ComputeGraph that the rules read through their analysis view (private helpers spliced in, anchors kept as calls)
CG_VIEWED = ("to_func", "get_jacobian_func", "_compute_symbolic_jacobian", "_get_symbolic_rhs", "_expr_to_jac_str",
             "_process_var_update")


def cg_func(ctx, name, raw=False):
    """The ComputeGraph method `name`; for the methods in CG_VIEWED its analysis view (same qualname: obligations reported with it
    keep their construct keys).  raw=True: the function as written."""
    f = ctx.repo.get_func(CG, f"ComputeGraph.{name}")
    if raw or name not in CG_VIEWED:
        return f
    return analysis_view(ctx, f, keep=CG_ANCHORS)


def cg_methods(ctx) -> list:
    """All methods of ComputeGraph as the rules should scan them: views for CG_VIEWED, the raw function for the others, minus the
    private helpers that were spliced into one of the views (their statements are already seen there)."""
    cached = getattr(ctx, "_c12_methods", None)
    if cached is not None:
        return cached
    views = []
    spliced = set()
    for name, f in graph_cls(ctx).methods.items():
        if name in CG_VIEWED:
            v = cg_func(ctx, name)
            views.append(v)
            for h in getattr(v, "inlined_helpers", ()) or ():
                spliced.add(h.split("::")[-1])
    out = list(views)
    for name, f in graph_cls(ctx).methods.items():
        if name not in CG_VIEWED and f.qualname not in spliced:
            out.append(f)
    ctx._c12_methods = out
    return out


# =================================================================================================
# the full state list: which results of _get_symbolic_rhs have exactly one element per DE
# =================================================================================================

def _iterates_des(e: ast.AST, selfn: str) -> bool:
    e = strip_wrappers(e)
    if isinstance(e, ast.Call) and isinstance(e.func, ast.Name) and e.func.id == "enumerate" and e.args:
        e = e.args[0]
    if isinstance(e, ast.Call) and isinstance(e.func, ast.Attribute) and e.func.attr in ("items", "keys") and not e.args:
        e = e.func.value
    return (isinstance(e, ast.Subscript) and is_attr_of(e.value, selfn, "var_updates")
            and isinstance(e.slice, ast.Constant) and e.slice.value == "DEs")


def symbolic_rhs_roles(ctx) -> Dict[int, str]:
    """position in the tuple returned by _get_symbolic_rhs -> role ('f' | 'sym' | 'isvec') for the lists that are appended
    exactly once, unconditionally, per iteration of the loop over var_updates['DEs']."""
    cached = getattr(ctx, "_c12_roles", None)
    if cached is not None:
        return cached
    f = cg_func(ctx, "_get_symbolic_rhs")
    selfn = f.self_name
    rets = [n for n in walk_shallow(f.node) if isinstance(n, ast.Return)]
    if len(rets) != 1 or not isinstance(rets[0].value, ast.Tuple):
        raise AnalysisError("C12: _get_symbolic_rhs no longer returns one tuple (unrecognised form)")
    loops = [n for n in walk_shallow(f.node) if isinstance(n, ast.For) and _iterates_des(n.iter, selfn)]
    if len(loops) != 1:
        raise AnalysisError(f"C12: expected one loop over var_updates['DEs'] in _get_symbolic_rhs, found {len(loops)}")
    loop = loops[0]
    escapes = [n for n in ast.walk(loop) if isinstance(n, (ast.Continue, ast.Break, ast.Return))]
    roles: Dict[int, str] = {}
    for pos, el in enumerate(rets[0].value.elts):
        if not isinstance(el, ast.Name):
            continue
        appends = [c for c in walk_shallow(f.node) if isinstance(c, ast.Call) and isinstance(c.func, ast.Attribute)
                   and c.func.attr in ("append", "extend", "insert") and isinstance(c.func.value, ast.Name) and c.func.value.id == el.id]
        if len(appends) != 1 or appends[0].func.attr != "append":
            continue
        st = parent(appends[0])
        if not (isinstance(st, ast.Expr) and parent(st) is loop and st in loop.body) or escapes:
            continue
        a = appends[0].args[0]
        if isinstance(a, ast.Attribute) and a.attr == "symbol":
            roles[pos] = "sym"
        elif isinstance(a, ast.Compare):
            roles[pos] = "isvec"
        else:
            roles[pos] = "f"
    if sorted(roles.values()) != ["f", "isvec", "sym"]:
        raise AnalysisError(f"C12: _get_symbolic_rhs: cannot identify the per-DE lists (f, sym, isvec); found {roles}")
    ctx._c12_roles = roles
    return roles


def full_iter(ctx, S: Scope, it: ast.AST) -> Optional[Dict[int, str]]:
    """If iterating `it` visits every state variable exactly once: {position in the element -> role}; else None.
    A single (non-zip) iterable has position -1."""
    selfn = S.f.self_name
    roles = symbolic_rhs_roles(ctx)
    e = strip_wrappers(it)
    if _iterates_des(e, selfn):
        return {-1: "var"}

    def one(x, depth=0) -> Optional[str]:
        if not isinstance(x, ast.Name) or depth > 3:
            return None
        bs = S.binds(x)
        if len(bs) != 1 or bs[0].kind != "value":
            return None
        v = bs[0].expr
        if len(bs[0].path) == 1 and isinstance(v, ast.Call) and call_name(v) == "_get_symbolic_rhs" \
                and is_attr_of(v.func, selfn, "_get_symbolic_rhs"):
            return roles.get(bs[0].path[0])
        if bs[0].path or v is None:
            return None
        # an element-wise image of a per-DE list: [g(s) for s in y_syms] (no filter): one element per DE, same order
        while isinstance(v, ast.Call) and isinstance(v.func, ast.Name) and v.func.id in ("list", "tuple") and len(v.args) == 1:
            v = v.args[0]
        if isinstance(v, (ast.ListComp, ast.GeneratorExp)) and len(v.generators) == 1 and not v.generators[0].ifs \
                and isinstance(v.generators[0].target, ast.Name):
            src = one(strip_wrappers(v.generators[0].iter), depth + 1)
            if src is None:
                return None
            if src == "sym":
                kind, I = extent_operand(S, v.elt)
                if kind == "extent":
                    lv = layout_for(ctx, S.f, S).value(I)
                    key = lv.get("key") if lv else None
                    if isinstance(key, ast.Name) and key.id == v.generators[0].target.id:
                        return "extent"         # the layout extent of each state symbol, in state order
            if isinstance(v.elt, ast.Constant) and v.elt.value == 1:
                return "ones"               # one position per variable, whatever its extent
            return "image:" + src
        return None
    if isinstance(e, ast.Call) and isinstance(e.func, ast.Name) and e.func.id == "zip":
        out = {}
        for i, a in enumerate(e.args):
            r = one(a)
            if r is None:
                return None
            out[i] = r
        return out or None
    r = one(e)
    return {-1: r} if r else None


def subset_reason(ctx, S: Scope, it: ast.AST, depth=0) -> Optional[str]:
    """A positive reason why iterating `it` does NOT visit every state variable exactly once (it is a group / filtered list /
    slice / another kind of collection); None when nothing of the kind can be read off the code."""
    if depth > 4:
        return None
    e = strip_wrappers(it)
    if isinstance(e, ast.Call) and isinstance(e.func, ast.Name) and e.func.id in ("zip", "enumerate") and e.args:
        for a in (e.args if e.func.id == "zip" else e.args[:1]):
            r = subset_reason(ctx, S, a, depth + 1)
            if r:
                return r
        return None
    if isinstance(e, ast.Subscript) and isinstance(e.slice, ast.Slice):
        return f"`{ast.unparse(e)}` is a slice"
    if isinstance(e, (ast.ListComp, ast.GeneratorExp)) and any(g.ifs for g in e.generators):
        return f"`{ast.unparse(e)[:60]}` is filtered"
    if isinstance(e, ast.Call) and isinstance(e.func, ast.Attribute) and e.func.attr in ("items", "keys", "values") and not e.args:
        base = e.func.value
        if isinstance(base, ast.Name):
            bs = S.binds(base)
            if len(bs) == 1 and bs[0].kind == "value" and len(bs[0].path) == 1 and isinstance(bs[0].expr, ast.Call) \
                    and call_name(bs[0].expr) == "_get_symbolic_rhs" and bs[0].path[0] not in symbolic_rhs_roles(ctx):
                return f"`{base.id}` is not one of the per-DE lists of _get_symbolic_rhs"
            if bs and all(b.kind in ("value", "aug") for b in bs) and any(
                    b.expr is not None and (isinstance(b.expr, (ast.Dict, ast.DictComp)) or
                                            (isinstance(b.expr, ast.Call) and call_name(b.expr) in ("dict", "defaultdict", "fromkeys")))
                    for b in bs if b.kind == "value"):
                return f"`{base.id}` is a table built in this function, not the state list"
        return None
    if isinstance(e, ast.Name):
        bs = S.binds(e)
        if len(bs) == 1 and bs[0].kind == "iter":
            role, base, rest = element_origin(bs[0].expr, bs[0].path)
            if role in ("value", "elem", "key"):
                return f"`{e.id}` is one {'group' if role != 'key' else 'key'} of `{ast.unparse(base)[:50]}`"
        if len(bs) == 1 and bs[0].kind == "value" and bs[0].expr is not None:
            v = bs[0].expr
            if len(bs[0].path) == 1 and isinstance(v, ast.Call) and call_name(v) == "_get_symbolic_rhs" \
                    and bs[0].path[0] not in symbolic_rhs_roles(ctx):
                return f"`{e.id}` is not one of the per-DE lists of _get_symbolic_rhs"
            if not bs[0].path:
                return subset_reason(ctx, S, v, depth + 1)
    return None


# =================================================================================================
# layout typing: the state-layout map and values read from it
# =================================================================================================

class Layout:
    def __init__(self, ctx, S: Scope, param_maps=(), local_maps=()):
        self.ctx, self.S = ctx, S
        self.selfn = S.f.self_name
        self.param_maps = set(param_maps)      # parameters shown (at every call site) to receive a layout map
        self.local_maps = set(local_maps)      # local dicts filled by a layout loop of this function

    def is_map(self, e: ast.AST, depth=0) -> bool:
        if depth > 24:
            return False
        if self.selfn and is_attr_of(e, self.selfn, "_state_var_indices"):
            return True
        if isinstance(e, ast.Name):
            bs = self.S.binds(e)
            if not bs:
                return False
            for b in bs:
                if b.kind == "param" and e.id in self.param_maps:
                    continue
                if b.kind == "value" and not b.path and b.expr is not None:
                    v = b.expr
                    if isinstance(v, ast.DictComp) and self.value(v.value, depth + 1) is not None:
                        continue
                    if e.id in self.local_maps and ((isinstance(v, ast.Dict) and not v.keys) or
                                                    (isinstance(v, ast.Call) and call_name(v) == "dict" and not v.args)):
                        continue
                    if isinstance(v, (ast.Name, ast.Attribute)) and self.is_map(v, depth + 1):
                        continue        # local alias of the layout map (`indices = self._state_var_indices`)
                return False
            return True
        return False

    def value(self, e: ast.AST, depth=0) -> Optional[dict]:
        """If `e` is a value of the layout map (an int position or a (lo, hi) extent), describe how it was read:
        {'map': expr, 'key': expr or None, 'binder': node or None, 'start': bool}."""
        if depth > 24:
            return None
        if isinstance(e, ast.Call) and isinstance(e.func, ast.Attribute) and e.func.attr == "get" and len(e.args) == 1 and not e.keywords \
                and self.is_map(e.func.value, depth + 1):
            return {"map": e.func.value, "key": e.args[0], "binder": None, "start": False}     # M.get(key) (None when absent)
        if isinstance(e, ast.Subscript):
            if self.is_map(e.value, depth + 1):
                return {"map": e.value, "key": e.slice, "binder": None, "start": False}
            if isinstance(e.slice, ast.Constant) and e.slice.value == 0:
                v = self.value(e.value, depth + 1)
                if v is not None:
                    return dict(v, start=True)
            return None
        if isinstance(e, ast.IfExp):
            # X[0] if isinstance(X, tuple) else X   (the scalar start of a layout value)
            t = e.test
            neg = isinstance(t, ast.UnaryOp) and isinstance(t.op, ast.Not)
            if neg:
                t = t.operand
            if isinstance(t, ast.Call) and call_name(t) == "isinstance" and len(t.args) == 2:
                tup, sca = (e.orelse, e.body) if neg else (e.body, e.orelse)
                v = self.value(sca, depth + 1)
                if v is not None and same_expr(t.args[0], sca) and isinstance(tup, ast.Subscript) and same_expr(tup.value, sca) \
                        and isinstance(tup.slice, ast.Constant) and tup.slice.value == 0:
                    return dict(v, start=True)
            return None
        if isinstance(e, ast.Name):
            bs = self.S.binds(e)
            if not bs:
                return None
            res = None
            for b in bs:
                r = None
                if b.kind == "value" and not b.path and b.expr is not None:
                    r = self.value(b.expr, depth + 1)
                elif b.kind == "iter":
                    role, base, rest = element_origin(b.expr, b.path)
                    if role == "value" and not rest and self.is_map(base, depth + 1):
                        r = {"map": base, "key": None, "binder": b.node, "path": b.path, "start": False}
                    elif role == "elem" and len(rest) == 1:
                        r = self._container_elem(base, rest[0], depth + 1)
                        if r is not None:
                            r = dict(r, via_binder=b.node, via_path=b.path)
                if r is None:
                    return None
                res = res or r
            return res
        return None

    def container_tuples(self, cont: ast.AST) -> List[ast.Tuple]:
        """`cont` is (one list of) a dict of lists of tuples built in this function: the tuple expressions put into it."""
        root = cont
        if isinstance(cont, ast.Name):
            bs = self.S.binds(cont)
            if len(bs) == 1 and bs[0].kind == "iter":
                role, base, rest = element_origin(bs[0].expr, bs[0].path)
                if role == "value" and not rest:
                    root = base
        if isinstance(root, ast.Subscript):         # for x in groups[key]
            root = root.value
        if not isinstance(root, ast.Name):
            return []
        return group_tuples(self.S, alias_root(self.S, root) or root.id)

    def _container_elem(self, cont: ast.AST, k: int, depth) -> Optional[dict]:
        """`cont` is a list of tuples built in this function by `D[key].append((..))`; type of tuple position k."""
        tuples = self.container_tuples(cont)
        if not tuples:
            return None
        res = None
        for t in tuples:
            if k >= len(t.elts):
                return None
            r = self.value(t.elts[k], depth + 1)
            if r is None:
                return None
            res = res or dict(r, tuple=t, tuple_pos=k)
        return res


def _is_empty_list(e: ast.AST) -> bool:
    return (isinstance(e, (ast.List, ast.Tuple)) and not e.elts) or \
        (isinstance(e, ast.Call) and call_name(e) == "list" and not e.args and not e.keywords)


def _list_elements(S: Scope, e: ast.AST, depth=0) -> Optional[List[ast.AST]]:
    """Element expressions of a list-valued expression built from literals / comprehensions / concatenation
    (through single-definition names); None when the form is not recognised."""
    if depth > 6:
        return None
    e = S.single_value(e)
    if _is_empty_list(e):
        return []
    if isinstance(e, (ast.List, ast.Tuple)) and not any(isinstance(x, ast.Starred) for x in e.elts):
        return list(e.elts)
    if isinstance(e, (ast.ListComp, ast.GeneratorExp)):
        return [e.elt]
    if isinstance(e, ast.Call) and isinstance(e.func, ast.Name) and e.func.id in ("list", "tuple", "sorted") and len(e.args) == 1:
        return _list_elements(S, e.args[0], depth + 1)
    if isinstance(e, ast.BinOp) and isinstance(e.op, ast.Add):
        l, r = _list_elements(S, e.left, depth + 1), _list_elements(S, e.right, depth + 1)
        return None if l is None or r is None else l + r
    return None


def group_tuples(S: Scope, root: str) -> List[ast.Tuple]:
    """`root` is a local dict of lists (the delay groups).  Every tuple expression that is put into one of its lists:
    `root[k].append(T)`, `root.setdefault(k, []).append(T)`, `lst = root[k] / root.setdefault(k, []) ... lst.append(T)`,
    `lst = []; root[k] = lst`, `root[k] = [T ...]`, `root[k] += [T]`, `.extend([T])`, `root = {k: [T for ..] for ..}`.
    Raises AnalysisError for a write into the groups whose elements cannot be enumerated."""
    f = S.f

    def is_root(e):
        return isinstance(e, ast.Name) and e.id == root

    def member_expr(e) -> Optional[List[ast.AST]]:
        """`e` denotes one of root's lists -> elements contributed by the expression itself (setdefault default); else None"""
        if isinstance(e, ast.Subscript) and is_root(e.value):
            return []
        if isinstance(e, ast.Call) and isinstance(e.func, ast.Attribute) and is_root(e.func.value) and e.func.attr in ("setdefault", "get"):
            if len(e.args) >= 2:
                els = _list_elements(S, e.args[1])
                if els is None:
                    raise AnalysisError(f"C12: {f.qual}: default of `{norm(e)}` is not a list literal (unrecognised form)")
                return els
            return []
        return None

    # names stored into the dict as a whole list: root[k] = lst
    stored_names = {st.value.id for st in walk_shallow(f.node)
                    if isinstance(st, ast.Assign) and isinstance(st.value, ast.Name)
                    and any(isinstance(t, ast.Subscript) and is_root(t.value) for t in st.targets)}

    def alias(n: ast.AST) -> Optional[List[ast.AST]]:
        """Name `n` denotes one of root's lists at this point -> elements contributed by its definitions; else None"""
        if not isinstance(n, ast.Name):
            return None
        bs = S.binds(n)
        if not bs:
            return None
        els: List[ast.AST] = []
        for b in bs:
            if b.kind == "value" and not b.path and b.expr is not None:
                m = member_expr(b.expr)
                if m is not None:
                    els += m
                    continue
                if n.id in stored_names:
                    le = _list_elements(S, b.expr)
                    if le is not None:
                        els += le
                        continue
                return None
            if b.kind == "iter":
                role, base, rest = element_origin(b.expr, b.path)
                if role == "value" and not rest and is_root(base):
                    continue
                return None
            if b.kind == "aug":          # `lst += [T]`: the statement itself is collected separately
                continue
            return None
        return els

    def target_list(e) -> Optional[List[ast.AST]]:
        m = member_expr(e)
        return m if m is not None else alias(e)

    elems: List[Tuple[ast.AST, ast.AST]] = []      # (element expression, statement/call it was found in)
    seen_defaults = set()

    def add(els, where):
        for x in els:
            if id(x) not in seen_defaults:
                seen_defaults.add(id(x))
                elems.append((x, where))
    for n in walk_shallow(f.node):
        if isinstance(n, ast.Call) and isinstance(n.func, ast.Attribute) and n.func.attr in ("append", "extend", "insert"):
            tl = target_list(n.func.value)
            if tl is None:
                continue
            add(tl, n)
            if n.func.attr == "append" and len(n.args) == 1:
                add([n.args[0]], n)
            elif n.func.attr == "insert" and len(n.args) == 2:
                add([n.args[1]], n)
            elif n.func.attr == "extend" and len(n.args) == 1 and _list_elements(S, n.args[0]) is not None:
                add(_list_elements(S, n.args[0]), n)
            else:
                raise AnalysisError(f"C12: {f.qual}: `{norm(n)}` grows a list of `{root}` in an unrecognised way")
        elif isinstance(n, ast.AugAssign):
            tl = target_list(n.target)
            if tl is None:
                continue
            le = _list_elements(S, n.value) if isinstance(n.op, ast.Add) else None
            if le is None:
                raise AnalysisError(f"C12: {f.qual}: `{norm(n)}` grows a list of `{root}` in an unrecognised way")
            add(tl + le, n)
        elif isinstance(n, ast.Assign):
            if any(isinstance(t, ast.Subscript) and is_root(t.value) for t in n.targets):
                le = _list_elements(S, n.value)
                if le is None and isinstance(n.value, ast.Name):
                    a = alias(n.value)      # root[k] = lst  (lst collected elsewhere / itself a list of root)
                    le = a
                if le is None:
                    raise AnalysisError(f"C12: {f.qual}: `{norm(n)}` stores a list into `{root}` whose elements cannot be enumerated "
                                        f"(unrecognised form)")
                add(le, n)
            elif any(is_root(t) for t in n.targets):
                v = n.value
                if isinstance(v, ast.DictComp):
                    le = _list_elements(S, v.value)
                    if le is None:
                        raise AnalysisError(f"C12: {f.qual}: `{norm(n)}` builds `{root}` from lists whose elements cannot be enumerated")
                    add(le, n)
                elif isinstance(v, ast.Dict) and v.keys:
                    for vv in v.values:
                        le = _list_elements(S, vv)
                        if le is None:
                            raise AnalysisError(f"C12: {f.qual}: `{norm(n)}` builds `{root}` from lists whose elements cannot be enumerated")
                        add(le, n)
    out = []
    for x, where in elems:
        t = S.single_value(x)
        if not isinstance(t, ast.Tuple):
            raise AnalysisError(f"C12: {f.qual}: `{norm(where)}` puts a non-tuple into a list of `{root}` (unrecognised form)")
        out.append(t)
    return out


def guard_equalities(node: ast.AST, stop: ast.AST) -> List[Tuple[ast.AST, ast.AST]]:
    """(a, b) of every `if a == b` test that encloses `node` (true branch / comprehension filter / conditional expression)
    below `stop`."""
    out = []

    def eqs(t, positive=True):
        if isinstance(t, ast.UnaryOp) and isinstance(t.op, ast.Not):
            return eqs(t.operand, not positive)
        if isinstance(t, ast.BoolOp) and isinstance(t.op, ast.And) and positive:
            for v in t.values:
                eqs(v, True)
            return
        if isinstance(t, ast.Compare) and len(t.ops) == 1 and isinstance(t.ops[0], ast.Eq if positive else ast.NotEq):
            out.append((t.left, t.comparators[0]))
    prev = node
    for a in ancestors(node):
        if a is stop:
            break
        if isinstance(a, ast.If):
            if any(b is prev or contains(b, node) for b in a.body):
                eqs(a.test, True)
            elif any(b is prev or contains(b, node) for b in a.orelse):
                eqs(a.test, False)
        elif isinstance(a, ast.IfExp):
            if a.body is prev or contains(a.body, node):
                eqs(a.test, True)
            elif a.orelse is prev or contains(a.orelse, node):
                eqs(a.test, False)
        elif isinstance(a, _COMPS):
            for g in a.generators:
                for c in g.ifs:
                    if not contains(c, node):
                        eqs(c, True)
        prev = a
    # `for k, v in M.items(): if k != X: continue; ...T...`: a preceding sibling guard that skips the iteration
    for a in ancestors(node):
        if a is stop:
            break
        if isinstance(a, (ast.For, ast.While)):
            for st in a.body:
                if contains(st, node) or st is node:
                    break
                if isinstance(st, ast.If) and not st.orelse and st.body and isinstance(st.body[-1], ast.Continue):
                    eqs(st.test, False)
    return out


# =================================================================================================
# counters
# =================================================================================================

@dataclass
class Counter:
    name: str
    loop: Optional[ast.For]
    aug: ast.AugAssign
    inits: List[ast.stmt]
    problems: List[str] = field(default_factory=list)


def counter_of(S: Scope, n: ast.Name) -> Optional[Counter]:
    bs = S.binds(n)
    augs = [b for b in bs if b.kind == "aug"]
    inits = [b for b in bs if b.kind == "value" and not b.path and isinstance(b.expr, ast.Constant)
             and isinstance(b.expr.value, int) and not isinstance(b.expr.value, bool)]
    if not augs or len(augs) + len(inits) != len(bs):
        return None
    c = Counter(n.id, None, augs[0].node, [b.node for b in inits])
    if len(augs) != 1:
        c.problems.append(f"`{n.id}` is advanced at {len(augs)} places")
        return c
    if not isinstance(c.aug.op, ast.Add):
        c.problems.append(f"`{norm(c.aug)}` is not an addition")
    if any(b.expr.value != 0 for b in inits):
        c.problems.append(f"`{n.id}` does not start at 0")
    if not inits:
        c.problems.append(f"`{n.id}` has no initialisation reaching this use")
    p = parent(c.aug)
    if isinstance(p, ast.For) and c.aug in p.body:
        c.loop = p
    else:
        loops = [a for a in ancestors(c.aug) if isinstance(a, ast.For)]
        c.loop = loops[0] if loops else None
        c.problems.append(f"`{norm(c.aug)}` is conditional (not a direct statement of its loop's body)")
    return c


def merged_value(S: Scope, e: ast.AST, depth=0) -> ast.AST:
    """A name with exactly two definitions `x = A` / `x = B` that are the two arms of one if/else (what an inlined guard-return
    helper leaves behind) is read as the conditional expression `A if test else B`; single definitions are followed."""
    if not isinstance(e, ast.Name) or depth > 4:
        return e
    bs = S.binds(e)
    if len(bs) == 1 and bs[0].kind == "value" and not bs[0].path and bs[0].expr is not None:
        return merged_value(S, bs[0].expr, depth + 1)
    if len(bs) == 2 and all(b.kind == "value" and not b.path and b.expr is not None for b in bs):
        pa, pb = parent(bs[0].node), parent(bs[1].node)
        if pa is pb and isinstance(pa, ast.If):
            a, b = bs
            if b.node in pa.body and a.node in pa.orelse:
                a, b = b, a
            if a.node in pa.body and b.node in pa.orelse and a.node is pa.body[-1] and b.node is pa.orelse[-1]:
                return ast.IfExp(test=pa.test, body=merged_value(S, a.expr, depth + 1), orelse=merged_value(S, b.expr, depth + 1))
    return e


def extent_operand(S: Scope, e: ast.AST) -> Tuple[str, Optional[ast.AST]]:
    """Recognise the extent expression `(I[1] - I[0]) if isinstance(I, tuple) else 1` -> ('extent', I);
    a literal 1 -> ('one', None); otherwise ('?', None)."""
    e = merged_value(S, S.single_value(e))
    if isinstance(e, ast.Constant) and e.value == 1:
        return "one", None
    if isinstance(e, ast.IfExp):
        t = e.test
        neg = isinstance(t, ast.UnaryOp) and isinstance(t.op, ast.Not)
        if neg:
            t = t.operand
        if isinstance(t, ast.Call) and call_name(t) == "isinstance" and len(t.args) == 2:
            tup, sca = (e.orelse, e.body) if neg else (e.body, e.orelse)
            I = t.args[0]
            if isinstance(sca, ast.Constant) and sca.value == 1:
                # structural: I[1] - I[0] for any expression I (e.g. a layout lookup written out three times)
                if isinstance(tup, ast.BinOp) and isinstance(tup.op, ast.Sub) \
                        and all(isinstance(x, ast.Subscript) and isinstance(x.slice, ast.Constant) and same_expr(x.value, I)
                                for x in (tup.left, tup.right)) and tup.left.slice.value == 1 and tup.right.slice.value == 0:
                    return "extent", I
                if not isinstance(I, ast.Name):
                    return "?", None
                try:
                    d = symx.to_sympy(tup)
                except symx.Unsupported:
                    return "?", None
                F = sp.Function(I.id)
                if sp.simplify(d - (F(1) - F(0))) == 0:
                    return "extent", I
    return "?", None


# =================================================================================================
# entry tables: stores whose value derives from sympy.diff
# =================================================================================================

def trace_diff(S: Scope, e: ast.AST, depth=0) -> Optional[List[Tuple[ast.Call, bool]]]:
    """[(diff call, passed through _resolve_derivatives)] for every definition of `e`; None if `e` is not a diff result."""
    if depth > 6:
        return None
    if isinstance(e, ast.Call):
        cn = call_name(e)
        if cn == "diff" and len(e.args) >= 2:
            return [(e, False)]
        if cn == "_resolve_derivatives" and e.args:
            r = trace_diff(S, e.args[0], depth + 1)
            return None if r is None else [(c, True) for c, _ in r]
        return None
    if isinstance(e, ast.Name):
        bs = S.binds(e)
        if not bs:
            return None
        out = []
        for b in bs:
            if b.kind != "value" or b.path or b.expr is None:
                return None
            r = trace_diff(S, b.expr, depth + 1)
            if r is None:
                return None
            out += r
        return out
    return None


@dataclass
class EntryStore:
    f: object
    S: Scope
    stmt: ast.Assign
    key: ast.Tuple
    root: str           # name of the table (outermost dict)
    depth: int          # 0: T[(r, c)] ; 1: T[d][(r, c)]
    diffs: List[Tuple[ast.Call, bool]]


def entry_stores(ctx, f) -> List[EntryStore]:
    S = Scope(ctx, f)
    out = []
    for st in walk_shallow(f.node):
        if isinstance(st, ast.Assign) and len(st.targets) == 1 and isinstance(st.targets[0], ast.Subscript) \
                and isinstance(st.targets[0].slice, ast.Tuple) and len(st.targets[0].slice.elts) == 2:
            tr = trace_diff(S, st.value)
            if not tr:
                continue
            base, depth = st.targets[0].value, 0
            while isinstance(base, ast.Subscript):
                base, depth = base.value, depth + 1
            if not isinstance(base, ast.Name):
                raise AnalysisError(f"C12: {f.qual}: entry table of `{norm(st)}` is not a local dict (unrecognised form)")
            # `tab = T[d]` / `tab = T.setdefault(d, {})` / `for d, tab in T.items()`: the store goes into an inner table of T
            root = base.id
            for _ in range(4):
                bs = S.binds(base)
                if len(bs) != 1:
                    break
                b = bs[0]
                nxt = None
                if b.kind == "value" and not b.path and b.expr is not None:
                    v = b.expr
                    if isinstance(v, ast.Name):
                        nxt, dd = v, 0
                    elif isinstance(v, ast.Subscript) and isinstance(v.value, ast.Name) and not isinstance(v.slice, ast.Slice):
                        nxt, dd = v.value, 1
                    elif isinstance(v, ast.Call) and isinstance(v.func, ast.Attribute) and v.func.attr in ("setdefault", "get") \
                            and isinstance(v.func.value, ast.Name) and v.args:
                        nxt, dd = v.func.value, 1
                elif b.kind == "iter":
                    role, b0, rest = element_origin(b.expr, b.path)
                    if role == "value" and not rest and isinstance(b0, ast.Name):
                        nxt, dd = b0, 1
                if nxt is None:
                    break
                base, depth, root = nxt, depth + dd, nxt.id
            out.append(EntryStore(f, S, st, st.targets[0].slice, root, depth, tr))
    return sorted(out, key=lambda s: s.stmt.lineno)


def jac_functions(ctx):
    return [cg_func(ctx, "get_jacobian_func"), cg_func(ctx, "_compute_symbolic_jacobian")]


def layout_for(ctx, f, S=None, trusted=()) -> Layout:
    S = S or Scope(ctx, f)
    local = {ll.map_text for ll in layout_loops(ctx) if ll.f is f and "." not in ll.map_text}
    return Layout(ctx, S, param_maps=trusted, local_maps=local)


def _loop_elem_role(S: Scope, loop: ast.For, roles: Dict[int, str], e: ast.AST) -> Optional[str]:
    """role of `e` if it is a Name bound by `loop` itself."""
    if not isinstance(e, ast.Name):
        return None
    bs = S.binds(e)
    if len(bs) != 1 or bs[0].kind != "iter" or bs[0].node is not loop:
        return None
    if -1 in roles:
        return roles[-1] if bs[0].path in ((), (0,)) else None
    return roles.get(bs[0].path[0]) if bs[0].path else None


def check_full_counter(ctx, S: Scope, lay: Layout, c: Counter, sink: ast.AST, elem: ast.AST, want: str) -> Tuple[List[str], dict]:
    """Problems that make counter `c`, used at `sink`, something other than the state-vector position of `elem`."""
    probs = list(c.problems)
    facts = {"counter": c.name, "advanced_in": norm(c.loop) if c.loop is not None else None, "by": norm(c.aug)}
    if c.loop is None:
        return probs + [f"`{c.name}` is not advanced inside a loop"], facts
    roles = full_iter(ctx, S, c.loop.iter)
    if roles is None:
        sub = subset_reason(ctx, S, c.loop.iter)
        if sub is None:
            raise AnalysisError(f"C12: {S.f.qual}: cannot decide whether `{ast.unparse(c.loop.iter)}` (the loop that advances "
                                f"`{c.name}`) visits every state variable exactly once (unrecognised form)")
        facts["subset"] = sub
        probs.append(f"`{c.name}` is advanced once per element of `{ast.unparse(c.loop.iter)}`, which is not the full state list "
                     f"(zip of the per-DE lists of _get_symbolic_rhs / var_updates['DEs']): it counts positions inside that subset, "
                     f"not positions in y")
        return probs, facts
    facts["loop_roles"] = roles
    r = _loop_elem_role(S, c.loop, roles, elem)
    if r != want:
        probs.append(f"`{ast.unparse(elem)}` ({'function differentiated' if want == 'f' else 'symbol differentiated against'}) is not "
                     f"the {want!r} element of the loop that advances `{c.name}`: the counter is the position of a different variable")
    inc_role = _loop_elem_role(S, c.loop, roles, S.single_value(c.aug.value))
    if inc_role == "extent":
        kind, I = "precomputed", None       # the loop's own element of the per-DE list of layout extents
    elif inc_role == "ones":
        kind, I = "one", None
    else:
        kind, I = extent_operand(S, c.aug.value)
    if kind == "precomputed":
        pass
    elif kind == "one":
        probs.append(f"`{c.name}` is advanced by 1 for every variable; a vector-valued variable occupies its layout extent, so later "
                     f"positions shift")
    elif kind == "?":
        raise AnalysisError(f"C12: {S.f.qual}: increment `{norm(c.aug)}` has an unrecognised form (expected the layout extent of the "
                            f"loop's element)")
    else:
        lv = lay.value(I)
        if lv is None:
            probs.append(f"the increment of `{c.name}` is the extent of `{ast.unparse(I)}`, which is not read from the state layout")
        else:
            key = lv.get("key")
            if key is None or _loop_elem_role(S, c.loop, roles, key) != "sym":
                probs.append(f"the increment of `{c.name}` is the layout extent of `{ast.unparse(key) if key is not None else '?'}`, "
                             f"not of the state symbol of the loop's own element")
    outer = [a for a in ancestors(c.loop) if isinstance(a, (ast.For, ast.While)) and a is not S.f.node]
    for init in c.inits:
        if contains(c.loop, init):
            probs.append(f"`{c.name}` is re-initialised inside the loop that advances it")
        elif outer and not contains(outer[0], init):
            probs.append(f"`{c.name}` is not reset for every iteration of the enclosing loop `{norm(outer[0])}`: it keeps growing "
                         f"across rows")
    body_idx = [i for i, b in enumerate(c.loop.body) if contains(b, sink)]
    if not body_idx:
        probs.append(f"`{c.name}` is used outside the loop that advances it")
    elif c.aug in c.loop.body and body_idx[0] >= c.loop.body.index(c.aug):
        probs.append(f"`{c.name}` is used after it was advanced for the current element (off by the element's extent)")
    return probs, facts


def foreign_index_reason(S: Scope, lay: Layout, e: ast.AST, depth=0) -> Optional[str]:
    """A positive reason why `e` is NOT a position read from the state layout (an enumerate counter, a literal, a length, a
    counter advanced by hand, arithmetic on those); None when the provenance of `e` is simply not understood."""
    if depth > 8:
        return None
    if isinstance(e, ast.Constant) and isinstance(e.value, int):
        return f"the literal {e.value}"
    if isinstance(e, ast.Call) and isinstance(e.func, ast.Name) and e.func.id == "len":
        return f"a length (`{ast.unparse(e)}`)"
    if isinstance(e, ast.BinOp):
        for side in (e.left, e.right):
            if lay.value(side) is None:
                r = foreign_index_reason(S, lay, side, depth + 1)
                if r and not isinstance(side, ast.Constant):
                    return r
        return None
    if isinstance(e, ast.Subscript) and isinstance(e.slice, ast.Constant) and e.slice.value == 0:
        return foreign_index_reason(S, lay, e.value, depth + 1)
    if isinstance(e, ast.IfExp):
        return foreign_index_reason(S, lay, e.body, depth + 1) or foreign_index_reason(S, lay, e.orelse, depth + 1)
    if isinstance(e, ast.Name):
        if counter_of(S, e) is not None:
            return f"the hand-advanced counter `{e.id}`"
        for b in S.binds(e):
            if b.kind == "iter":
                role, base, rest = element_origin(b.expr, b.path)
                if role == "index":
                    return f"the enumerate position `{e.id}` inside `{ast.unparse(base.args[0])}`"
                it = strip_wrappers(b.expr)
                if isinstance(it, ast.Call) and isinstance(it.func, ast.Name) and it.func.id == "range":
                    return f"the range counter `{e.id}`"
                if role == "key" and lay.is_map(base):
                    return f"a key (not a value) of the state layout `{ast.unparse(base)}`"
                if role == "elem" and len(rest) == 1:
                    for t in lay.container_tuples(base):
                        if rest[0] < len(t.elts) and lay.value(t.elts[rest[0]]) is None:
                            r = foreign_index_reason(S, lay, t.elts[rest[0]], depth + 1)
                            if r:
                                return f"{r}, stored in the group element `{ast.unparse(t)}`"
            elif b.kind == "value" and not b.path and b.expr is not None and lay.value(b.expr) is None:
                r = foreign_index_reason(S, lay, b.expr, depth + 1)
                if r:
                    return r
    return None


def _same_binder_pair(S: Scope, a: ast.AST, b: ast.AST):
    """If names a and b are bound by one and the same for/comprehension: ((role_a, base_a, rest_a), (role_b, base_b, rest_b))."""
    if not (isinstance(a, ast.Name) and isinstance(b, ast.Name)):
        return None
    ba, bb = S.binds(a), S.binds(b)
    if len(ba) != 1 or len(bb) != 1 or ba[0].kind != "iter" or bb[0].kind != "iter" or ba[0].node is not bb[0].node:
        return None
    return element_origin(ba[0].expr, ba[0].path), element_origin(bb[0].expr, bb[0].path)


def check_layout_column(ctx, S: Scope, lay: Layout, lv: dict, sym: ast.AST) -> Tuple[List[str], dict]:
    """The column is layout value `lv`; is it the layout entry of the variable whose (delayed) symbol `sym` is differentiated against?"""
    facts = {"layout_map": ast.unparse(lv["map"])}
    probs: List[str] = []
    if "tuple" in lv:
        # the value travelled inside a tuple of a group container; `sym` must come out of the same tuple
        t, k = lv["tuple"], lv["tuple_pos"]
        bs = S.binds(sym) if isinstance(sym, ast.Name) else []
        if len(bs) != 1 or bs[0].kind != "iter" or bs[0].node is not lv.get("via_binder") or len(bs[0].path) != 1:
            return [f"`{ast.unparse(sym)}` and the column do not come from the same element of the delay group"], facts
        p = bs[0].path[0]
        if p == k or p >= len(t.elts):
            return [f"`{ast.unparse(sym)}` is the layout position itself, not a symbol"], facts
        A = t.elts[p]
        facts["group_element"] = ast.unparse(t)
        # which variable's layout entry was put into the tuple?
        keyexpr = lv.get("key")
        if keyexpr is None:
            # read through `for s, v in map.items()` guarded by `s == X`
            binder = lv["binder"]
            tgt = binder.target
            kname = tgt.elts[0].id if isinstance(tgt, ast.Tuple) and isinstance(tgt.elts[0], ast.Name) else None
            eqs = guard_equalities(t, S.f.node)
            cand = [b if (isinstance(a, ast.Name) and a.id == kname) else a for a, b in eqs
                    if (isinstance(a, ast.Name) and a.id == kname) or (isinstance(b, ast.Name) and b.id == kname)]
            if not cand:
                return [f"the layout value put into the group element is not selected by comparing the layout key with the delayed "
                        f"variable's symbol (no `== ` guard around `{norm(t)}`)"], facts
            keyexpr = cand[0]
        pair = _same_binder_pair(S, A, keyexpr)
        facts["layout_key"] = ast.unparse(keyexpr)
        if pair is None:
            return [f"the placeholder `{ast.unparse(A)}` and the variable `{ast.unparse(keyexpr)}` whose layout entry is stored with it "
                    f"are not bound by the same past-map entry"], facts
        (ra, basea, resta), (rk, basek, restk) = pair
        if not (ra == "value" and rk == "key" and same_expr(basea, basek) and restk == (0,)):
            probs.append(f"the layout entry stored with placeholder `{ast.unparse(A)}` is keyed by `{ast.unparse(keyexpr)}`, which is not "
                         f"the variable component of that placeholder's own (variable, delay) key")
        return probs, facts
    key = lv.get("key")
    if key is not None and same_expr(key, sym):
        return [], facts
    if key is not None and _same_binder_pair(S, key, sym) is not None:
        return [], facts
    return [f"the column is the layout entry of `{ast.unparse(key) if key is not None else '?'}`, which is not tied to the symbol "
            f"`{ast.unparse(sym)}` that is differentiated against"], facts


def r1_index_provenance(ctx, rid):
    n_stores = 0
    for f in jac_functions(ctx):
        stores = entry_stores(ctx, f)
        ctx.require(len(stores) >= 2, f"{rid}: expected >= 2 Jacobian entry stores in {f.qual}, found {len(stores)}")
        S = stores[0].S
        lay = layout_for(ctx, f, S)
        for es in stores:
            n_stores += 1
            if len({ast.dump(c.args[0]) + ast.dump(c.args[1]) for c, _ in es.diffs}) != 1:
                raise AnalysisError(f"{rid}: {f.qual}: `{norm(es.stmt)}` stores results of different diff calls (unrecognised form)")
            dcall = es.diffs[0][0]
            fexpr, sexpr = dcall.args[0], dcall.args[1]
            krow, kcol = es.key.elts
            # ---- row
            c = counter_of(S, krow) if isinstance(krow, ast.Name) else None
            label = f"row of {norm(es.stmt)}"
            if c is None:
                lvr = lay.value(krow)
                why = foreign_index_reason(S, lay, krow) if lvr is None else None
                if lvr is not None:
                    # the row is read from the layout: it must be the entry of the symbol that is zipped with the function
                    key = lvr.get("key")
                    pair = _same_binder_pair(S, key, fexpr) if key is not None else None
                    roles = full_iter(ctx, S, S.binds(fexpr)[0].expr) if pair is not None else None
                    if pair is not None and roles is not None and _loop_elem_role(S, S.binds(fexpr)[0].node, roles, key) == "sym" \
                            and _loop_elem_role(S, S.binds(fexpr)[0].node, roles, fexpr) == "f":
                        ctx.ok(rid, f, es.stmt, f"row `{ast.unparse(krow)}` is the layout entry of the state symbol that is paired with "
                                                f"`{ast.unparse(fexpr)}` in the full state list", label=label)
                    elif pair is not None:
                        ctx.violation(rid, f, es.stmt, f"row `{ast.unparse(krow)}` is the layout entry of `{ast.unparse(key)}`, which is "
                                                       f"not the state symbol of the differentiated equation `{ast.unparse(fexpr)}`",
                                      label=label)
                    else:
                        raise AnalysisError(f"{rid}: {f.qual}: row `{ast.unparse(krow)}` of `{norm(es.stmt)}` is read from the layout in "
                                            f"an unrecognised way")
                elif why is not None:
                    ctx.violation(rid, f, es.stmt, f"row index `{ast.unparse(krow)}` of a Jacobian entry is {why}, not a counter over the "
                                                   f"full state list: the derivative of `{ast.unparse(fexpr)}` is written to a row that is "
                                                   f"not the position of that equation in y", label=label)
                else:
                    raise AnalysisError(f"{rid}: {f.qual}: cannot determine where the row index `{ast.unparse(krow)}` of "
                                        f"`{norm(es.stmt)}` comes from (unrecognised form)")
            else:
                probs, facts = check_full_counter(ctx, S, lay, c, es.stmt, fexpr, "f")
                if probs:
                    ctx.violation(rid, f, es.stmt, f"row index `{c.name}` of `{norm(es.stmt)}` is not the state-vector position of the "
                                                   f"differentiated equation: " + "; ".join(probs), facts, label=label)
                else:
                    ctx.ok(rid, f, es.stmt, f"row `{c.name}` is advanced once per element of the full state list by that element's layout "
                                            f"extent and `{ast.unparse(fexpr)}` is that element", facts, label=label)
            # ---- column
            label = f"column of {norm(es.stmt)}"
            c = counter_of(S, kcol) if isinstance(kcol, ast.Name) else None
            lv = lay.value(kcol) if c is None else None
            if c is not None:
                probs, facts = check_full_counter(ctx, S, lay, c, es.stmt, sexpr, "sym")
                if probs:
                    ctx.violation(rid, f, es.stmt, f"column index `{c.name}` of `{norm(es.stmt)}` is not the state-vector position of "
                                                   f"`{ast.unparse(sexpr)}`: " + "; ".join(probs), facts, label=label)
                else:
                    ctx.ok(rid, f, es.stmt, f"column `{c.name}` is advanced once per element of the full state list by that element's "
                                            f"layout extent and `{ast.unparse(sexpr)}` is that element's symbol", facts, label=label)
            elif lv is not None:
                probs, facts = check_layout_column(ctx, S, lay, lv, sexpr)
                if probs:
                    ctx.violation(rid, f, es.stmt, f"column `{ast.unparse(kcol)}` of `{norm(es.stmt)}` is read from the state layout but "
                                                   + "; ".join(probs), facts, label=label)
                else:
                    ctx.ok(rid, f, es.stmt, f"column `{ast.unparse(kcol)}` is read from the state layout for the variable whose symbol "
                                            f"`{ast.unparse(sexpr)}` is differentiated against", facts, label=label)
            else:
                pair = _same_binder_pair(S, kcol, sexpr)
                if pair is not None and pair[0][0] == "key" and pair[1][0] == "value" and same_expr(pair[0][1], pair[1][1]):
                    ctx.ok(rid, f, es.stmt, f"parameter column `{ast.unparse(kcol)}` is the name bound together with the symbol "
                                            f"`{ast.unparse(sexpr)}` (slot numbers: C18)", {"table": ast.unparse(pair[0][1])}, label=label)
                else:
                    why = foreign_index_reason(S, lay, kcol)
                    if why is None:
                        raise AnalysisError(f"{rid}: {f.qual}: cannot determine where the column index `{ast.unparse(kcol)}` of "
                                            f"`{norm(es.stmt)}` comes from (unrecognised form)")
                    ctx.violation(rid, f, es.stmt, f"column index `{ast.unparse(kcol)}` of `{norm(es.stmt)}` is {why}: neither read from "
                                                   f"the state layout nor a counter over the full state list nor the name paired with "
                                                   f"`{ast.unparse(sexpr)}`", label=label)
    ctx.require(n_stores >= 4, f"{rid}: expected 4 entry stores (J0, J_hist, dfdu, dfdp), found {n_stores}")
    _r1_emitters(ctx, rid)
    _r1_fortran(ctx, rid)
    _r1_text_indices(ctx, rid)
    _r1_emit_hooks(ctx, rid)


# =================================================================================================
# R2: the state-layout loops
# =================================================================================================

@dataclass(eq=False)
class LayoutLoop:
    f: object
    loop: ast.For
    var: str                 # loop variable naming the state variable
    counter: str
    map_text: str            # `self._state_var_indices` or a local name
    paths: List[dict] = field(default_factory=list)   # symbolic execution results
    problems: List[str] = field(default_factory=list)


def _get_var_equiv(ctx, f, S: Scope, e: ast.AST, var: str) -> bool:
    """Is `e` the ComputeVar of state variable `var`: self.get_var(var), or element 0 of self._process_var_update(var, ...)?"""
    selfn = f.self_name
    if isinstance(e, ast.Name):
        bs = S.binds(e)
        if len(bs) != 1 or bs[0].kind != "value":
            return False
        v, p = bs[0].expr, bs[0].path
        if not p:
            return _get_var_equiv(ctx, f, S, v, var)
        if p == (0,) and isinstance(v, ast.Call) and is_attr_of(v.func, selfn, "_process_var_update") and v.args \
                and isinstance(v.args[0], ast.Name) and v.args[0].id == var:
            g = cg_func(ctx, "_process_var_update")
            Sg = Scope(ctx, g)
            p0 = [a for a in g.params if a != g.self_name][0]
            rets = [r for r in walk_shallow(g.node) if isinstance(r, ast.Return)]
            if not rets:
                return False
            for r in rets:
                if not (isinstance(r.value, ast.Tuple) and r.value.elts and isinstance(r.value.elts[0], ast.Name)):
                    return False
                x = Sg.single_value(r.value.elts[0])
                if not (isinstance(x, ast.Call) and is_attr_of(x.func, g.self_name, "get_var") and x.args
                        and isinstance(x.args[0], ast.Name) and x.args[0].id == p0):
                    return False
            return True
        return False
    return (isinstance(e, ast.Call) and is_attr_of(e.func, selfn, "get_var") and len(e.args) == 1
            and isinstance(e.args[0], ast.Name) and e.args[0].id == var)


def layout_loops(ctx) -> List[LayoutLoop]:
    """Every loop over var_updates['DEs'] that stores, under the loop's variable name, a value built from a loop-carried counter.
    The loop body is executed symbolically (path-sensitive environment of the locals it assigns: temporaries such as
    `stop = idx + n`, `result = stop` are followed; the counter may be advanced by `+=` or by re-assignment), each path yields
    what was stored and the counter's final value in terms of its value C0 at the start of the iteration."""
    cached = getattr(ctx, "_c12_layout_loops", None)
    if cached is not None:
        return cached
    out: List[LayoutLoop] = []
    ctx._c12_layout_loops = out
    C0, N = sp.Symbol("C0"), sp.Symbol("N", positive=True, integer=True)
    for f in cg_methods(ctx):
        selfn = f.self_name
        if selfn is None:
            continue
        for loop in [n for n in walk_shallow(f.node) if isinstance(n, ast.For) and _iterates_des(n.iter, selfn)]:
            tgt = loop.target
            var = tgt.id if isinstance(tgt, ast.Name) else (tgt.elts[0].id if isinstance(tgt, ast.Tuple) and isinstance(tgt.elts[0], ast.Name) else None)
            if var is None:
                continue
            stores = [s for s in ast.walk(loop) if isinstance(s, ast.Assign) and len(s.targets) == 1
                      and isinstance(s.targets[0], ast.Subscript) and isinstance(s.targets[0].slice, ast.Name)
                      and s.targets[0].slice.id == var]
            if not stores:
                continue
            S = Scope(ctx, f)
            assigned = set()
            for x in ast.walk(loop):
                if isinstance(x, ast.AugAssign) and isinstance(x.target, ast.Name):
                    assigned.add(x.target.id)
                elif isinstance(x, ast.Assign):
                    for t in x.targets:
                        for nm in ast.walk(t):
                            if isinstance(nm, ast.Name) and isinstance(nm.ctx, ast.Store):
                                assigned.add(nm.id)
            for nm in ast.walk(loop.target):
                if isinstance(nm, ast.Name):
                    assigned.discard(nm.id)

            def map_text_of(st):
                m = st.targets[0].value
                if isinstance(m, ast.Name):
                    v = S.single_value(m)
                    if isinstance(v, (ast.Attribute, ast.Name)):
                        m = v
                return ast.unparse(m)
            maps = {map_text_of(s_) for s_ in stores}

            def leaf(n, f=f, S=S, var=var):
                if isinstance(n, ast.Call) and call_name(n) == "sum" and len(n.args) == 1:
                    a = n.args[0]
                    if isinstance(a, ast.Name):
                        a = S.single_value(a)
                    if isinstance(a, ast.Attribute) and a.attr == "shape" and _get_var_equiv(ctx, f, S, a.value, var):
                        return N
                return None
            fresh = [0]

            def conv(e, env):
                return symx.to_sympy(e, leaf=leaf, env=env)

            def cond_text(t, neg, env):
                if isinstance(t, ast.Compare) and len(t.ops) == 1:
                    try:
                        l, r = conv(t.left, env), conv(t.comparators[0], env)
                    except symx.Unsupported:
                        return None
                    op = type(t.ops[0]).__name__
                    flip = {"Gt": "LtE", "LtE": "Gt", "Lt": "GtE", "GtE": "Lt", "Eq": "NotEq", "NotEq": "Eq"}
                    swap = {"Gt": "Lt", "Lt": "Gt", "GtE": "LtE", "LtE": "GtE", "Eq": "Eq", "NotEq": "NotEq"}
                    if r == N and l != N:       # 1 < n  ->  n > 1
                        l, r, op = r, l, swap.get(op)
                    if neg:
                        op = flip.get(op)
                    # canonical: N-relations written with N on the left
                    if op in ("Gt", "GtE") and r.is_Integer and l == N:
                        k = int(r) + (1 if op == "Gt" else 0)
                        return f"N>={k}"
                    if op in ("Lt", "LtE") and r.is_Integer and l == N:
                        k = int(r) - (1 if op == "Lt" else 0)
                        return f"N<={k}"
                    if op in ("Eq",) and r.is_Integer and l == N:
                        return f"N=={int(r)}"
                    return f"{l} {op} {r}"
                if isinstance(t, ast.UnaryOp) and isinstance(t.op, ast.Not):
                    return cond_text(t.operand, not neg, env)
                return None

            def writes(st):
                return any(x in stores or (isinstance(x, (ast.Assign, ast.AugAssign)) and any(
                    isinstance(nm, ast.Name) and isinstance(nm.ctx, ast.Store) and nm.id in assigned
                    for t in (x.targets if isinstance(x, ast.Assign) else [x.target]) for nm in ast.walk(t))) for x in ast.walk(st))

            def run(stmts, env, conds, stored):
                """symbolic execution of a statement list; returns list of (env, conds, stored) states."""
                states = [(env, conds, stored)]
                for st in stmts:
                    nxt = []
                    for env, conds, stored in states:
                        if isinstance(st, ast.If):
                            if not writes(st):
                                nxt.append((env, conds, stored))
                                continue
                            ct, cf = cond_text(st.test, False, env), cond_text(st.test, True, env)
                            if ct is None or cf is None:
                                raise AnalysisError(f"C12-R2: {f.qual}: branch `{norm(st)}` of the layout loop has an unrecognised test")
                            nxt += run(st.body, dict(env), conds + [ct], stored)
                            nxt += run(st.orelse, dict(env), conds + [cf], stored)
                        elif st in stores:
                            v = st.value
                            try:
                                if isinstance(v, ast.Tuple) and len(v.elts) == 2:
                                    val = (conv(v.elts[0], env), conv(v.elts[1], env))
                                else:
                                    val = (conv(v, env), None)
                            except symx.Unsupported as e:
                                raise AnalysisError(f"C12-R2: {f.qual}: stored layout value `{norm(st)}` unsupported: {e}")
                            nxt.append((env, conds, stored + [val]))
                        elif isinstance(st, ast.AugAssign) and isinstance(st.target, ast.Name):
                            env = dict(env)
                            try:
                                cur = env.get(st.target.id, sp.Symbol(st.target.id))
                                d = conv(st.value, env)
                                if isinstance(st.op, ast.Add):
                                    env[st.target.id] = cur + d
                                elif isinstance(st.op, ast.Sub):
                                    env[st.target.id] = cur - d
                                elif isinstance(st.op, ast.Mult):
                                    env[st.target.id] = cur * d
                                else:
                                    raise symx.Unsupported("operator")
                            except symx.Unsupported:
                                fresh[0] += 1
                                env[st.target.id] = sp.Symbol(f"{st.target.id}?{fresh[0]}")
                            nxt.append((env, conds, stored))
                        elif isinstance(st, (ast.Assign, ast.AnnAssign)) and not isinstance(getattr(st, "value", None), type(None)):
                            env = dict(env)
                            tgs = st.targets if isinstance(st, ast.Assign) else [st.target]
                            for t in tgs:
                                pairs = []
                                if isinstance(t, ast.Name):
                                    pairs = [(t, st.value)]
                                elif isinstance(t, (ast.Tuple, ast.List)) and isinstance(st.value, (ast.Tuple, ast.List)) \
                                        and len(t.elts) == len(st.value.elts):
                                    pairs = [(a, b) for a, b in zip(t.elts, st.value.elts) if isinstance(a, ast.Name)]
                                elif isinstance(t, (ast.Tuple, ast.List)):
                                    pairs = [(a, None) for a in t.elts if isinstance(a, ast.Name)]
                                vals = []
                                for a, b in pairs:
                                    try:
                                        if b is None:
                                            raise symx.Unsupported("opaque")
                                        vals.append((a.id, conv(b, env)))
                                    except symx.Unsupported:
                                        fresh[0] += 1
                                        vals.append((a.id, sp.Symbol(f"{a.id}?{fresh[0]}")))
                                for k, v in vals:
                                    env[k] = v
                            nxt.append((env, conds, stored))
                        elif isinstance(st, (ast.For, ast.While, ast.Try, ast.With)) and writes(st):
                            raise AnalysisError(f"C12-R2: {f.qual}: layout store/increment nested in `{norm(st)}` (unrecognised form)")
                        else:
                            nxt.append((env, conds, stored))
                    states = nxt
                return states
            states = run(loop.body, {}, [], [])
            # the counter: the loop-carried local whose value at the start of the iteration appears in what is stored
            cands = set()
            for env, conds, stored in states:
                for lo, hi in stored:
                    for sym in (lo.free_symbols | (hi.free_symbols if hi is not None else set())):
                        if sym.name in assigned:
                            cands.add(sym.name)
            if not cands:
                continue
            if len(cands) != 1 or len(maps) != 1:
                raise AnalysisError(f"C12-R2: {f.qual}: layout loop `{norm(loop)}` has an unrecognised form "
                                    f"(counters {sorted(cands)}, maps {sorted(maps)})")
            counter = cands.pop()
            ll = LayoutLoop(f, loop, var, counter, maps.pop())
            out.append(ll)
            csym = sp.Symbol(counter)

            def c0(x):
                return None if x is None else x.subs(csym, C0)
            for env, conds, stored in states:
                fin = env.get(counter, csym)
                ll.paths.append({"cond": " & ".join(c.replace(counter, "C0") if False else c for c in conds) or "always",
                                 "stored": [(c0(lo), c0(hi)) for lo, hi in stored], "final": c0(fin)})
    return out


LAYOUT_CONSUMERS = ("to_func", "get_jacobian_func", "_compute_symbolic_jacobian")


def consumer_layout_loop(ctx, f, lls: List[LayoutLoop], depth=3):
    """The state-layout loop that function `f` executes: its own, or the one of a (private helper) method of the graph class it
    calls, followed through the call graph.  -> (LayoutLoop, node in f that stands for it) or None."""
    own = [ll for ll in lls if ll.f is f]
    if len(own) == 1:
        return own[0], own[0].loop
    if len(own) > 1:
        raise AnalysisError(f"C12-R2: {f.qual}: {len(own)} state-layout loops in one function (unrecognised form)")
    if depth <= 0:
        return None
    gcls = graph_cls(ctx)
    hits = []
    for c in walk_shallow(f.node):
        if not isinstance(c, ast.Call):
            continue
        if not isinstance(c.func, ast.Attribute):        # self.helper(..), ComputeGraph.helper(..), type(self).helper(..)
            continue
        targets, how = ctx.cg.resolve_call(getattr(f, "origin", None) or f, c)
        if how in ("by-name", "external"):
            continue
        for g in targets:
            if g is f or g.cls is None or g.cls not in gcls.mro and gcls not in g.cls.mro:
                continue
            if g.qualname.split(".")[-1] in LAYOUT_CONSUMERS:
                continue        # another consumer: judged on its own
            r = consumer_layout_loop(ctx, g, lls, depth - 1)
            if r is not None and all(r[0] is not h[0] for h in hits):
                hits.append((r[0], c))
    if len(hits) > 1:
        raise AnalysisError(f"C12-R2: {f.qual}: reaches {len(hits)} different state-layout loops through helpers (unrecognised form)")
    return hits[0] if hits else None


def r2_layout_loops(ctx, rid):
    lls = layout_loops(ctx)
    names = sorted(ll.f.qualname for ll in lls)
    C0, N = sp.Symbol("C0"), sp.Symbol("N", positive=True, integer=True)
    nfs = {}
    probs_of = {}
    for ll in lls:
        probs = []
        nf = []
        for p in ll.paths:
            if len(p["stored"]) != 1:
                probs.append(f"on the path `{p['cond']}` the layout of `{ll.var}` is stored {len(p['stored'])} times")
                continue
            lo, hi = p["stored"][0]
            fin = p["final"]
            if sp.simplify(lo - C0) != 0:
                probs.append(f"on the path `{p['cond']}` the stored extent starts at {lo}, not at the counter")
            if hi is not None:
                if sp.simplify(fin - hi) != 0:
                    probs.append(f"on the path `{p['cond']}` ({lo}, {hi}) is stored but `{ll.counter}` ends at {fin}: the next variable "
                                 f"{'overlaps this one' if sp.simplify(hi - fin).is_positive else 'does not start where this one ends'}")
            else:
                if sp.simplify(fin - lo - 1) != 0:
                    probs.append(f"on the path `{p['cond']}` a single position {lo} is stored but `{ll.counter}` ends at {fin}")
            nf.append((p["cond"], str(sp.simplify(lo - C0)), None if hi is None else str(sp.simplify(hi - C0)), str(sp.simplify(fin - C0))))
        nfs[ll] = sorted(nf, key=str)
        probs_of[ll] = probs
    consumers = []
    for name in LAYOUT_CONSUMERS:
        f = cg_func(ctx, name)
        r = consumer_layout_loop(ctx, f, lls)
        ctx.require(r is not None, f"{rid}: no state-layout loop found in {f.qualname} or in a helper method it calls "
                                   f"(layout loops found in: {names})")
        consumers.append((f, r[0], r[1]))
    for f, ll, at in consumers:
        probs = probs_of[ll]
        where = "" if ll.f is f else f" (in its helper {ll.f.qualname})"
        facts = {"paths": [{"cond": a, "lo": b, "hi": c, "counter_after": d} for a, b, c, d in nfs[ll]], "map": ll.map_text,
                 "loop_in": ll.f.qualname}
        if probs:
            ctx.violation(rid, f, at, f"state-layout loop of {f.qualname}{where} does not advance `{ll.counter}` by exactly the extent it "
                                      f"stored: " + "; ".join(probs), facts, label="layout loop advances by stored extent")
        else:
            ctx.ok(rid, f, at, f"every path stores an extent starting at the counter and advances the counter to its end{where}", facts,
                   label="layout loop advances by stored extent")
    # sibling equality: to_func defines the layout of the vector field
    ref_f, ref_ll, _ = consumers[0]
    ref = nfs[ref_ll]
    for f, ll, at in consumers[1:]:
        facts = {"this": nfs[ll], "to_func": ref}
        if ll is ref_ll:
            ctx.ok(rid, f, at, f"{f.qualname} runs the very layout loop of to_func (shared helper {ll.f.qualname})", facts,
                   label="layout loop equals to_func's")
        elif nfs[ll] == ref:
            ctx.ok(rid, f, at, "layout loop equals the one of to_func after normalisation (same branches, same extents)", facts,
                   label="layout loop equals to_func's")
        else:
            ctx.violation(rid, f, at, f"the state-layout loop of {f.qualname} differs from the one of to_func after normalisation: "
                                      f"the Jacobian would use another ordering/extent of y than the vector field", facts,
                          label="layout loop equals to_func's")
    # any further copy of the layout loop (not reached from the three consumers) must agree as well
    for ll in lls:
        if all(ll is not c[1] for c in consumers):
            facts = {"this": nfs[ll], "to_func": ref}
            if probs_of[ll] or nfs[ll] != ref:
                ctx.violation(rid, ll.f, ll.loop, f"the state-layout loop of {ll.f.qualname} differs from the one of to_func or does not "
                                                  f"advance by the stored extent: " + "; ".join(probs_of[ll]), facts,
                              label="layout loop equals to_func's")
            else:
                ctx.ok(rid, ll.f, ll.loop, "further copy of the layout loop equals the one of to_func", facts,
                       label="layout loop equals to_func's")
    # the per-DE lists of _get_symbolic_rhs
    roles = symbolic_rhs_roles(ctx)
    g = cg_func(ctx, "_get_symbolic_rhs")
    ctx.ok(rid, g, g.node, "f_exprs / y_syms / var_is_vector are appended exactly once, unconditionally, per DE", {"positions": roles},
           label="per-DE lists are full")


# =================================================================================================
# emitters
# =================================================================================================

def _call_args(call: ast.Call, names: List[str], S: Optional[Scope] = None) -> Dict[str, ast.AST]:
    """parameter name -> argument expression.  With a Scope, `*args` whose single definition is a tuple/list display is expanded."""
    out = {}
    pos = []
    for a in call.args:
        if isinstance(a, ast.Starred) and S is not None:
            v = S.single_value(a.value)
            if isinstance(v, (ast.Tuple, ast.List)) and not any(isinstance(x, ast.Starred) for x in v.elts):
                pos += list(v.elts)
                continue
        pos.append(a)
    for i, a in enumerate(pos):
        if isinstance(a, ast.Starred):
            break
        if i < len(names):
            out[names[i]] = a
    for k in call.keywords:
        if k.arg:
            out[k.arg] = k.value
    return out


def alias_root(S: Scope, n: ast.AST) -> Optional[str]:
    """Name `n` -> the name it is a plain alias of (`J0_entries = entries` chains, one definition each); its own id otherwise."""
    if not isinstance(n, ast.Name):
        return None
    for _ in range(8):
        bs = S.binds(n)
        if len(bs) == 1 and bs[0].kind == "value" and not bs[0].path and isinstance(bs[0].expr, ast.Name):
            n = bs[0].expr
        else:
            break
    return n.id


def alias_roots(S: Scope, n: ast.AST, depth=0) -> set:
    """All names `n` may be a plain alias of (every reaching definition followed; empty dict/list displays contribute nothing)."""
    if not isinstance(n, ast.Name) or depth > 8:
        return set()
    out = set()
    bs = S.binds(n)
    for b in bs:
        if b.kind == "value" and not b.path and isinstance(b.expr, ast.Name):
            out |= alias_roots(S, b.expr, depth + 1)
        elif b.kind == "value" and b.expr is not None and ((isinstance(b.expr, ast.Dict) and not b.expr.keys)
                                                          or (isinstance(b.expr, ast.Call) and call_name(b.expr) == "dict" and not b.expr.args
                                                              and not b.expr.keywords)) and len(bs) > 1:
            continue
        else:
            out.add(n.id)
    return out or {n.id}


def iter_bind(S: Scope, e: ast.AST, depth=0) -> Optional[Tuple[Bind, tuple]]:
    """Name `e` is (a component of) the element of exactly one for/comprehension: (its Bind, path inside the element).
    Looks through `a, b = elem`, `a = elem[0]`, `a = b`."""
    if not isinstance(e, ast.Name) or depth > 4:
        return None
    bs = S.binds(e)
    if len(bs) != 1:
        return None
    b = bs[0]
    if b.kind == "iter":
        return b, tuple(b.path)
    if b.kind != "value" or b.expr is None:
        return None
    v = b.expr
    if isinstance(v, ast.Name):
        r = iter_bind(S, v, depth + 1)
        return (r[0], r[1] + tuple(b.path)) if r else None
    if not b.path and isinstance(v, ast.Subscript) and isinstance(v.slice, ast.Constant) and isinstance(v.slice.value, int) \
            and v.slice.value >= 0:
        r = iter_bind(S, v.value, depth + 1)
        return (r[0], r[1] + (v.slice.value,)) if r else None
    return None


def key_component(S: Scope, e: ast.AST, stores: List[EntryStore]) -> Optional[Tuple[str, int, ast.AST]]:
    """If Name `e` is component `pos` of the key of one entry of an entry table: (table root, pos, binder)."""
    ib = iter_bind(S, e)
    if ib is None:
        return None
    b, path = ib
    role, base, rest = element_origin(b.expr, path)
    if role != "key" or len(rest) != 1 or not isinstance(base, ast.Name):
        return None
    roots0 = {s.root for s in stores if s.depth == 0}
    roots1 = {s.root for s in stores if s.depth == 1}
    if alias_root(S, base) in roots0 and all(b2.kind == "value" for b2 in S.binds(base)):
        return alias_root(S, base), rest[0], b.node
    bb = iter_bind(S, base)
    if bb is not None:
        r2, b2, rest2 = element_origin(bb[0].expr, bb[1])
        if r2 == "value" and not rest2 and isinstance(b2, ast.Name) and alias_root(S, b2) in roots1:
            return alias_root(S, b2), rest[0], b.node
    return None


def table_value(S: Scope, e: ast.AST, stores: List[EntryStore]) -> Optional[str]:
    """If Name `e` is the value of one entry of an entry table: the table root."""
    ib = iter_bind(S, e)
    if ib is None:
        return None
    role, base, rest = element_origin(ib[0].expr, ib[1])
    if role != "value" or rest or not isinstance(base, ast.Name):
        return None
    if alias_root(S, base) in {s.root for s in stores if s.depth == 0}:
        return alias_root(S, base)
    bb = iter_bind(S, base)
    if bb is not None:
        r2, b2, rest2 = element_origin(bb[0].expr, bb[1])
        if r2 == "value" and not rest2 and isinstance(b2, ast.Name) and alias_root(S, b2) in {s.root for s in stores if s.depth == 1}:
            return alias_root(S, b2)
    return None


def foreign_key_reason(S: Scope, e: ast.AST, stores: List[EntryStore]) -> Optional[str]:
    """A positive reason why `e` is not a component of a table key (it is something else that is understood); None = unknown."""
    if isinstance(e, ast.Constant):
        return f"the literal {e.value!r}"
    if isinstance(e, ast.Name):
        if table_value(S, e, stores):
            return "the value (not the key) of a table entry"
        if counter_of(S, e) is not None:
            return f"the hand-advanced counter `{e.id}`"
        ib = iter_bind(S, e)
        if ib is not None:
            role, base, rest = element_origin(ib[0].expr, ib[1])
            if role == "index":
                return f"the enumerate position `{e.id}`"
            if role == "key" and len(rest) != 1:
                return "a whole key, not one of its two components"
            it = strip_wrappers(ib[0].expr)
            if isinstance(it, ast.Call) and isinstance(it.func, ast.Name) and it.func.id == "range":
                return f"the range counter `{e.id}`"
            if role in ("key", "value", "elem"):
                return f"bound by `{norm(ib[0].node) if isinstance(ib[0].node, ast.stmt) else ast.unparse(ib[0].expr)}`, which does not " \
                       f"iterate over a Jacobian entry table"
    return None


def is_start_idx(S: Scope, e: Optional[ast.AST]) -> bool:
    if e is None:
        return False
    v = S.single_value(e)
    return isinstance(v, ast.Attribute) and v.attr == "_start_idx"


def emit_sites(ctx):
    f = cg_func(ctx, "get_jacobian_func")
    S = Scope(ctx, f)
    stores = entry_stores(ctx, f)
    out = []
    for c in walk_shallow(f.node):
        if isinstance(c, ast.Call) and call_name(c) == "emit_local_array_assign":
            a = _call_args(c, ["name", "indices", "expr"])
            if "indices" in a:
                a["indices"] = S.single_value(a["indices"])
            if not {"name", "indices", "expr"} <= set(a) or not isinstance(a["indices"], (ast.Tuple, ast.List)) or len(a["indices"].elts) != 2:
                raise AnalysisError(f"C12: {f.qual}: `{norm(c)}` has an unrecognised argument form")
            # `r = i_r + start` defined beforehand: look through single-definition locals of each index
            elts = [S.single_value(x) if isinstance(S.single_value(x), ast.BinOp) else x for x in a["indices"].elts]
            a["indices"] = ast.copy_location(ast.Tuple(elts=elts, ctx=ast.Load()), a["indices"])
            out.append((c, a))
    if len(out) < 2:
        raise AnalysisError(f"C12: expected 2 emit_local_array_assign calls in get_jacobian_func, found {len(out)}")
    return f, S, stores, sorted(out, key=lambda t: t[0].lineno)


def _r1_emitters(ctx, rid):
    f, S, stores, sites = emit_sites(ctx)
    for i, (c, a) in enumerate(sites):
        r, cidx = a["indices"].elts
        kr, kc = key_component(S, split_offset(r, S)[0], stores), key_component(S, split_offset(cidx, S)[0], stores)
        label = f"emitter #{i + 1}: (row, column) from table keys"
        facts = {"indices": ast.unparse(a["indices"]), "row": kr and kr[:2], "column": kc and kc[:2]}
        if kr is None or kc is None:
            whys = [foreign_key_reason(S, split_offset(x, S)[0], stores) for x, k in ((r, kr), (cidx, kc)) if k is None]
            if not all(whys):
                raise AnalysisError(f"{rid}: {f.qual}: `{norm(c)}`: cannot determine where the emitted indices "
                                    f"`{ast.unparse(a['indices'])}` come from (unrecognised form)")
            ctx.violation(rid, f, c, f"`{norm(c)}`: the emitted (row, column) is not taken from the key of a Jacobian entry table "
                                     f"(row from {kr and kr[:2]}, column from {kc and kc[:2]}): {'; '.join(whys)}", facts, label=label)
        elif kr[0] != kc[0] or kr[2] is not kc[2]:
            ctx.violation(rid, f, c, f"`{norm(c)}`: row and column come from different tables/iterations", facts, label=label)
        elif (kr[1], kc[1]) != (0, 1):
            ctx.violation(rid, f, c, f"`{norm(c)}`: key component {kr[1]} is emitted as row and {kc[1]} as column: the matrix is "
                                     f"transposed (entries are stored as (row of f_i, column of y_j))", facts, label=label)
        else:
            ctx.ok(rid, f, c, f"(row, column) are components (0, 1) of the keys of `{kr[0]}`", facts, label=label)


def r5_index_base(ctx, rid):
    f, S, stores, sites = emit_sites(ctx)
    for i, (c, a) in enumerate(sites):
        r, cidx = a["indices"].elts
        br, bc = split_offset(r, S)[1], split_offset(cidx, S)[1]
        label = f"emitter #{i + 1}: index base"
        facts = {"indices": ast.unparse(a["indices"])}
        if is_start_idx(S, br) and is_start_idx(S, bc) and same_expr(S.single_value(br), S.single_value(bc)):
            ctx.ok(rid, f, c, "row and column are both offset by the backend's start index", facts, label=label)
        else:
            ctx.violation(rid, f, c, f"`{norm(c)}`: row offset `{br and ast.unparse(br)}` and column offset `{bc and ast.unparse(bc)}` "
                                     f"are not both the backend's `_start_idx`: on a 1-based backend entries land one row/column off", facts,
                          label=label)
    _r5_fortran(ctx, rid)
    _r5_text_indices(ctx, rid)


# =================================================================================================
# Fortran DFDU / DFDP emission
# =================================================================================================

def dict_key_read(S: Scope, e: ast.AST, obj: str) -> Optional[str]:
    """`obj.get('k'[, d])`, `obj['k']`, `obj.get('k') or {}` (through single-definition names) -> 'k'."""
    e = S.single_value(e)
    if isinstance(e, ast.BoolOp) and isinstance(e.op, ast.Or):
        e = e.values[0]
    if isinstance(e, ast.Call) and isinstance(e.func, ast.Attribute) and e.func.attr == "get" and isinstance(e.func.value, ast.Name) \
            and e.func.value.id == obj and e.args and isinstance(e.args[0], ast.Constant):
        return e.args[0].value
    if isinstance(e, ast.Subscript) and isinstance(e.value, ast.Name) and e.value.id == obj and isinstance(e.slice, ast.Constant):
        return e.slice.value
    return None


def symbolic_jacobian_exports(ctx) -> Dict[str, ast.AST]:
    g = cg_func(ctx, "_compute_symbolic_jacobian")
    rets = [r for r in walk_shallow(g.node) if isinstance(r, ast.Return)]
    if len(rets) != 1 or not isinstance(rets[0].value, ast.Dict):
        raise AnalysisError("C12: _compute_symbolic_jacobian no longer returns one dict literal (unrecognised form)")
    return {k.value: v for k, v in zip(rets[0].value.keys, rets[0].value.values) if isinstance(k, ast.Constant)}


def fortran_block(ctx):
    cached = getattr(ctx, "_c12_fortran", None)
    if cached is not None:
        return cached
    f0 = ctx.repo.get_func(FORT, "FortranBackend._emit_auto_jacobian_block")
    f = analysis_view(ctx, f0)        # shared emission helpers / entry generators spliced in; reported with f0
    S = Scope(ctx, f)

    def deref(h):
        v = S.single_value(h)
        return v if isinstance(v, ast.BinOp) else h
    jac = [p for p in f0.params if p != f0.self_name][0]
    exports = symbolic_jacobian_exports(ctx)
    g = cg_func(ctx, "_compute_symbolic_jacobian")
    gstores = entry_stores(ctx, g)
    lines = []
    for c in walk_shallow(f.node):
        if isinstance(c, ast.Call) and call_name(c) == "add_code_line" and c.args:
            t, holes = string_template(S, c.args[0])
            if t is None:
                continue
            m = re.match(r"^\s*(dfdu|dfdp)\(⟨(\d+)⟩\s*,\s*⟨(\d+)⟩\)\s*=\s*⟨(\d+)⟩\s*$", t)
            if m:
                lines.append({"kind": m.group(1), "call": c, "row": deref(holes[int(m.group(2))]), "col": deref(holes[int(m.group(3))]),
                              "val": holes[int(m.group(4))], "template": t})
            elif re.search(r"\bdfd[up]\s*\(", t):
                raise AnalysisError(f"C12: {f.qual}: Jacobian line `{t}` has an unrecognised form")
    kinds = sorted(l["kind"] for l in lines)
    if kinds != ["dfdp", "dfdu"]:
        raise AnalysisError(f"C12: {f.qual}: expected one dfdu and one dfdp emission line, found {kinds}")

    def exported_key(e: ast.AST, pos: int):
        """Name e is component pos of the key of jac[<k>] -> (k, binder) ; else None"""
        ib = iter_bind(S, e)
        if ib is None:
            return None
        role, base, rest = element_origin(ib[0].expr, ib[1])
        if role != "key" or tuple(rest) != (pos,):
            return None
        k = dict_key_read(S, base, jac)
        return (k, ib[0].node) if k else None
    def provenance(e: ast.AST):
        """what an emitted index is, whether right or wrong: ('key', table key, position) / ('value', table key) / ('const',) /
        ('counter',); None when it cannot be traced to an entry of jac[..] (e.g. element of an opaque iterable)"""
        if e is None:
            return None
        if isinstance(e, ast.Constant):
            return ("const",)
        ib = iter_bind(S, e)
        if ib is None:
            return ("counter",) if isinstance(e, ast.Name) and counter_of(S, e) is not None else None
        role, base, rest = element_origin(ib[0].expr, ib[1])
        if role == "index":
            return ("counter",)
        k = dict_key_read(S, base, jac) if role in ("key", "value") else None
        if k is None:
            return None
        return ("key", k, tuple(rest)) if role == "key" else ("value", k)
    res = {"f": f0, "view": f, "S": S, "jac": jac, "provenance": provenance, "lines": lines, "exports": exports, "gstores": gstores, "exported_key": exported_key}
    ctx._c12_fortran = res
    return res


def _r1_fortran(ctx, rid):
    fb = fortran_block(ctx)
    f, S = fb["f"], fb["S"]
    roots = {s.root for s in fb["gstores"]}
    # the dict handed over is the result of _compute_symbolic_jacobian
    gen = ctx.repo.get_func(FORT, "FortranBackend._generate_auto_files")
    genv = _inlined(ctx, gen, keep=("_emit_auto_jacobian_block",))     # the call may sit in an extracted emitter of the func wrapper
    Sg = Scope(ctx, genv)
    calls = [c for c in walk_shallow(genv.node) if isinstance(c, ast.Call) and call_name(c) == "_emit_auto_jacobian_block"]
    ctx.require(len(calls) == 1 and calls[0].args, f"{rid}: call of _emit_auto_jacobian_block in _generate_auto_files not recognised")
    v = Sg.single_value(calls[0].args[0])
    popped = isinstance(v, ast.Call) and call_name(v) == "pop" and v.args and isinstance(v.args[0], ast.Constant) and v.args[0].value
    tf = cg_func(ctx, "to_func")
    St = Scope(ctx, tf)
    def setters_in(fn):
        return [s for s in walk_shallow(fn.node) if isinstance(s, ast.Assign) and len(s.targets) == 1
                and isinstance(s.targets[0], ast.Subscript) and isinstance(s.targets[0].slice, ast.Constant)
                and s.targets[0].slice.value == popped and isinstance(s.targets[0].value, ast.Name)]
    src_ok = False
    kwname = tf.node.args.kwarg.arg if tf.node.args.kwarg is not None else None
    for s in setters_in(tf):
        x = St.single_value(s.value)
        src_ok = isinstance(x, ast.Call) and is_attr_of(x.func, tf.self_name, "_compute_symbolic_jacobian") \
            and s.targets[0].value.id == kwname
    if not src_ok and kwname:
        # the store may sit in a helper that receives to_func's keyword dict as a parameter
        for c in walk_shallow(tf.node):
            if not (isinstance(c, ast.Call) and isinstance(c.func, ast.Attribute)):
                continue
            passed = [i for i, a in enumerate(c.args) if isinstance(a, ast.Name) and a.id == kwname]
            passed_kw = [k.arg for k in c.keywords if k.arg and isinstance(k.value, ast.Name) and k.value.id == kwname]
            if not passed and not passed_kw:
                continue
            targets, how = ctx.cg.resolve_call(getattr(tf, "origin", None) or tf, c)
            if len(targets) != 1 or how in ("by-name", "external"):
                continue
            h = targets[0]
            hps = [p for p in h.params if p != h.self_name]
            recv = passed_kw + [hps[i] for i in passed if i < len(hps)]
            Sh = Scope(ctx, h)
            for s in setters_in(h):
                x = Sh.single_value(s.value)
                if isinstance(x, ast.Call) and is_attr_of(x.func, h.self_name or "", "_compute_symbolic_jacobian") \
                        and s.targets[0].value.id in recv and all(b.kind == "param" for b in Sh.binds(s.targets[0].value)):
                    src_ok = True
    if popped and src_ok:
        ctx.ok(rid, gen, calls[0], f"the Jacobian block receives kwargs[{popped!r}], which to_func sets to the result of "
                                   f"_compute_symbolic_jacobian", label="jacobian data hand-over", nontrivial=False)
    else:
        raise AnalysisError(f"{rid}: cannot follow the Jacobian data from to_func to _emit_auto_jacobian_block (key {popped!r})")
    for l in fb["lines"]:
        kr = fb["exported_key"](split_offset(l["row"])[0], 0)
        label = f"{l['kind']} line: indices from table keys"
        facts = {"template": l["template"]}
        want = l["kind"]
        if l["kind"] == "dfdu":
            kc = fb["exported_key"](split_offset(l["col"])[0], 1)
            facts.update(row=kr and kr[0], column=kc and kc[0])
            if kr is None or kc is None or kr[1] is not kc[1]:
                if fb["provenance"](split_offset(l["row"])[0]) is None or fb["provenance"](split_offset(l["col"])[0]) is None:
                    raise AnalysisError(f"{rid}: {f.qual}: `{l['template']}`: cannot trace the emitted indices back to an entry of the "
                                        f"exported table (unrecognised form)")
                # transposed?
                tr = fb["exported_key"](split_offset(l["row"])[0], 1), fb["exported_key"](split_offset(l["col"])[0], 0)
                why = "row and column are swapped (key component 1 emitted as row): DFDU is transposed" if all(tr) else \
                    "row/column are not components (0, 1) of the keys of the exported table"
                ctx.violation(rid, f, l["call"], f"`{l['template']}`: {why}", facts, label=label)
                continue
        else:
            cv = S.single_value(l["col"])
            karg = None
            if isinstance(cv, ast.Call) and isinstance(cv.func, ast.Attribute) and cv.func.attr == "get" and cv.args:
                karg = cv.args[0]
            elif isinstance(cv, ast.Subscript):
                karg = cv.slice
            kc = fb["exported_key"](karg, 1) if karg is not None else None
            facts.update(row=kr and kr[0], column_lookup=ast.unparse(cv))
            if kr is None or kc is None or kr[1] is not kc[1]:
                if fb["provenance"](split_offset(l["row"])[0]) is None or (karg is not None and fb["provenance"](karg) is None) or \
                        (karg is None and fb["provenance"](cv) is None):
                    raise AnalysisError(f"{rid}: {f.qual}: `{l['template']}`: cannot trace the emitted indices back to an entry of the "
                                        f"exported table (unrecognised form)")
                ctx.violation(rid, f, l["call"], f"`{l['template']}`: the row is not key component 0 / the column is not looked up by the "
                                                 f"parameter name (key component 1) of the same dfdp entry", facts, label=label)
                continue
        if kr[0] != want or kc[0] != want:
            ctx.violation(rid, f, l["call"], f"`{l['template']}` is filled from jac[{kr[0]!r}]/jac[{kc[0]!r}] instead of jac[{want!r}]", facts, label=label)
            continue
        ex = fb["exports"].get(want)
        gS = fb.setdefault("gS", Scope(ctx, cg_func(ctx, "_compute_symbolic_jacobian")))
        if not (isinstance(ex, ast.Name) and alias_roots(gS, ex) <= roots):
            ctx.violation(rid, f, l["call"], f"_compute_symbolic_jacobian exports `{ex and ast.unparse(ex)}` under {want!r}, which is not "
                                             f"the table its sympy.diff results are stored in", facts, label=label)
            continue
        # value printed is the value of the same entry
        varg = S.single_value(l["val"])
        varg = varg.args[0] if isinstance(varg, ast.Call) and varg.args else varg
        vib = iter_bind(S, varg)
        if vib is None:
            raise AnalysisError(f"{rid}: {f.qual}: `{l['template']}`: cannot determine where the printed expression "
                                f"`{ast.unparse(l['val'])}` comes from (unrecognised form)")
        if not (vib[0].node is kr[1] and element_origin(vib[0].expr, vib[1])[0] == "value"):
            ctx.violation(rid, f, l["call"], f"`{l['template']}`: the printed expression is not the value of the entry whose key gives the indices", facts, label=label)
            continue
        ctx.ok(rid, f, l["call"], f"indices and value come from one entry of the table exported as {want!r} (row = key[0], "
                                  f"{'column = key[1]' if want == 'dfdu' else 'column looked up by key[1]'})", facts, label=label)


def fortran_start_idx(ctx) -> Optional[int]:
    """the literal start index FortranBackend.__init__ hands to its base class (directly, or through a module-level / class-level
    named constant with exactly one definition)"""
    init = ctx.repo.get_func(FORT, "FortranBackend.__init__")
    S = Scope(ctx, init)

    def const(v, depth=0):
        if depth > 4:
            return None
        v = S.single_value(v) if depth == 0 else v
        if isinstance(v, ast.Constant) and isinstance(v.value, int) and not isinstance(v.value, bool):
            return v.value
        if isinstance(v, ast.Name):
            defs = init.module.assigns.get(v.id) or []
            if len(defs) == 1 and getattr(defs[0], "value", None) is not None:
                return const(defs[0].value, depth + 1)
        if isinstance(v, ast.Attribute) and isinstance(v.value, ast.Name) and init.cls is not None \
                and v.value.id in (init.self_name, init.cls.name, "cls"):
            r = ctx.repo.lookup_attr(init.cls, v.attr)
            if r is not None:
                return const(r[1], depth + 1)
        return None
    for c in walk_shallow(init.node):
        if isinstance(c, ast.Call) and call_name(c) == "__init__":
            for k in c.keywords:
                if k.arg == "start_idx":
                    return const(k.value)
    return None


def _r5_fortran(ctx, rid):
    fb = fortran_block(ctx)
    f = fb["f"]
    base = fortran_start_idx(ctx)
    ctx.require(base is not None, f"{rid}: FortranBackend.__init__ no longer passes a literal start_idx")
    for l in fb["lines"]:
        br = split_offset(l["row"])[1]
        offs = [br] + ([split_offset(l["col"])[1]] if l["kind"] == "dfdu" else [])
        good = all(isinstance(o, ast.Constant) and o.value == base for o in offs)
        facts = {"template": l["template"], "fortran_start_idx": base}
        label = f"{l['kind']} line: index base"
        if not good:
            idxs = [l["row"]] + ([l["col"]] if l["kind"] == "dfdu" else [])
            if any(fb["provenance"](split_offset(x)[0]) is None for x in idxs):
                raise AnalysisError(f"{rid}: {f.qual}: `{l['template']}`: cannot trace the emitted indices back to an entry of the "
                                    f"exported table, so their index base is unknown (unrecognised form)")
        if good:
            ctx.ok(rid, f, l["call"], f"state indices are offset by {base} (FortranBackend's start index) on "
                                      f"{'row and column' if l['kind'] == 'dfdu' else 'the row'}", facts, label=label)
        else:
            ctx.violation(rid, f, l["call"], f"`{l['template']}`: offsets {[o and ast.unparse(o) for o in offs]} are not all "
                                             f"+{base}: 0-based positions of y are written into 1-based Fortran arrays one off", facts, label=label)


# =================================================================================================
# indices into y / the history vector inside emitted expression text
# =================================================================================================

def text_index_sites(ctx):
    cached = getattr(ctx, "_c12_text", None)
    if cached is not None:
        return cached
    sites = []
    # (1) history placeholders in get_jacobian_func
    f = cg_func(ctx, "get_jacobian_func")
    S = Scope(ctx, f)
    lay = layout_for(ctx, f, S)
    for n, t, h in templates_spliced(S, f.node):
        m = re.match(r"^_yhist_⟨\d+⟩\[⟨(\d+)⟩(:⟨\d+⟩)?\]$", t or "")
        if m:
            sites.append({"f": f, "S": S, "lay": lay, "node": n, "text": t, "hole": h[int(m.group(1))], "what": "history vector",
                          "base": "start"})
    # (2) state placeholders in _expr_to_jac_str
    g = cg_func(ctx, "_expr_to_jac_str")
    Sg = Scope(ctx, g)
    cand = []
    for n, t, h in templates_spliced(Sg, g.node):
        m = re.match(r"^y\[⟨(\d+)⟩(:⟨\d+⟩)?\]$", t or "")
        if m:
            cand.append((n, t, h[int(m.group(1))]))
    if not cand:
        raise AnalysisError("C12: _expr_to_jac_str no longer builds `y[...]` references from f-strings (unrecognised form)")
    # which parameter supplies the indices?
    pmaps = set()
    for n, t, hole in cand:
        k = split_offset(hole, Sg)[0]
        while isinstance(k, ast.Subscript):
            k = k.value
        if isinstance(k, ast.Name):
            bs = Sg.binds(k)
            if len(bs) == 1 and bs[0].kind == "iter":
                role, base, rest = element_origin(bs[0].expr, bs[0].path)
                if role == "value" and isinstance(base, ast.Name) and base.id in g.params:
                    pmaps.add(base.id)
    trusted = set()
    for pm in pmaps:
        pos = [p for p in g.params if p != g.self_name].index(pm)
        ok_all, n_sites = True, 0
        for caller in cg_methods(ctx):
            Sc = None
            for c in walk_shallow(caller.node):
                if isinstance(c, ast.Call) and is_attr_of(c.func, caller.self_name or "", "_expr_to_jac_str"):
                    Sc = Sc or Scope(ctx, caller)
                    a = _call_args(c, [p for p in g.params if p != g.self_name], Sc)
                    n_sites += 1
                    if pm not in a or not layout_for(ctx, caller, Sc).is_map(a[pm]):
                        ok_all = False
        if ok_all and n_sites:
            trusted.add(pm)
    layg = layout_for(ctx, g, Sg, trusted=trusted)
    for n, t, hole in cand:
        sites.append({"f": g, "S": Sg, "lay": layg, "node": n, "text": t, "hole": hole, "what": "state vector", "base": "start"})
    # (3) Fortran y(i) placeholders
    fb = fortran_block(ctx)
    ff, Sf = fb["f"], fb["S"]
    fview = fb["view"]
    trusted_f = set()
    for n in walk_shallow(fview.node):
        if isinstance(n, ast.Name) and isinstance(n.ctx, ast.Load):
            k = dict_key_read(Sf, n, fb["jac"]) if any(b.kind == "value" for b in Sf.binds(n)) else None
            if k is not None:
                ex = fb["exports"].get(k)
                gg = cg_func(ctx, "_compute_symbolic_jacobian")
                if ex is not None and layout_for(ctx, gg).is_map(ex):
                    trusted_f.add(n.id)

    gg_lay = layout_for(ctx, cg_func(ctx, "_compute_symbolic_jacobian"))

    class _FL(Layout):
        def is_map(self, e, depth=0):
            if isinstance(e, ast.Name) and e.id in trusted_f:
                return True
            if not isinstance(e, ast.Name):       # jac.get('sym_to_y_idx', {}) / jac['sym_to_y_idx'] iterated in place
                k = dict_key_read(Sf, e, fb["jac"])
                ex = fb["exports"].get(k) if k is not None else None
                if ex is not None and gg_lay.is_map(ex):
                    return True
            return super().is_map(e, depth)
    layf = _FL(ctx, Sf)
    for n, t, h in templates_in(fview.node):
        m = re.match(r"^__PYR_Y_⟨(\d+)⟩__$", t or "")
        if m:
            sites.append({"f": ff, "S": Sf, "lay": layf, "node": n, "text": t, "hole": h[int(m.group(1))], "what": "Fortran y(i)",
                          "base": "fortran"})
    if len(sites) < 4:
        raise AnalysisError(f"C12: expected >= 4 index templates (2 history, 1-2 state, 1 Fortran), found {len(sites)}")
    ctx._c12_text = sites
    return sites


def _site_label(s):
    return f"index in `{s['text']}`".replace("⟨", "{").replace("⟩", "}")


def _r1_text_indices(ctx, rid):
    for s in text_index_sites(ctx):
        k = split_offset(s["hole"], s["S"])[0]
        lv = s["lay"].value(k)
        st = parent(s["node"])
        while st is not None and not isinstance(st, ast.stmt):
            st = parent(st)
        label = _site_label(s) + ": from layout"
        if lv is not None:
            ctx.ok(rid, s["f"], st, f"the {s['what']} subscript `{ast.unparse(k)}` is a value of the state layout "
                                    f"`{ast.unparse(lv['map'])}`", label=label)
        else:
            why = foreign_index_reason(s["S"], s["lay"], k)
            if why is None:
                raise AnalysisError(f"{rid}: {s['f'].qual}: cannot determine where the {s['what']} subscript `{ast.unparse(k)}` in "
                                    f"`{s['text']}` comes from (unrecognised form)")
            ctx.violation(rid, s["f"], st, f"the {s['what']} subscript `{ast.unparse(k)}` in `{s['text']}` is {why}, not read from the "
                                           f"state layout: the emitted derivative reads another component of y", label=label)


def _r5_text_indices(ctx, rid):
    fbase = fortran_start_idx(ctx)
    for s in text_index_sites(ctx):
        off = split_offset(s["hole"], s["S"])[1]
        st = parent(s["node"])
        while st is not None and not isinstance(st, ast.stmt):
            st = parent(st)
        label = _site_label(s) + ": index base"
        if s["base"] == "start":
            good = is_start_idx(s["S"], off)
            want = "the backend's `_start_idx`"
        else:
            good = isinstance(off, ast.Constant) and off.value == fbase
            want = f"+{fbase} (FortranBackend's start index)"
        if good:
            ctx.ok(rid, s["f"], st, f"the {s['what']} subscript is offset by {want}", label=label)
        else:
            ctx.violation(rid, s["f"], st, f"the {s['what']} subscript in `{s['text']}` has offset `{off and ast.unparse(off)}` instead of "
                                           f"{want}: entries and the state they read would use different index bases", label=label)


# =================================================================================================
# emit_local_array_assign overrides
# =================================================================================================

class _Rename(ast.NodeTransformer):
    def __init__(self, mapping):
        self.mapping = mapping

    def visit_Name(self, n):
        if n.id in self.mapping:
            return ast.copy_location(ast.Name(id=self.mapping[n.id], ctx=n.ctx), n)
        return n


def _fold_constant_holes(node: ast.AST) -> None:
    """f'{'dfdu'}({r})' -> f'dfdu({r})': literal holes (left behind when a helper's parameter received a literal) become text."""
    for js in [n for n in ast.walk(node) if isinstance(n, ast.JoinedStr)]:
        # f'{f'_yhist_{d}'}[{i}]' -> f'_yhist_{d}[{i}]': a formatted string in a plain hole is part of the text
        flat, again = list(js.values), True
        while again:
            again, nxt = False, []
            for v in flat:
                if isinstance(v, ast.FormattedValue) and isinstance(v.value, ast.JoinedStr) and v.format_spec is None and v.conversion == -1:
                    nxt.extend(v.value.values)
                    again = True
                else:
                    nxt.append(v)
            flat = nxt
        js.values = flat
        vals = []
        for v in js.values:
            if isinstance(v, ast.FormattedValue) and isinstance(v.value, ast.Constant) and v.format_spec is None and v.conversion in (-1, 115) \
                    and isinstance(v.value.value, (str, int)) and not isinstance(v.value.value, bool):
                v = ast.copy_location(ast.Constant(value=str(v.value.value)), v)
            if vals and isinstance(v, ast.Constant) and isinstance(vals[-1], ast.Constant):
                vals[-1] = ast.copy_location(ast.Constant(value=str(vals[-1].value) + str(v.value)), vals[-1])
            else:
                vals.append(v)
        js.values = vals


def _fold_constant_tests(fnode: ast.AST) -> int:
    """`if True: A else: B` -> A, `if False: A else: B` -> B (left behind when a helper's flag parameter received a literal)."""
    n = [0]

    def block(stmts):
        out = []
        for st in stmts:
            if isinstance(st, ast.If) and isinstance(st.test, ast.Constant) and isinstance(st.test.value, (bool, int)):
                n[0] += 1
                out.extend(block(st.body if st.test.value else st.orelse))
                continue
            for fld in ("body", "orelse", "finalbody"):
                if isinstance(getattr(st, fld, None), list) and not isinstance(st, (ast.FunctionDef, ast.AsyncFunctionDef, ast.ClassDef)):
                    new = block(getattr(st, fld))
                    if fld == "body" and not new:
                        new = [ast.copy_location(ast.Pass(), st)]
                    setattr(st, fld, new)
            if isinstance(st, ast.Try):
                for h in st.handlers:
                    h.body = block(h.body) or [ast.copy_location(ast.Pass(), st)]
            out.append(st)
        return out
    fnode.body = block(fnode.body) or [ast.Pass()]
    return n[0]


def _splice_local_generators(fnode: ast.AST) -> int:
    """`for T in G(): BODY` (or `cells = G() ... for T in cells`) where G is a parameterless generator function nested in the same
    function with exactly one `yield E` statement: replaced by G's statements with `yield E` turned into `T = E; BODY`.  Iterating
    a generator runs its body interleaved with the consumer's loop body in exactly this order, so the rewrite preserves behaviour;
    G's locals are renamed apart.  Returns the number of loops rewritten."""
    gens = {}
    for st in fnode.body if hasattr(fnode, "body") else []:
        pass
    for d in ast.walk(fnode):
        if isinstance(d, ast.FunctionDef) and d is not fnode:
            a = d.args
            if a.args or a.posonlyargs or a.kwonlyargs or a.vararg or a.kwarg:
                continue
            ys = [n for n in ast.walk(d) if isinstance(n, (ast.Yield, ast.YieldFrom))]
            inner_defs = [n for n in ast.walk(d) if isinstance(n, (ast.FunctionDef, ast.AsyncFunctionDef)) and n is not d]
            rets = [n for n in ast.walk(d) if isinstance(n, ast.Return)]
            if len(ys) != 1 or not isinstance(ys[0], ast.Yield) or ys[0].value is None or inner_defs or rets:
                continue
            ystmts = [n for n in ast.walk(d) if isinstance(n, ast.Expr) and n.value is ys[0]]
            if len(ystmts) != 1:
                continue
            if any(isinstance(n, (ast.Global, ast.Nonlocal, ast.Try, ast.With)) for n in ast.walk(d)):
                continue
            gens[d.name] = d
    if not gens:
        return 0
    from engine.inline import clone
    count = [0]

    def gen_call(e):
        return isinstance(e, ast.Call) and isinstance(e.func, ast.Name) and e.func.id in gens and not e.args and not e.keywords

    def rewrite_block(stmts: list) -> list:
        out = []
        for i, st in enumerate(stmts):
            for fld in ("body", "orelse", "finalbody"):
                if isinstance(getattr(st, fld, None), list) and not isinstance(st, (ast.FunctionDef, ast.AsyncFunctionDef, ast.ClassDef)):
                    setattr(st, fld, rewrite_block(getattr(st, fld)))
            if isinstance(st, ast.Try):
                for h in st.handlers:
                    h.body = rewrite_block(h.body)
            if isinstance(st, ast.For) and not st.orelse:
                src, drop = None, None
                if gen_call(st.iter):
                    src = st.iter
                elif isinstance(st.iter, ast.Name):
                    # single assignment `X = G()` in the same block before the loop, X used nowhere else
                    defs = [x for x in ast.walk(fnode) if isinstance(x, ast.Name) and x.id == st.iter.id]
                    asg = [x for x in out if isinstance(x, ast.Assign) and len(x.targets) == 1 and isinstance(x.targets[0], ast.Name)
                           and x.targets[0].id == st.iter.id and gen_call(x.value)]
                    if len(asg) == 1 and len(defs) == 2:
                        src, drop = asg[0].value, asg[0]
                if src is not None and not any(isinstance(x, (ast.Break, ast.Continue, ast.Return, ast.Yield)) for b in st.body for x in ast.walk(b)):
                    g = gens[src.func.id]
                    count[0] += 1
                    body = clone([b for b in g.body if not (isinstance(b, ast.Expr) and isinstance(b.value, ast.Constant))])
                    stored = {n.id for b in body for n in ast.walk(b) if isinstance(n, ast.Name) and isinstance(n.ctx, ast.Store)}
                    mapping = {nm: f"{nm}__gen_{count[0]}" for nm in stored}
                    body = [_Rename(mapping).visit(b) for b in body]

                    def put(block):
                        res = []
                        for b in block:
                            if isinstance(b, ast.Expr) and isinstance(b.value, ast.Yield):
                                asn = ast.copy_location(ast.Assign(targets=[st.target], value=b.value.value), st)
                                res.append(asn)
                                res.extend(st.body)
                            else:
                                for fld in ("body", "orelse"):
                                    if isinstance(getattr(b, fld, None), list):
                                        setattr(b, fld, put(getattr(b, fld)))
                                res.append(b)
                        return res
                    if drop is not None:
                        out.remove(drop)
                    out.extend(put(body))
                    continue
            out.append(st)
        return out
    fnode.body = rewrite_block(fnode.body)
    return count[0]


# long-standing methods of ComputeGraph the rules anchor on: they stay calls in a view; every other private helper is spliced in
CG_ANCHORS = ("_get_symbolic_rhs", "_expr_to_jac_str", "_resolve_derivatives", "_process_var_update", "_compute_symbolic_jacobian",
              "_extract_past_terms", "_node_to_expr", "_to_str", "_generate_vecfield_var", "_get_var_hist", "_sort_var_updates")


def analysis_view(ctx, f, keep=()):
    """The function as the rules look at it: private helpers spliced in (engine.inline), local one-yield generators spliced into the
    loops that consume them, literal f-string holes folded into the text.  A synthetic FunctionInfo (identity semantics) when
    anything changed, else `f` itself.  Obligations must be reported with the ORIGINAL f."""
    cache = ctx.__dict__.setdefault("_c12_views", {})
    ckey = (f, tuple(sorted(keep)))
    if ckey in cache:
        return cache[ckey]
    f_key = ckey
    fi = _inlined(ctx, f, keep=keep)
    try:
        from engine.inline import clone, _mk, InlinedFunction
        from engine.srcmodel import set_parents
        node = clone(fi.node)
        n = _splice_local_generators(node) + _fold_constant_tests(node)
        before = ast.dump(node)
        _fold_constant_holes(node)
        if n or ast.dump(node) != before:
            ast.fix_missing_locations(node)
            set_parents(node)
            node._parent = getattr(f.node, "_parent", None)
            v = _mk(InlinedFunction, f, node)
            v.origin = f
            v.inlined_helpers = list(getattr(fi, "inlined_helpers", ()))
            fi = v
    except ImportError:
        pass
    cache[f_key] = fi
    return fi


def cg_view(ctx, name):
    """analysis view of a ComputeGraph method with the anchor methods kept as calls"""
    return cg_func(ctx, name)


def _inlined(ctx, f, keep=()):
    """f with its private helpers spliced in (engine.inline); f itself when nothing is to splice or the inliner gives up.
    `keep`: names of (long-standing) methods the rule wants to keep seeing as calls."""
    try:
        from engine.inline import inlined
    except ImportError:
        return f
    cache = ctx.__dict__.setdefault("_c12_inlined", {})
    key = (f, tuple(sorted(keep)))
    if key not in cache:
        try:
            cache[key] = inlined(ctx, f, keep=tuple(keep))
        except AnalysisError:
            cache[key] = f
    return cache[key]


def _r1_emit_hooks(ctx, rid):
    base = ctx.repo.get_class(BASE, "BaseBackend")
    n = 0
    for cls in ctx.repo.subclasses(base):
        f = cls.methods.get("emit_local_array_assign")
        if f is None:
            continue
        n += 1
        f0 = f
        f = _inlined(ctx, f0)          # private helpers (e.g. an extracted index-joining helper) spliced in; reported with f0
        S = Scope(ctx, f)
        ps = [p for p in f0.params if p != f0.self_name]
        if len(ps) != 3:
            raise AnalysisError(f"{rid}: {f.qual}: signature changed")
        pname, pidx, pexpr = ps
        lines = [c for c in walk_shallow(f.node) if isinstance(c, ast.Call) and call_name(c) == "add_code_line" and c.args]
        if len(lines) != 1:
            raise AnalysisError(f"{rid}: {f.qual}: expected one emitted line")
        t, holes = string_template(S, lines[0].args[0])
        if t is None:
            raise AnalysisError(f"{rid}: {f.qual}: emitted line is not a recognisable string template")
        # render template with role names
        role = {}
        idx_hole = None
        for i, hnode in enumerate(holes):
            if isinstance(hnode, ast.Name) and hnode.id == pname:
                role[i] = "NAME"
            elif isinstance(hnode, ast.Name) and hnode.id == pexpr:
                role[i] = "EXPR"
            else:
                role[i] = "IDX"
                idx_hole = hnode
        shape = re.sub(r"⟨(\d+)⟩", lambda m: role[int(m.group(1))], t)
        shape = re.sub(r"\s+", "", shape)
        if shape not in ("NAME[IDX]=EXPR", "NAME=NAME.at[IDX].set(EXPR)"):
            raise AnalysisError(f"{rid}: {f.qual}: emitted line `{t}` has an unrecognised shape `{shape}`")
        v = S.single_value(idx_hole)
        good, why = None, ""        # None = form not understood

        def renders_itself(elt, var: str) -> Optional[bool]:
            """elt prints loop variable `var` unchanged (str/repr/format/f-string/%): True; prints something else: False; unknown: None"""
            if isinstance(elt, ast.Call) and isinstance(elt.func, ast.Name) and elt.func.id in ("str", "repr", "format") and len(elt.args) == 1:
                inner = elt.args[0]
            else:
                tt, hh = string_template(S, elt)
                if tt is None or len(hh) != 1 or tt != "⟨0⟩":
                    return None if tt is None else False
                inner = hh[0]
            if isinstance(inner, ast.Name) and inner.id == var:
                return True
            if isinstance(inner, ast.Call) and isinstance(inner.func, ast.Name) and inner.func.id == "int" and len(inner.args) == 1 \
                    and isinstance(inner.args[0], ast.Name) and inner.args[0].id == var:
                return True
            return False if any(isinstance(x, ast.Name) and x.id == var for x in ast.walk(inner)) else None

        def in_order(it) -> Optional[bool]:
            it0 = it
            while isinstance(it, ast.Call) and isinstance(it.func, ast.Name) and it.func.id in ("list", "tuple", "iter") and len(it.args) == 1:
                it = it.args[0]
            it = S.single_value(it)
            if isinstance(it, ast.Name) and it.id == pidx and all(b.kind == "param" for b in S.binds(it)):
                return True
            if any(isinstance(x, ast.Name) and x.id == pidx for x in ast.walk(it)):
                return False        # reversed(indices), sorted(indices), indices[::-1], ...
            return None
        sepv = S.single_value(v.func.value) if isinstance(v, ast.Call) and isinstance(v.func, ast.Attribute) else None
        if isinstance(v, ast.Call) and isinstance(v.func, ast.Attribute) and v.func.attr == "join" and len(v.args) == 1 \
                and isinstance(sepv, ast.Constant) and isinstance(sepv.value, str) and sepv.value.strip() == ",":
            gen = S.single_value(v.args[0])
            if isinstance(gen, (ast.GeneratorExp, ast.ListComp)) and len(gen.generators) == 1 and not gen.generators[0].ifs \
                    and isinstance(gen.generators[0].target, ast.Name):
                g0 = gen.generators[0]
                elt_ok, it_ok = renders_itself(gen.elt, g0.target.id), in_order(g0.iter)
                if it_ok is False:
                    good, why = False, f"the indices are rendered from `{ast.unparse(g0.iter)}`, not from `{pidx}` in the order given"
                elif elt_ok is False:
                    good, why = False, f"an index is rendered as `{ast.unparse(gen.elt)}` instead of itself"
                elif it_ok and elt_ok:
                    good = True
            elif isinstance(gen, ast.Call) and call_name(gen) == "map" and len(gen.args) == 2 and ast.unparse(gen.args[0]) in ("str", "repr"):
                it_ok = in_order(gen.args[1])
                if it_ok is not None:
                    good = it_ok
                    why = f"the indices are rendered from `{ast.unparse(gen.args[1])}`, not from `{pidx}` in the order given"
        if good is None:
            raise AnalysisError(f"{rid}: {f.qual}: the index text `{ast.unparse(v)}` is not a recognised rendering of `{pidx}` "
                                f"(expected `sep.join(str(i) for i in {pidx})` or an equivalent spelling)")
        facts = {"template": t, "indices": ast.unparse(v)}
        if good:
            ctx.ok(rid, f0, lines[0], f"{cls.name} writes `name[i, j]` with all indices in the order given", facts, label="index rendering")
        else:
            ctx.violation(rid, f0, lines[0], f"{cls.name}.emit_local_array_assign: {why}: entries of the Jacobian emitted through this "
                                            f"backend land at other positions than on the other backends", facts, label="index rendering")
    ctx.require(n >= 2, f"{rid}: expected emit_local_array_assign in BaseBackend and JaxBackend, found {n}")


# =================================================================================================
# R3: derivative placeholders are resolved before printing
# =================================================================================================

def jac_str_resolves_first(ctx) -> Tuple[bool, Optional[ast.stmt], str]:
    g = cg_func(ctx, "_expr_to_jac_str")
    S = Scope(ctx, g)
    p = [x for x in g.params if x != g.self_name][0]
    R = [st for st in walk_shallow(g.node) if isinstance(st, ast.Assign) and len(st.targets) == 1 and isinstance(st.targets[0], ast.Name)
         and st.targets[0].id == p and isinstance(st.value, ast.Call) and is_attr_of(st.value.func, g.self_name, "_resolve_derivatives")
         and st.value.args and isinstance(st.value.args[0], ast.Name) and st.value.args[0].id == p]
    if not R:
        return False, None, f"`{p}` is never passed through _resolve_derivatives"
    raw = [n for n in walk_shallow(g.node) if isinstance(n, ast.Name) and n.id == p and isinstance(n.ctx, ast.Load)
           and not contains(R[0].value, n) and any(b.kind == "param" for b in S.binds(n))]
    if raw:
        st = raw[0]
        while not isinstance(st, ast.stmt):
            st = parent(st)
        return False, R[0], f"`{norm(st)}` reads the unresolved `{p}`"
    return True, R[0], ""


def r3_resolved_before_print(ctx, rid):
    g = cg_func(ctx, "_expr_to_jac_str")
    inner_ok, rstmt, why = jac_str_resolves_first(ctx)
    if inner_ok:
        ctx.ok(rid, g, rstmt, "_expr_to_jac_str replaces its argument by _resolve_derivatives(argument) before any other use",
               label="_expr_to_jac_str resolves first")
    else:
        ctx.violation(rid, g, rstmt or g.node, f"_expr_to_jac_str prints entries without resolving derivative placeholders first: {why}; "
                                               f"Derivative(sigmoid(..)) / Subs(..) would be dropped (entry left 0) or printed verbatim",
                      label="_expr_to_jac_str resolves first")
    exports = symbolic_jacobian_exports(ctx)
    for f in jac_functions(ctx):
        stores = entry_stores(ctx, f)
        S = stores[0].S if stores else Scope(ctx, f)
        value_loads: Dict[str, List[ast.Name]] = {}
        for n in walk_shallow(f.node):
            if isinstance(n, ast.Name) and isinstance(n.ctx, ast.Load):
                r = table_value(S, n, stores)
                if r:
                    value_loads.setdefault(r, []).append(n)
        for es in stores:
            resolved = all(r for _, r in es.diffs)
            exported = [k for k, v in exports.items() if isinstance(v, ast.Name) and es.root in alias_roots(S, v)] \
                if f.qualname.endswith("_compute_symbolic_jacobian") else []
            direct = []
            for n in value_loads.get(es.root, []):
                par = parent(n)
                if isinstance(par, ast.Call) and call_name(par) == "_expr_to_jac_str" and par.args and par.args[0] is n:
                    continue
                # a use prints the value if it hands it to another callable or formats it into text
                if (isinstance(par, ast.Call) and n in par.args) or isinstance(par, (ast.FormattedValue, ast.keyword, ast.Starred)):
                    direct.append(norm(par))
            facts = {"resolved_at_store": resolved, "exported_as": exported, "printed_directly_at": direct}
            label = f"resolve before print: {norm(es.stmt)}"
            if resolved:
                ctx.ok(rid, f, es.stmt, "the stored derivative is the result of _resolve_derivatives(diff(...))", facts, label=label)
            elif exported or direct:
                ctx.violation(rid, f, es.stmt, f"`{norm(es.stmt)}` stores a raw sympy.diff result in table `{es.root}` that is "
                                               f"{'exported as ' + repr(exported[0]) + ' to the Fortran printer' if exported else 'printed at ' + direct[0]} "
                                               f"without passing _resolve_derivatives: Derivative/Subs placeholders of sigmoid/absv/identity "
                                               f"reach the generated code", facts, label=label)
            elif not inner_ok:
                ctx.violation(rid, f, es.stmt, f"`{norm(es.stmt)}` stores a raw sympy.diff result and its only printer _expr_to_jac_str does "
                                               f"not resolve it ({why})", facts, label=label)
            else:
                ctx.ok(rid, f, es.stmt, f"raw diff result; every value of `{es.root}` is printed through _expr_to_jac_str, which resolves first",
                       facts, label=label)
    # the code text handed to the emitters is the result of _expr_to_jac_str of a table value
    f, S, stores, sites = emit_sites(ctx)
    for i, (c, a) in enumerate(sites):
        code = a["expr"]
        srcs = []
        good = isinstance(code, ast.Name)
        if good:
            for b in S.binds(code):
                v = b.expr
                if not (b.kind == "value" and isinstance(v, ast.Call) and call_name(v) == "_expr_to_jac_str" and v.args
                        and table_value(S, v.args[0], stores)):
                    good = False
                srcs.append(norm(b.node))
        label = f"emitter #{i + 1}: code comes from _expr_to_jac_str"
        if good and srcs:
            ctx.ok(rid, f, c, "the emitted expression is _expr_to_jac_str(<table value>)", {"defs": srcs}, label=label)
        else:
            ctx.violation(rid, f, c, f"`{norm(c)}`: the emitted expression `{ast.unparse(code)}` is not the result of _expr_to_jac_str "
                                     f"applied to the table value: a sympy.diff result reaches the code without _resolve_derivatives "
                                     f"and without the y[i] substitution", {"defs": srcs}, label=label)


# =================================================================================================
# R4: sparse changes only the container
# =================================================================================================

_ENTRY_WORK = ("emit_local_array_assign", "emit_local_array_alloc", "_expr_to_jac_str", "diff", "_get_symbolic_rhs", "add_code_line",
               "generate_func_head", "generate_func", "add_var", "register_vars", "_compute_symbolic_jacobian")


def _flag_selects_value_only(ctx, f, call: ast.Call, arg: ast.Name, depth: int) -> Optional[bool]:
    """`call` hands the flag `arg` to a repository function.  True: the callee computes/emits no Jacobian entry and reads the
    received flag only in tests (it merely selects the value it returns); False: the callee does entry work or uses the flag as
    data; None: cannot be analysed."""
    if depth > 2 or any(isinstance(a, ast.Starred) for a in call.args):
        return None
    targets, how = ctx.cg.resolve_call(getattr(f, "origin", None) or f, call)
    if len(targets) != 1 or how in ("by-name", "external"):
        return None
    g0 = targets[0]
    g = analysis_view(ctx, g0, keep=CG_ANCHORS)
    ps = [p for p in g0.params if p != g0.self_name] if not g0.is_static else list(g0.params)
    a = _call_args(call, ps)
    recv = [k for k, v in a.items() if v is arg]
    if len(recv) != 1:
        return None
    pname = recv[0]
    if any(isinstance(c, ast.Call) and call_name(c) in _ENTRY_WORK for c in ast.walk(g.node)):
        return False
    if any(isinstance(x, (ast.Yield, ast.YieldFrom, ast.Global, ast.Nonlocal)) for x in ast.walk(g.node)):
        return None
    for n in ast.walk(g.node):
        if isinstance(n, ast.Name) and n.id == pname:
            if isinstance(n.ctx, ast.Store):
                return None
            st = n
            while not isinstance(st, ast.stmt):
                st = parent(st)
            in_test = isinstance(st, (ast.If, ast.While)) and contains(st.test, n)
            x = n
            while not in_test and x is not st:
                px = parent(x)
                if isinstance(px, ast.IfExp) and (px.test is x or contains(px.test, n)):
                    in_test = True
                x = px
            if in_test:
                continue
            par = parent(n)
            c2 = par if isinstance(par, ast.Call) else (parent(par) if isinstance(par, ast.keyword) else None)
            if isinstance(c2, ast.Call) and n in list(c2.args) + [k.value for k in c2.keywords]:
                r = _flag_selects_value_only(ctx, g, c2, n, depth + 1)
                if r is True:
                    continue
                return r
            return False
    return True


def _import_only_hook(ctx, call: ast.Call) -> bool:
    """`backend.hook(..)` where every definition of `hook` in the backend class family consists of add_import(..) calls only"""
    if not isinstance(call.func, ast.Attribute):
        return False
    base = ctx.repo.get_class(BASE, "BaseBackend")
    defs = [k.methods[call.func.attr] for k in [base] + list(ctx.repo.subclasses(base, strict=True)) if call.func.attr in k.methods]
    if not defs:
        return False
    for g in defs:
        body = [b for b in g.node.body if not (isinstance(b, ast.Expr) and isinstance(b.value, ast.Constant))]
        if not body or not all(isinstance(b, ast.Pass) or (isinstance(b, ast.Expr) and isinstance(b.value, ast.Call)
                                                             and call_name(b.value) == "add_import") for b in body):
            return False
    return True


class _IdDict(dict):
    pass


def _alternative_emitter_guards(ctx, f, S: Scope, stores, guards, flags) -> dict:
    """`if sparse: A else: B` (test = the bare flag or its negation; `A; continue` inside a loop counts with B = the rest of the
    loop body) where BOTH arms contain a complete traversal of the same entry table(s): a loop over `T.items()` / `sorted(T.items())`
    that lies entirely inside the arm and prints each value through _expr_to_jac_str.  Such a guard switches between two emitters
    of the same matrix instead of changing which entries exist.  -> {guard If node: set of table roots} (keyed by identity)."""
    out = {}

    def pure(t):
        if isinstance(t, ast.UnaryOp) and isinstance(t.op, ast.Not):
            t = t.operand
        return isinstance(t, ast.Name) and t.id in flags

    def roots_of(stmts):
        res = set()
        for b in stmts:
            for c in ast.walk(b):
                if isinstance(c, ast.Call) and call_name(c) == "_expr_to_jac_str" and c.args:
                    r = table_value(S, c.args[0], stores)
                    ib = iter_bind(S, c.args[0])
                    if r is None or ib is None:
                        return None
                    loop = ib[0].node
                    if not any(contains(x, loop) or x is loop for x in stmts):
                        return None         # the traversal started outside the arm
                    # the traversal is not cut short inside the arm (a `continue` only after the unprintable-entry test is fine)
                    for x in ast.walk(loop):
                        if isinstance(x, (ast.Break, ast.Return)):
                            return None
                    res.add(r)
        return res
    for g in guards:
        if not isinstance(g, ast.If) or not pure(g.test):
            continue
        body, orelse = g.body, g.orelse
        if not orelse and body and isinstance(body[-1], ast.Continue):
            par = parent(g)
            if isinstance(par, (ast.For, ast.While)) and g in par.body:
                orelse = par.body[par.body.index(g) + 1:]
        if not orelse:
            continue
        ra, rb = roots_of(body), roots_of(orelse)
        if ra and rb and ra == rb:
            out[g] = ra
    d = _IdDict()
    for k, v in out.items():
        d[k] = v
    return d


def r4_sparse_confined(ctx, rid):
    f = cg_func(ctx, "get_jacobian_func")
    S = Scope(ctx, f)
    ctx.require("sparse" in f.params, f"{rid}: parameter `sparse` of get_jacobian_func vanished")
    flags = {"sparse"}
    changed = True
    while changed:      # names that merely copy/negate the flag
        changed = False
        for st in walk_shallow(f.node):
            if isinstance(st, ast.Assign) and len(st.targets) == 1 and isinstance(st.targets[0], ast.Name) and st.targets[0].id not in flags:
                v = st.value
                if isinstance(v, ast.UnaryOp):
                    v = v.operand
                if isinstance(v, ast.Call) and call_name(v) == "bool" and v.args:
                    v = v.args[0]
                if isinstance(v, ast.Name) and v.id in flags:
                    flags.add(st.targets[0].id)
                    changed = True
    for st in walk_shallow(f.node):
        if isinstance(st, (ast.Assign, ast.AugAssign)) and any(isinstance(t, ast.Name) and t.id == "sparse"
                                                               for t in (st.targets if isinstance(st, ast.Assign) else [st.target])):
            ctx.violation(rid, f, st, "`sparse` is re-bound inside get_jacobian_func", label="sparse re-bound")

    def reads_flag(e):
        return any(isinstance(x, ast.Name) and x.id in flags and isinstance(x.ctx, ast.Load) for x in ast.walk(e))
    guards = []
    helper_guards = []
    helper_tainted = set()
    for n in walk_shallow(f.node):
        if isinstance(n, ast.Name) and n.id in flags and isinstance(n.ctx, ast.Load):
            st = n
            while not isinstance(st, ast.stmt):
                st = parent(st)
            if isinstance(st, (ast.If, ast.While)) and contains(st.test, n):
                if st not in guards:
                    guards.append(st)
            elif isinstance(st, ast.Assign) and len(st.targets) == 1 and isinstance(st.targets[0], ast.Name) and st.targets[0].id in flags:
                pass
            elif isinstance(st, ast.Assign) and all(isinstance(t, ast.Name) for t in st.targets) and isinstance(st.value, ast.IfExp) \
                    and contains(st.value.test, n):
                guards.append(st)      # x = a if sparse else b : treated like a guarded assignment
            else:
                # handed to a helper that only selects a value by it (e.g. builds the return expression)?
                par = parent(n)
                call = par if isinstance(par, ast.Call) else (parent(par) if isinstance(par, ast.keyword) else None)
                verdict = _flag_selects_value_only(ctx, f, call, n, 0) if isinstance(call, ast.Call) else False
                if verdict is True:
                    is_tail = isinstance(st, ast.Expr) and isinstance(st.value, ast.Call) and call_name(st.value) == "generate_func_tail"
                    if isinstance(st, ast.Assign) and all(isinstance(t, ast.Name) for t in st.targets):
                        helper_tainted |= {t.id for t in st.targets}
                        ctx.ok(rid, f, st, f"`{n.id}` is handed to `{call_name(call)}`, which only selects the value it returns by the flag "
                                           f"(flow of the result checked below)", label=f"sparse guard {norm(st)}")
                    elif is_tail and contains(st.value, call):
                        ctx.ok(rid, f, st, f"`{n.id}` is handed to `{call_name(call)}`, which only selects the returned expression by the flag",
                               label=f"sparse guard {norm(st)}")
                    else:
                        raise AnalysisError(f"{rid}: `{norm(st)}`: the flag-dependent result of `{call_name(call)}` is used in an "
                                            f"unrecognised way")
                    helper_guards.append(st)
                elif verdict is None:
                    raise AnalysisError(f"{rid}: `{norm(st)}` hands `{n.id}` to a callee whose use of the flag cannot be analysed")
                else:
                    ctx.violation(rid, f, st, f"`{n.id}` is read outside an if-test (`{norm(st)}`): the flag reaches code that computes or "
                                              f"emits entries", label=f"sparse read in {norm(st)}")
    ctx.require(guards or helper_guards, f"{rid}: `sparse` is never tested in get_jacobian_func")
    # nothing that computes/emits an entry is control dependent on the flag
    stores = entry_stores(ctx, f)
    emitters = [es.stmt for es in stores]
    for c in walk_shallow(f.node):
        if isinstance(c, ast.Call) and call_name(c) in ("emit_local_array_assign", "emit_local_array_alloc", "_expr_to_jac_str", "diff",
                                                        "_get_symbolic_rhs"):
            emitters.append(c)
    alt = _alternative_emitter_guards(ctx, f, S, stores, guards, flags)
    for e in emitters:
        deps = [a for a in ancestors(e) if isinstance(a, (ast.If, ast.While)) and reads_flag(a.test)]
        deps += [a for a in ancestors(e) if isinstance(a, ast.IfExp) and reads_flag(a.test)]
        label = f"not under sparse: {norm(e)}"
        if deps and all(any(d is g for g in alt) for d in deps):
            ctx.ok(rid, f, e, f"on one arm of a pure `sparse` switch whose two arms both traverse every entry of "
                              f"`{', '.join(sorted(alt[[g for g in alt if g is deps[0]][0]]))}` (two emitters of the same matrix)",
                   label=label, nontrivial=False)
        elif deps:
            ctx.violation(rid, f, e, f"`{norm(e)}` is control dependent on `{norm(deps[0]) if isinstance(deps[0], ast.stmt) else ast.unparse(deps[0].test)}`: "
                                     f"sparse=True would change which entries are computed/emitted, not only the container", label=label)
        else:
            ctx.ok(rid, f, e, "computed/emitted independently of `sparse`", label=label, nontrivial=False)
    # guard bodies: only raise / import / assignments that flow into the return expression; no early exits
    tainted = set(helper_tainted)
    for g in guards:
        if isinstance(g, ast.Assign):
            tainted |= {t.id for t in g.targets}
            ctx.ok(rid, f, g, "conditional value selected by `sparse` (flow checked below)", label=f"sparse guard {norm(g)}")
            continue
        if any(g is a for a in alt):
            ctx.ok(rid, f, g, f"pure `sparse` switch between two complete emitters of `{', '.join(sorted(alt[g]))}`: every entry of the "
                              f"table is traversed on either arm (positions/order of the direct sparse form: C12-R12)",
                   label=f"sparse guard {norm(g)}")
            continue
        bad = []
        for st in [x for b in g.body + g.orelse for x in ast.walk(b) if isinstance(x, ast.stmt)]:
            if isinstance(st, (ast.Raise, ast.If, ast.Pass)):
                continue
            if isinstance(st, ast.Assign) and all(isinstance(t, ast.Name) for t in st.targets):
                tainted |= {t.id for t in st.targets}
                continue
            if isinstance(st, ast.Expr) and isinstance(st.value, ast.Call) and call_name(st.value) == "add_import":
                continue
            if isinstance(st, ast.Expr) and isinstance(st.value, ast.Call) and _import_only_hook(ctx, st.value):
                continue        # a backend hook that does nothing but declare imports
            bad.append(norm(st))
        # loops enclosing the guard: an early exit under the guard makes the rest of the loop body depend on the flag
        if bad:
            ctx.violation(rid, f, g, f"under `{norm(g)}` the function does more than raise / add an import / choose the returned wrapper: "
                                     f"{bad[:3]}", {"statements": bad}, label=f"sparse guard {norm(g)}")
        else:
            ctx.ok(rid, f, g, "under the flag only: raise (unsupported backend), add the csr_matrix import, choose the return wrapper",
                   label=f"sparse guard {norm(g)}")
    # tainted names flow only into the return expression
    changed = True
    flow_bad = []
    while changed:
        changed = False
        for n in walk_shallow(f.node):
            if isinstance(n, ast.Name) and n.id in tainted and isinstance(n.ctx, ast.Load):
                st = n
                while not isinstance(st, ast.stmt):
                    st = parent(st)
                under_guard = any(isinstance(g, ast.If) and g is not st and contains(g, st) for g in guards)
                if any(contains(a, st) for a in alt):
                    continue        # inside one of two alternative emitters: judged as an emitter, not as a wrapper choice
                if isinstance(st, ast.Assign) and all(isinstance(t, ast.Name) or (isinstance(t, (ast.Tuple, ast.List)) and all(
                        isinstance(x, ast.Name) for x in t.elts)) for t in st.targets):
                    new = {x.id for t in st.targets for x in ast.walk(t) if isinstance(x, ast.Name)} - tainted
                    if new:
                        tainted |= new
                        changed = True
                elif isinstance(st, ast.Expr) and isinstance(st.value, ast.Call) and call_name(st.value) == "generate_func_tail":
                    pass
                elif under_guard and isinstance(st, (ast.If, ast.Raise)):
                    pass        # tested / reported inside the guarded block, whose statements were vetted above
                elif norm(st) not in flow_bad:
                    flow_bad.append(norm(st))
    tails = [c for c in walk_shallow(f.node) if isinstance(c, ast.Call) and call_name(c) == "generate_func_tail"]
    ctx.require(len(tails) == 1, f"{rid}: expected one generate_func_tail call in get_jacobian_func")
    if flow_bad:
        ctx.violation(rid, f, tails[0], f"a value chosen under `sparse` ({sorted(tainted)}) is used outside the return expression: {flow_bad[:3]}",
                      {"uses": flow_bad}, label="sparse-dependent values flow only into the return")
    else:
        ctx.ok(rid, f, tails[0], f"values chosen under `sparse` ({sorted(tainted)}) are used only to build the return expression",
               label="sparse-dependent values flow only into the return")


# =================================================================================================
# R6: every emission of an entry knows the code of every placeholder the entry can contain
# =================================================================================================

def r6_placeholder_map(ctx, rid):
    f = cg_func(ctx, "get_jacobian_func")
    g = cg_func(ctx, "_expr_to_jac_str")
    S = Scope(ctx, f)
    stores = entry_stores(ctx, f)
    gp = [p for p in g.params if p != g.self_name]
    ctx.require(len(gp) == 3, f"{rid}: signature of _expr_to_jac_str changed")
    # which tables hold derivatives of the vector field after past() terms were replaced by placeholders?
    rhs = cg_func(ctx, "_get_symbolic_rhs")
    extracts = [c for c in walk_shallow(rhs.node) if isinstance(c, ast.Call) and call_name(c) == "_extract_past_terms"]
    ctx.require(extracts, f"{rid}: _get_symbolic_rhs no longer replaces past() terms by placeholders")
    calls = [c for c in walk_shallow(f.node) if isinstance(c, ast.Call) and is_attr_of(c.func, f.self_name, "_expr_to_jac_str")]
    ctx.require(len(calls) >= 1, f"{rid}: no _expr_to_jac_str call left in get_jacobian_func")

    def group_element_key(k) -> Optional[ast.AST]:
        """`k` is component of one element of one delay group (a list that is a value of a local dict): the binder of the element"""
        ib = iter_bind(S, k)
        if ib is None:
            return None
        role, base, rest = element_origin(ib[0].expr, ib[1])
        if role == "value" and not rest and isinstance(base, ast.Name):
            # for (var, delay), fresh in past_map.items(): the placeholder map of _get_symbolic_rhs itself
            bs0 = S.binds(base)
            if len(bs0) == 1 and bs0[0].kind == "value" and isinstance(bs0[0].expr, ast.Call) \
                    and call_name(bs0[0].expr) == "_get_symbolic_rhs":
                return ib[0].node
            return None
        if role != "elem" or len(rest) != 1:
            return None
        if isinstance(base, ast.Subscript):
            base = base.value       # for elem in groups[d]
            if isinstance(base, ast.Name) and all(b.kind == "value" for b in S.binds(base)):
                return ib[0].node
            return None
        bb = iter_bind(S, base)
        if bb is None or element_origin(bb[0].expr, bb[1])[0] != "value":
            return None
        return ib[0].node

    def full_map(e, depth=0) -> Optional[bool]:
        """True: the map with one code string per placeholder of every delay group; False: an empty literal; None: unknown"""
        if depth > 4:
            return None
        if isinstance(e, ast.Dict):
            return False if not e.keys else None
        if isinstance(e, ast.Call) and call_name(e) == "dict" and not e.args and not e.keywords:
            return False
        if isinstance(e, ast.DictComp):
            # {fresh: code for group in groups.values() for fresh, _, idx in group}: unfiltered -> one entry per placeholder
            if any(g.ifs for g in e.generators):
                return None
            return True if group_element_key(e.key) is not None else None
        if not isinstance(e, ast.Name):
            return None
        sts = [st for st in walk_shallow(f.node) if isinstance(st, ast.Assign) and len(st.targets) == 1
               and isinstance(st.targets[0], ast.Subscript) and isinstance(st.targets[0].value, ast.Name) and st.targets[0].value.id == e.id]
        if not sts:
            v = S.single_value(e)
            return full_map(v, depth + 1) if v is not e else None
        loops = set()
        for st in sts:
            binder = group_element_key(st.targets[0].slice)
            if binder is None:
                return None
            if not isinstance(binder, ast.For):
                return None
            loops.add(binder)
        for lp in loops:       # every path through the loop body stores
            def covers(stmts):
                for s in stmts:
                    if s in sts:
                        return True
                    if isinstance(s, ast.If) and s.orelse and covers(s.body) and covers(s.orelse):
                        return True
                    if isinstance(s, (ast.Continue, ast.Break, ast.Return)):
                        return False
                    if isinstance(s, ast.If) and any(isinstance(x, (ast.Continue, ast.Break, ast.Return)) for x in ast.walk(s)):
                        return False
                return False
            if not covers(lp.body):
                return None
        return True
    for c in calls:
        a = _call_args(c, gp, S)
        tv = table_value(S, a.get(gp[0]), stores) if gp[0] in a else None
        if tv is None or gp[2] not in a:
            raise AnalysisError(f"{rid}: `{norm(c)}`: unrecognised argument form")
        fm = full_map(a[gp[2]])
        label = f"placeholder map for entries of {tv}"
        facts = {"table": tv, "past_map_argument": ast.unparse(a[gp[2]])}
        if fm is True:
            ctx.ok(rid, f, c, f"entries of `{tv}` are printed with the code string of every past-state placeholder", facts, label=label)
        elif fm is False:
            ctx.violation(rid, f, c, f"entries of `{tv}` are derivatives of the vector field in which every past(x, tau) was replaced by a "
                                     f"placeholder symbol, but they are printed with an EMPTY placeholder map: an entry that still contains "
                                     f"a delayed factor (e.g. d/da of -a*past(b, tau)) is emitted as the bare name `_past_b_<tau>`, which is "
                                     f"undefined in the generated function", facts, label=label)
        else:
            raise AnalysisError(f"{rid}: `{norm(c)}`: cannot decide whether `{ast.unparse(a[gp[2]])}` covers all placeholders")



def _free_symbol_generators(fnode: ast.AST):
    """(binder, target name, X) for every `for s in X.free_symbols` loop / comprehension generator (order wrappers allowed)."""
    out = []
    for n in ast.walk(fnode):
        gens = []
        if isinstance(n, ast.For):
            gens = [(n, n.target, n.iter)]
        elif isinstance(n, _COMPS):
            gens = [(n, g.target, g.iter) for g in n.generators]
        for binder, tgt, it in gens:
            it = strip_wrappers(it)
            if isinstance(it, ast.Attribute) and it.attr == "free_symbols" and isinstance(tgt, ast.Name):
                out.append((binder, tgt.id, it.value))
    return out


def _membership_table(t: ast.AST, sym: str) -> Optional[Tuple[Optional[str], bool]]:
    """`sym in T` / `sym in T.keys()` / `T.get(sym) is not None` -> (T, True); other tests -> None"""
    if isinstance(t, ast.Compare) and len(t.ops) == 1 and isinstance(t.ops[0], ast.In) and isinstance(t.left, ast.Name) and t.left.id == sym:
        c = t.comparators[0]
        if isinstance(c, ast.Call) and isinstance(c.func, ast.Attribute) and c.func.attr == "keys" and not c.args:
            c = c.func.value
        c = strip_wrappers(c)
        if isinstance(c, ast.Call) and isinstance(c.func, ast.Attribute) and c.func.attr == "keys" and not c.args:
            c = c.func.value
        if isinstance(c, ast.Name):
            return c.id, True
    return None


def r7_algebraic_expansion_fixpoint(ctx, rid):
    """Before differentiation every algebraic (non-DE) intermediate must be expanded until none is left: a symbol that
    stays opaque makes sympy.diff drop the chain-rule terms through it, while the generated vector field still
    evaluates it.  Structural obligations on the expander (the function, nested in or called by _get_symbolic_rhs, that
    iterates over `.free_symbols`):
      (a) the substitution candidates are ALL free symbols found in the definitions table - the filter of the
          substitution map mentions only the loop symbol and that table (no "already expanded" filter, no depth bound);
      (b) the loop repeats while the expression still changes (decided on the CFG: once the expression was replaced by its
          substituted form, control cannot leave the loop before the loop test was passed again / the change flag is set);
      (c) every DE right-hand side goes through the expander before it is appended to the list that is differentiated."""
    f = cg_func(ctx, "_get_symbolic_rhs")
    cands = list(f.nested.values())
    for c in walk_shallow(f.node):
        if isinstance(c, ast.Call) and isinstance(c.func, ast.Attribute) and is_attr_of(c.func, f.self_name or ""):
            for g in ctx.cg.resolve_call(f, c)[0]:
                if g not in cands and g is not f:
                    cands.append(g)
    exps = [g for g in cands if _free_symbol_generators(g.node)]
    if len(exps) != 1:
        raise AnalysisError(f"{rid}: the expander of algebraic intermediates (function iterating over .free_symbols, nested in or "
                            f"called by _get_symbolic_rhs) was not found uniquely ({[g.qualname for g in exps]})")
    exp = exps[0]
    gens = _free_symbol_generators(exp.node)
    if len(gens) != 1 or not isinstance(gens[0][2], ast.Name):
        raise AnalysisError(f"{rid}: {exp.qual}: loop over free_symbols not recognised")
    binder, sym, X = gens[0]
    X = X.id
    # ---- (a) the substitution map: key = the symbol, value = table[symbol]
    if isinstance(binder, ast.For):
        stores = [n for n in ast.walk(binder) if isinstance(n, ast.Assign) and len(n.targets) == 1 and isinstance(n.targets[0], ast.Subscript)
                  and isinstance(n.targets[0].slice, ast.Name) and n.targets[0].slice.id == sym]
        if len(stores) != 1:
            raise AnalysisError(f"{rid}: {exp.qual}: substitution store subs[sym] = ... not recognised")
        st, val = stores[0], stores[0].value
        tests = [(a.test, any(contains(b, st) or b is st for b in a.body)) for a in _ancestors_of(st) if isinstance(a, ast.If) and _inside(binder, a)]
        # `if sym not in table: continue` before the store
        for b in binder.body:
            if contains(b, st) or b is st:
                break
            if isinstance(b, ast.If) and not b.orelse and b.body and isinstance(b.body[-1], ast.Continue):
                tests.append((b.test, False))
        guards = []
        for t, positive in tests:
            if not positive:
                if isinstance(t, ast.UnaryOp) and isinstance(t.op, ast.Not):
                    t = t.operand
                elif isinstance(t, ast.Compare) and len(t.ops) == 1 and isinstance(t.ops[0], ast.NotIn):
                    t = ast.Compare(left=t.left, ops=[ast.In()], comparators=t.comparators)
                else:
                    raise AnalysisError(f"{rid}: {exp.qual}: filter `{ast.unparse(t)}` of the substitution candidates not recognised")
            guards.append(t)
    elif isinstance(binder, ast.DictComp) and len(binder.generators) == 1:
        if not (isinstance(binder.key, ast.Name) and binder.key.id == sym):
            raise AnalysisError(f"{rid}: {exp.qual}: substitution map is not keyed by the free symbol")
        st, val = binder, binder.value
        while not isinstance(st, ast.stmt):
            st = parent(st)
        guards = list(binder.generators[0].ifs)
    else:
        raise AnalysisError(f"{rid}: {exp.qual}: substitution map over free_symbols has an unrecognised form")
    if not (isinstance(val, ast.Subscript) and isinstance(val.value, ast.Name) and isinstance(val.slice, ast.Name) and val.slice.id == sym):
        raise AnalysisError(f"{rid}: {exp.qual}: substituted value is not table[sym]")
    table = val.value.id
    flat = []
    for gd in guards:
        flat += gd.values if isinstance(gd, ast.BoolOp) and isinstance(gd.op, ast.And) else [gd]
    member = [gd for gd in flat if (_membership_table(gd, sym) or (None,))[0] == table]
    if not member:
        raise AnalysisError(f"{rid}: {exp.qual}: substitution is not guarded by a membership test in `{table}`")
    # the definitions table is filled from var_updates['non-DEs'] (in the enclosing function, or handed over as an argument)
    host, tname = (f, table)
    if table in exp.params:
        pos = [p_ for p_ in exp.params if p_ != exp.self_name].index(table)
        args = []
        for c in walk_shallow(f.node):
            if isinstance(c, ast.Call) and exp in ctx.cg.resolve_call(f, c)[0]:
                a = _call_args(c, [p_ for p_ in exp.params if p_ != exp.self_name])
                args.append(a.get(table))
        if not args or not all(isinstance(a, ast.Name) for a in args) or len({a.id for a in args}) != 1:
            raise AnalysisError(f"{rid}: cannot follow the definitions table `{table}` of {exp.qualname} to its call sites")
        tname = alias_root(Scope(ctx, f), args[0]) or args[0].id      # `non_de = collected` aliases of the filled dict
    filled = [n for n in walk_shallow(host.node) if isinstance(n, ast.Assign) and len(n.targets) == 1 and isinstance(n.targets[0], ast.Subscript)
              and isinstance(n.targets[0].value, ast.Name) and n.targets[0].value.id == tname]
    in_nonde_loop = any(isinstance(a, ast.For) and "non-DEs" in ast.unparse(a.iter) for x in filled for a in _ancestors_of(x))
    if not in_nonde_loop:
        for n in walk_shallow(host.node):     # table = {sym: expr for ... in var_updates['non-DEs'] ...}
            if isinstance(n, ast.Assign) and any(isinstance(t, ast.Name) and t.id == tname for t in n.targets) \
                    and isinstance(n.value, ast.DictComp) and any("non-DEs" in ast.unparse(g.iter) for g in n.value.generators):
                in_nonde_loop = True
    if not in_nonde_loop:
        raise AnalysisError(f"{rid}: the definitions table `{tname}` is not filled from var_updates['non-DEs']")
    allowed = {sym, table}
    extra = set()
    for gd in guards:
        for n in ast.walk(gd):
            if isinstance(n, ast.Name) and n.id not in allowed:
                extra.add(n.id)
    facts = {"expander": exp.qualname, "guards": [ast.unparse(gd) for gd in guards], "table": table}
    if extra:
        ctx.violation(rid, exp, st, f"the expansion of algebraic intermediates skips symbols depending on {sorted(extra)} (filter "
                                    f"`{ast.unparse(guards[0])}`): an intermediate that re-appears through another one stays an opaque "
                                    f"symbol, and sympy.diff drops the chain-rule terms through it (Jacobian != derivative of the vector "
                                    f"field)", facts, label="expansion candidates = all algebraic symbols")
    else:
        ctx.ok(rid, exp, st, "every free symbol that has an algebraic definition is substituted in every round", facts,
               label="expansion candidates = all algebraic symbols")
    # ---- (b) fixpoint
    loops = [a for a in _ancestors_of(binder) if isinstance(a, (ast.While, ast.For)) and a is not binder and _inside(exp.node, a)]
    loops = [a for a in loops if not any(isinstance(x, (ast.FunctionDef, ast.Lambda)) and _inside(a, x) and _inside(x, binder) for x in ast.walk(a))]
    label_b = "expansion runs to a fixpoint"
    if not loops:
        ctx.violation(rid, exp, st, f"the expansion of `{X}` is a single pass (the substitution is not inside a loop): nested algebraic "
                                    f"intermediates stay unexpanded", label=label_b)
    else:
        whiles = [a for a in loops if isinstance(a, ast.While)]
        loop = whiles[0] if whiles else loops[0]
        Se = Scope(ctx, exp)
        cfg = Se.cfg

        def is_subst(v, depth=0):
            v = Se.single_value(v) if depth == 0 else v
            return isinstance(v, ast.Call) and isinstance(v.func, ast.Attribute) and v.func.attr in ("subs", "xreplace", "replace")
        E = []
        for n in ast.walk(loop):
            if isinstance(n, ast.Assign) and any(isinstance(t, ast.Name) and t.id == X for t in n.targets):
                v = n.value
                if isinstance(v, ast.Name):
                    bs = Se.binds(v)
                    if bs and all(b.kind == "value" and b.expr is not None and is_subst(b.expr, 1) for b in bs):
                        E.append(n)
                        continue
                if is_subst(v, 1):
                    E.append(n)
                    continue
                raise AnalysisError(f"{rid}: {exp.qual}: `{norm(n)}` re-binds the expanded expression in an unrecognised way")
        if not E:
            raise AnalysisError(f"{rid}: {exp.qual}: the loop around the substitution never re-binds `{X}` to its substituted form "
                                f"(unrecognised form)")
        if isinstance(loop, ast.For):
            ctx.violation(rid, exp, loop, f"the expansion is repeated a bounded number of times (`{norm(loop)}`), not until the expression "
                                          f"stops changing: deeper chains of algebraic intermediates stay unexpanded", label=label_b)
        else:
            test = loop.test
            always = isinstance(test, ast.Constant) and bool(test.value)
            flag = test.id if isinstance(test, ast.Name) else None
            if not always and flag is None:
                raise AnalysisError(f"{rid}: {exp.qual}: while condition `{ast.unparse(test)}` is neither constant nor a change flag")
            why = None
            for e in E:
                if always:
                    p = cfg.reachable_avoiding(e, cfg.EXIT, lambda n: n is loop)
                    if p is not None:
                        why = f"after `{norm(e)}` the function can return without another round ({cfg.path_str(p)})"
                else:
                    def sets(n, v):
                        return isinstance(n, ast.Assign) and any(isinstance(t, ast.Name) and t.id == flag for t in n.targets) \
                            and isinstance(n.value, ast.Constant) and bool(n.value.value) is v and isinstance(n.value.value, bool)

                    def writes_flag(n):
                        return isinstance(n, (ast.Assign, ast.AugAssign)) and flag in _stmt_targets(n)
                    for gnode in (loop, cfg.EXIT):
                        p = cfg.reachable_avoiding(e, gnode, lambda n: sets(n, True) or (gnode is cfg.EXIT and n is loop))
                        if p is not None and not sets(e, True):
                            why = why or (f"after `{norm(e)}` the change flag `{flag}` is not set on the path {cfg.path_str(p)}: the loop "
                                          f"ends after this pass")
                    for t in [n for n in ast.walk(loop) if sets(n, True)]:
                        for n2 in [n for n in ast.walk(loop) if writes_flag(n) and not sets(n, True)]:
                            p = cfg.reachable_avoiding(t, n2, lambda n: n is loop)
                            if p is not None:
                                why = why or f"`{norm(n2)}` resets the change flag after `{norm(t)}` within the same round"
            if why is None:
                ctx.ok(rid, exp, loop, "the expansion repeats until the expression no longer changes", label=label_b)
            else:
                ctx.violation(rid, exp, loop, f"the expansion loop does not repeat while the expression changes: {why}; nested algebraic "
                                              f"intermediates stay unexpanded", label=label_b)
    # ---- (c) every DE expression passes the expander before it is stored in the differentiated list
    calls = [c for c in walk_shallow(f.node) if isinstance(c, ast.Call) and exp in ctx.cg.resolve_call(f, c)[0]]
    de_loop = [n for n in walk_shallow(f.node) if isinstance(n, ast.For) and _iterates_des(n.iter, f.self_name or "")]
    if not de_loop:
        raise AnalysisError(f"{rid}: loop over var_updates['DEs'] not found in _get_symbolic_rhs")
    if any(_inside(de_loop[0], c) for c in calls):
        ctx.ok(rid, f, calls[0], "each DE right-hand side is expanded before it is differentiated", label="DE rhs passes the expander")
    else:
        ctx.violation(rid, f, de_loop[0], "DE right-hand sides are no longer passed through the expander of algebraic intermediates",
                      label="DE rhs passes the expander")


def _stmt_targets(st) -> List[str]:
    ts = st.targets if isinstance(st, ast.Assign) else [st.target]
    return [n.id for t in ts for n in ast.walk(t) if isinstance(n, ast.Name)]


def _ancestors_of(n):
    p = getattr(n, "_parent", None)
    while p is not None:
        yield p
        p = getattr(p, "_parent", None)


def _inside(outer, inner):
    return any(x is inner for x in ast.walk(outer))



def r8_placeholder_families_disjoint(ctx, rid):
    """_expr_to_jac_str prints a derivative by substituting every state symbol and every delayed-state symbol by a temporary
    placeholder symbol and then replacing the placeholder texts by code (`y[i]`, `_yhist_d[k]`).  The placeholder names of the
    two families are built from a counter each; if both families use the same name template, the k-th delayed term takes over
    the placeholder of state variable k and every occurrence of that state variable is printed as a history component."""
    checked = 0
    for q in ("_expr_to_jac_str",):
        f = cg_func(ctx, q)
        S = Scope(ctx, f)
        fams = []
        for c in walk_shallow(f.node):
            if not (isinstance(c, ast.Call) and call_name(c) == "Symbol" and c.args):
                continue
            # the family = the loop / comprehension that produces one placeholder per element
            binders = [a for a in ancestors(c) if isinstance(a, (ast.For,) + _COMPS) and contains(f.node, a)]
            if not binders:
                continue
            tpl, holes = string_template(S, c.args[0])
            if tpl is None:
                raise AnalysisError(f"{rid}: {f.qual}: name of the placeholder `{norm(c)}` is not a recognisable string template")
            if not holes:
                raise AnalysisError(f"{rid}: {f.qual}: placeholder name `{tpl}` built in a loop has no counter hole (unrecognised form)")
            fams.append((re.sub(r"⟨.*?⟩", "⟨k⟩", tpl), binders[0], c))
        if len(fams) < 2:
            raise AnalysisError(f"{rid}: {f.qual}: expected two placeholder families (state symbols, delayed-state symbols), found {len(fams)}")
        checked += 1
        seen = {}
        clash = None
        for tpl, loop, c in fams:
            if tpl in seen and seen[tpl] is not loop:
                clash = (tpl, c)
            seen.setdefault(tpl, loop)
        facts = {"templates": [t for t, _, _ in fams]}
        if clash:
            ctx.violation(rid, f, clash[1], f"two placeholder families share the name template `{clash[0]}`: for equal counters the later family "
                                            f"overwrites the code string of the earlier one (state variable k is printed as delayed term k)", facts,
                          label="placeholder name families are disjoint")
        else:
            ctx.ok(rid, f, fams[0][2], "state and delayed-state placeholders use different name templates", facts,
                   label="placeholder name families are disjoint")
    if checked < 1:
        raise AnalysisError(f"{rid}: no placeholder printer analysed")


def r9_jacobian_parameter_slots(ctx, rid):
    """The DFDP column of a parameter and the `args(k)` a parameter symbol is printed as inside DFDU/DFDP entries must be that
    parameter's PAR slot - the number the one slot list (result of _auto_param_indices) assigns to its NAME - because the RHS call,
    STPNT and parnames address parameters by these slots (they skip auto-07p's reserved range, so slot != position from the 10th
    parameter on).  Decided with the slot typing of rules/c18.py (C18-R1) applied to the Jacobian block: the block receives the slot
    list together with the very name sequence it was computed for, pairs them by zip, and every `dfdp(i,k)` / `__PYR_ARG_k__` hole is
    a lookup in the name->slot map built from that pairing (never an enumerate position)."""
    from . import c18
    gen = ctx.repo.get_func(FORT, "FortranBackend._generate_auto_files")
    genv = _inlined(ctx, gen, keep=("_emit_auto_jacobian_block", "_auto_param_indices"))
    Sg = Scope(ctx, genv)
    jb0 = ctx.repo.get_func(FORT, "FortranBackend._emit_auto_jacobian_block")
    jparams = [p for p in jb0.params if p != jb0.self_name]
    calls = [c for c in walk_shallow(genv.node) if isinstance(c, ast.Call) and call_name(c) == "_emit_auto_jacobian_block"]
    slot_calls = [c for c in walk_shallow(genv.node) if isinstance(c, ast.Call) and call_name(c) == "_auto_param_indices"]
    ctx.require(len(calls) == 1 and len(slot_calls) == 1 and slot_calls[0].args and isinstance(slot_calls[0].args[0], ast.Name),
                f"{rid}: hand-over of the PAR slots to _emit_auto_jacobian_block not recognised")
    a = _call_args(calls[0], jparams)
    Mg = c18.SlotModel(ctx, genv, Sg)
    A = slot_calls[0].args[0]
    slot_param = names_param = None
    for k, v in a.items():
        if isinstance(v, ast.Name):
            bs = Sg.binds(v)
            if len(bs) == 1 and bs[0].kind == "value" and bs[0].expr is slot_calls[0]:
                slot_param = k
                Mg.lists[v.id] = ("full", A, Mg.defs(A))
    if slot_param is None:
        raise AnalysisError(f"{rid}: `{norm(calls[0])}` does not receive the result of _auto_param_indices (unrecognised form)")
    listname = next(iter(Mg.lists))
    for k, v in a.items():
        if k != slot_param and Mg.same_sequence(listname, v):
            names_param = k
    label = "Jacobian block receives slots with their names"
    if names_param is None:
        ctx.violation(rid, gen, calls[0], f"`{norm(calls[0])}` hands the PAR slot list to the Jacobian block without the name sequence it was "
                                          f"computed for: DFDP columns / args(k) references inside the entries belong to other parameters",
                      label=label)
        return
    ctx.ok(rid, gen, calls[0], f"the block receives the slot list as `{slot_param}` and the sequence it was computed for as `{names_param}`",
           label=label)
    jb = analysis_view(ctx, jb0)
    Sj = Scope(ctx, jb)
    Mj = c18.SlotModel(ctx, jb, Sj)
    pdefs = frozenset({id(jb.node.args)})
    Mj.lists[slot_param] = ("full", ast.Name(id=names_param, ctx=ast.Load()), pdefs)
    Mj._same_core = lambda listname, x: isinstance(x, ast.Name) and x.id == names_param and Mj.defs(x) == pdefs
    uses = [n for n in walk_shallow(jb.node) if isinstance(n, ast.Name) and isinstance(n.ctx, ast.Load) and n.id == slot_param]
    if not uses:
        ctx.violation(rid, jb0, jb0.node, f"the Jacobian block never reads the slot list `{slot_param}`: parameters are numbered some other "
                                          f"way (by position) while the RHS call, STPNT and parnames use the slots", label="slot list is used")
    c18._classify_list_uses(ctx, rid, jb, Sj, Mj, None)
    n = c18._check_templates(ctx, rid, jb, Sj, Mj)
    ctx.require(n >= 2, f"{rid}: expected a dfdp(i,k) line and a __PYR_ARG_k__ substitution in the Jacobian block, found {n} slot-bearing templates")


_LOSSY_STR_METHODS = ("rstrip", "lstrip", "strip", "removesuffix", "removeprefix", "split", "rsplit", "partition", "rpartition",
                      "zfill", "ljust", "rjust", "center", "title", "capitalize", "translate", "expandtabs")


def float_spec_preserves(spec: str) -> Optional[bool]:
    """Does a format spec print every binary64 value so that it reads back as the same number?  None = spec not understood."""
    m = re.fullmatch(r"(?:.?[<>=^])?[-+ ]?[#]?0?(\d+)?[,_]?(?:\.(\d+))?([a-zA-Z%])?", spec)
    if m is None:
        return None
    prec, ty = (int(m.group(2)) if m.group(2) else None), m.group(3)
    if ty in (None, "g", "G", "n"):
        return True if prec is None and ty is None else (prec is not None and prec >= 17)
    if ty in ("e", "E"):
        return prec is not None and prec >= 16
    if ty in ("f", "F", "%"):
        return False            # fixed notation drops small magnitudes whatever the precision
    if ty in ("d", "s", "r"):
        return True if ty != "s" or prec is None else False
    return None


def text_value_preservation(ctx, S: Scope, e: ast.AST, depth=0) -> Tuple[Optional[bool], str]:
    """`e` is the text of a number that ends up in generated code.  (True, how): printed value-preservingly (str / repr / a plain
    f-string hole / a format spec with >= 17 significant digits, an exponent letter swap e->d); (False, why): a positive reason
    why the printed text can denote another number (character stripping / slicing / replace on the digits, a format spec with
    fewer digits, rounding); (None, what): not understood."""
    if depth > 10:
        return None, "too deep"
    e = merged_value(S, e) if isinstance(e, ast.Name) else e
    if isinstance(e, ast.Name):
        bs = S.binds(e)
        if bs and all(b.kind == "value" and not b.path and b.expr is not None for b in bs):
            res = [text_value_preservation(ctx, S, b.expr, depth + 1) for b in bs]
            for r in res:
                if r[0] is not True:
                    return r
            return res[0]
        return True, f"`{e.id}` as is"           # a value (parameter / loop element), printed by whoever formats it
    if isinstance(e, ast.Constant):
        return True, "literal"
    if isinstance(e, ast.IfExp):
        a, b = text_value_preservation(ctx, S, e.body, depth + 1), text_value_preservation(ctx, S, e.orelse, depth + 1)
        for r in (a, b):
            if r[0] is not True:
                return r
        return a
    if isinstance(e, ast.JoinedStr):
        for v in e.values:
            if isinstance(v, ast.FormattedValue):
                if v.format_spec is not None:
                    spec, hs = template_of(v.format_spec)
                    if hs or spec is None:
                        return None, f"computed format spec in `{ast.unparse(e)}`"
                    ok = float_spec_preserves(spec)
                    if ok is None:
                        return None, f"format spec `{spec}`"
                    if not ok:
                        return False, f"`{ast.unparse(e)}` formats the number with spec `:{spec}`, which keeps fewer than 17 " \
                                      f"significant digits (binary64 needs 17 to read back unchanged)"
                r = text_value_preservation(ctx, S, v.value, depth + 1)
                if r[0] is not True:
                    return r
        return True, "plain f-string hole(s)"
    if isinstance(e, ast.Call):
        fn = e.func
        if isinstance(fn, ast.Name) and fn.id in ("str", "repr") and len(e.args) == 1:
            r0 = text_value_preservation(ctx, S, e.args[0], depth + 1)
            return (True, f"{fn.id}(..)") if r0[0] is True else r0
        if isinstance(fn, ast.Name) and fn.id in ("float", "int", "complex", "abs") and len(e.args) == 1:
            return text_value_preservation(ctx, S, e.args[0], depth + 1) if fn.id != "int" else \
                (False, f"`{ast.unparse(e)}` truncates the value to an integer")
        if isinstance(fn, ast.Name) and fn.id == "round":
            return False, f"`{ast.unparse(e)}` rounds the value before it is printed"
        if isinstance(fn, ast.Name) and fn.id == "format" and e.args:
            if len(e.args) == 1:
                return text_value_preservation(ctx, S, e.args[0], depth + 1)
            sp_ = S.single_value(e.args[1])
            if isinstance(sp_, ast.Constant) and isinstance(sp_.value, str):
                ok = float_spec_preserves(sp_.value)
                if ok is None:
                    return None, f"format spec `{sp_.value}`"
                return (True, f"format spec `{sp_.value}`") if ok else \
                    (False, f"`{ast.unparse(e)}` keeps fewer than 17 significant digits")
            return None, f"`{ast.unparse(e)}`"
        if isinstance(fn, ast.Attribute) and fn.attr in ("real", "imag"):
            return text_value_preservation(ctx, S, e.args[0], depth + 1) if e.args else (None, ast.unparse(e))
        if isinstance(fn, ast.Attribute) and ast.unparse(fn) in ("np.real", "np.imag", "numpy.real", "numpy.imag", "np.float64", "np.asarray") \
                and e.args:
            return text_value_preservation(ctx, S, e.args[0], depth + 1)
        if isinstance(fn, ast.Attribute) and fn.attr in _LOSSY_STR_METHODS:
            return False, f"`{ast.unparse(e)}` edits the characters of the printed number with `.{fn.attr}(..)`, which can change " \
                          f"the value it denotes (e.g. '10' -> '1')"
        if isinstance(fn, ast.Attribute) and fn.attr == "replace" and len(e.args) >= 2:
            a0, a1 = S.single_value(e.args[0]), S.single_value(e.args[1])
            if isinstance(a0, ast.Constant) and isinstance(a1, ast.Constant) and isinstance(a0.value, str) and isinstance(a1.value, str) \
                    and (a0.value.lower(), a1.value.lower()) in (("e", "d"), ("d", "e"), ("e", "e")):
                return text_value_preservation(ctx, S, fn.value, depth + 1)      # exponent letter of another notation
            return False, f"`{ast.unparse(e)}` replaces characters of the printed number (`{ast.unparse(e.args[0])}` -> " \
                          f"`{ast.unparse(e.args[1])}`), which can change the value it denotes"
        if isinstance(fn, ast.Attribute) and fn.attr == "format" and isinstance(fn.value, ast.Constant):
            t, hs = format_template(e)
            if t is None:
                return None, ast.unparse(e)
            for m in _FMT_FIELD.finditer(fn.value.value):
                fld = m.group(0)
                if ":" in fld:
                    ok = float_spec_preserves(fld[fld.index(":") + 1:-1])
                    if ok is None:
                        return None, f"format field `{fld}`"
                    if not ok:
                        return False, f"`{ast.unparse(e)}` keeps fewer than 17 significant digits (`{fld}`)"
            for h in hs:
                r = text_value_preservation(ctx, S, h, depth + 1)
                if r[0] is not True:
                    return r
            return True, "str.format without a lossy spec"
        if isinstance(fn, ast.Attribute) and fn.attr in ("lower", "upper", "encode", "__str__", "__repr__", "item", "tolist") and not e.args:
            return text_value_preservation(ctx, S, fn.value, depth + 1)
        # a private one-expression / multi-return helper of the same class or module: judge what it returns
        try:
            targets, how = ctx.cg.resolve_call(getattr(S.f, "origin", None) or S.f, e)
        except Exception:
            targets, how = [], "?"
        if len(targets) == 1 and how not in ("by-name", "external"):
            g = targets[0]
            Sg = Scope(ctx, g)
            rets = [r for r in walk_shallow(g.node) if isinstance(r, ast.Return) and r.value is not None]
            if rets:
                for r in rets:
                    rr = text_value_preservation(ctx, Sg, r.value, depth + 1)
                    if rr[0] is not True:
                        return rr
                return True, f"{g.qualname} prints value-preservingly"
        return None, f"`{ast.unparse(e)[:60]}`"
    if isinstance(e, ast.BinOp) and isinstance(e.op, ast.Mod) and isinstance(e.left, ast.Constant) and isinstance(e.left.value, str):
        for m in _PCT_FIELD.finditer(e.left.value):
            f_ = m.group(0)
            if f_ == "%%" or f_[-1] in "sr":
                continue
            pm = re.search(r"\.(\d+)", f_)
            prec = int(pm.group(1)) if pm else None
            if f_[-1] in "eE" and prec is not None and prec >= 16 or f_[-1] in "gG" and prec is not None and prec >= 17 or f_[-1] in "di":
                continue
            return False, f"`{ast.unparse(e)}` keeps fewer than 17 significant digits (`{f_}`)"
        return True, "%-format without a lossy field"
    if isinstance(e, ast.BinOp) and isinstance(e.op, ast.Add):
        for side in (e.left, e.right):
            r = text_value_preservation(ctx, S, side, depth + 1)
            if r[0] is not True:
                return r
        return True, "concatenation"
    if isinstance(e, ast.Subscript) and isinstance(e.slice, ast.Slice):
        inner = S.single_value(e.value)
        if isinstance(inner, (ast.JoinedStr, ast.Call)) or (isinstance(inner, ast.Name) and False):
            return False, f"`{ast.unparse(e)}` slices the printed number"
        return None, ast.unparse(e)
    if isinstance(e, (ast.Attribute, ast.Subscript)):
        return True, f"`{ast.unparse(e)}` as is"
    return None, f"`{ast.unparse(e)[:60]}`"


def _hist_time_mode(ctx, S: Scope, e, env: dict, depth=0) -> Optional[str]:
    """What the time argument of a history read is under `env` = {dt: name, adapt: name, dt_none: bool, adapt_val: bool|None}:
    't' (the function's t as it is) or 'scaled' (t times the step size); None = not understood."""
    if depth > 8:
        return None
    if isinstance(e, str):
        return "t" if e.strip() == "t" else ("scaled" if e.replace(" ", "").startswith("t*") else None)

    def noneness(x, d=0):
        x = merged_value(S, x) if isinstance(x, ast.Name) and x.id not in (env.get("dt"), env.get("adapt")) else x
        if isinstance(x, ast.Constant):
            return x.value is None
        if isinstance(x, ast.Name) and x.id == env.get("dt"):
            return env["dt_none"]
        if isinstance(x, ast.IfExp) and d < 4:
            tv = truth(x.test)
            return None if tv is None else noneness(x.body if tv else x.orelse, d + 1)
        return None

    def truth(t_):
        if isinstance(t_, ast.UnaryOp) and isinstance(t_.op, ast.Not):
            r = truth(t_.operand)
            return None if r is None else not r
        if isinstance(t_, ast.BoolOp):
            vals = [truth(v) for v in t_.values]
            if isinstance(t_.op, ast.And):
                return False if False in vals else (None if None in vals else True)
            return True if True in vals else (None if None in vals else False)
        if isinstance(t_, ast.Compare) and len(t_.ops) == 1 and isinstance(t_.comparators[0], ast.Constant) \
                and t_.comparators[0].value is None and isinstance(t_.ops[0], (ast.Is, ast.IsNot, ast.Eq, ast.NotEq)):
            nn = noneness(t_.left)
            if nn is None:
                return None
            return nn if isinstance(t_.ops[0], (ast.Is, ast.Eq)) else not nn
        if isinstance(t_, ast.Name) and t_.id == env.get("adapt"):
            return env.get("adapt_val")
        if isinstance(t_, ast.Name) and t_.id == env.get("dt"):
            return not env["dt_none"]
        return None
    if isinstance(e, ast.Name) and e.id == "t":
        return "t"
    e = merged_value(S, e) if isinstance(e, ast.Name) else e
    if isinstance(e, ast.Constant) and isinstance(e.value, str):
        return _hist_time_mode(ctx, S, e.value, env, depth + 1)
    if isinstance(e, ast.IfExp):
        tv = truth(e.test)
        return None if tv is None else _hist_time_mode(ctx, S, e.body if tv else e.orelse, env, depth + 1)
    tt, hh = string_template(S, e) if isinstance(e, (ast.JoinedStr, ast.BinOp, ast.Call)) else (None, [])
    if tt is not None and not (isinstance(e, ast.Call) and not isinstance(e.func, ast.Attribute)):
        if isinstance(e, ast.Call) and not (isinstance(e.func, ast.Attribute) and e.func.attr == "format"):
            tt = None
    if tt is not None:
        if tt.strip() == "t":
            return "t"
        if re.match(r"^\s*t\s*\*\s*⟨\d+⟩\s*$", tt) and any(isinstance(x, ast.Name) and x.id == env.get("dt") for h_ in hh for x in ast.walk(h_)):
            return "scaled" if not env["dt_none"] else None
        return None
    if isinstance(e, ast.Call) and isinstance(e.func, ast.Attribute):
        base = ctx.repo.get_class(BASE, "BaseBackend")
        defs = [k.methods[e.func.attr] for k in [base] + list(ctx.repo.subclasses(base, strict=True)) if e.func.attr in k.methods]
        if not defs:
            return None
        modes = set()
        for g in defs:
            ps = [p_ for p_ in g.params if p_ != g.self_name]
            a = _call_args(e, ps, S)
            Sg = Scope(ctx, g)
            # which callee parameter carries the step size / the adaptive flag: by what the caller hands over
            genv = {"dt": None, "adapt": None, "dt_none": True, "adapt_val": None}
            for k_, v_ in a.items():
                nn = noneness(v_)
                if isinstance(v_, ast.Name) and v_.id == env.get("adapt"):
                    genv["adapt"], genv["adapt_val"] = k_, env.get("adapt_val")
                elif nn is not None and (isinstance(v_, ast.IfExp) or (isinstance(v_, ast.Name) and v_.id == env.get("dt"))
                                         or isinstance(v_, ast.Constant)):
                    if genv["dt"] is None:
                        genv["dt"], genv["dt_none"] = k_, nn
                elif any(isinstance(x, ast.Name) and x.id in (env.get("dt"), env.get("adapt")) for x in ast.walk(v_)):
                    return None
            if genv["dt"] is None:
                # parameter not passed: its default
                cand = [p_ for p_ in ps if p_ not in a]
                if len(cand) >= 1:
                    genv["dt"], genv["dt_none"] = cand[0], True

            def run(stmts):
                for st in stmts:
                    if isinstance(st, ast.Expr) and isinstance(st.value, ast.Constant):
                        continue
                    if isinstance(st, ast.Return):
                        return _hist_time_mode(ctx, Sg, st.value, genv, depth + 1) or "?"
                    if isinstance(st, ast.If):
                        saved = (env.get("dt"), env.get("adapt"), env["dt_none"], env.get("adapt_val"))
                        env.update(dt=genv["dt"], adapt=genv["adapt"], dt_none=genv["dt_none"], adapt_val=genv["adapt_val"])
                        tv = truth(st.test)
                        env.update(dt=saved[0], adapt=saved[1], dt_none=saved[2], adapt_val=saved[3])
                        if tv is None:
                            return "?"
                        r = run(st.body if tv else st.orelse)
                        if r is not None:
                            return r
                        continue
                    return "?"
                return None
            r = run(g.node.body)
            modes.add(r)
        if len(modes) == 1 and next(iter(modes)) in ("t", "scaled"):
            return next(iter(modes))
        return None
    return None


def _r11_time_argument(ctx, rid, f, S: Scope, sites):
    """The time argument of the Jacobian's history reads may be the scaled step counter `t*dt` only in fixed-step mode (a step size is
    given and the solver is not adaptive) - then the generated functions receive the step counter as `t`; for an adaptive solver
    `t` already is the time (CircuitIR hands `dt` over for every solver, only `dt_adapt` tells the modes apart), so the read must
    be `hist(t - tau)` like the run function's.  Evaluated for the four combinations of (dt given, dt_adapt)."""
    ps = f.params
    dtp = "dt" if "dt" in ps else None
    adp = "dt_adapt" if "dt_adapt" in ps else None
    for n, t, _hole, time_e in sites:
        st = n
        while not isinstance(st, ast.stmt):
            st = parent(st)
        shown = t.replace("⟨", "{").replace("⟩", "}")
        label = "time argument of the history read"
        table = {}
        for dt_none in (True, False):
            for adapt in (True, False):
                env = {"dt": dtp, "adapt": adp, "dt_none": dt_none, "adapt_val": adapt}
                table[(dt_none, adapt)] = _hist_time_mode(ctx, S, time_e, env)
        facts = {"modes": {f"dt {'None' if k[0] else 'given'}, dt_adapt={k[1]}": v for k, v in table.items()}}
        if any(v is None for v in table.values()):
            raise AnalysisError(f"{rid}: `{shown}`: cannot evaluate the time argument `{ast.unparse(time_e) if not isinstance(time_e, str) else time_e}` "
                                f"for every combination of (dt, dt_adapt): {facts['modes']}")
        bad = [k for k, v in table.items() if v == "scaled" and (k[0] or k[1])]
        if bad:
            k = bad[0]
            ctx.violation(rid, f, st, f"`{shown}`: with dt {'None' if k[0] else 'given'} and dt_adapt={k[1]} the Jacobian reads the history at "
                                      f"`t*dt - tau`, but in that mode `t` already is the time (only a fixed-step solver hands the step "
                                      f"counter over) and the run function reads `hist(t - tau)`: the Jacobian is evaluated at another "
                                      f"delayed state than the vector field", facts, label=label)
        else:
            ctx.ok(rid, f, st, f"`{shown}`: the time argument is scaled by the step size only in fixed-step mode (dt given and not dt_adapt)",
                   facts, label=label)


def r11_delay_literal_is_the_delay(ctx, rid):
    """The generated Jacobian function reads the delayed state with `_yhist_<id> = hist(t - <delay>)`.  The text emitted as
    <delay> must denote the same number as the delay of the `past(x, tau)` terms that were grouped under it (and as the delay of
    get_run_func's own history read): it is traced back through the loop over the delay groups to the expression the group keys
    are made of, and that expression must be str()/repr()/a plain format of the delay - no character stripping, slicing,
    replacing or digit-limiting format on the way (sanitising for identifier use belongs on a separate copy)."""
    f = cg_func(ctx, "get_jacobian_func")
    S = Scope(ctx, f)
    sites = []
    for n, t, h in templates_spliced(S, f.node):
        m = re.search(r"hist\(\s*(t(?:\s*\*\s*⟨\d+⟩)?|⟨\d+⟩)\s*-\s*⟨(\d+)⟩\s*\)", t or "")
        if m:
            tm = re.fullmatch(r"⟨(\d+)⟩", m.group(1))
            sites.append((n, t, h[int(m.group(2))], h[int(tm.group(1))] if tm else m.group(1)))
    ctx.require(len(sites) >= 1, f"{rid}: no `hist(<time> - <delay>)` line found in get_jacobian_func")
    _r11_time_argument(ctx, rid, f, S, sites)
    for n, t, hole, _time in sites:
        st = n
        while not isinstance(st, ast.stmt):
            st = parent(st)
        label = "delay literal of the history read"
        shown = t.replace("⟨", "{").replace("⟩", "}")
        # 1. the emitted expression itself
        r = text_value_preservation(ctx, S, hole)
        if r[0] is False:
            ctx.violation(rid, f, st, f"`{shown}`: {r[1]}: the Jacobian reads the history at another delay than the vector field",
                          label=label)
            continue
        if r[0] is None:
            raise AnalysisError(f"{rid}: `{shown}`: cannot judge how the delay text {r[1]} is produced")
        # 2. where the loop element comes from: the keys of the delay-group table
        key_exprs = []
        base_name = None
        e = hole
        while isinstance(e, ast.Call) and isinstance(e.func, ast.Name) and e.func.id in ("str", "repr") and len(e.args) == 1:
            e = e.args[0]
        ib = iter_bind(S, e) if isinstance(e, ast.Name) else None
        if ib is not None:
            role, base, rest = element_origin(ib[0].expr, ib[1])
            if role in ("key", "elem") and not rest and isinstance(base, ast.Name):
                base_name = alias_root(S, base)
        if base_name is None:
            raise AnalysisError(f"{rid}: `{shown}`: cannot trace the delay `{ast.unparse(hole)}` back to the keys of the delay groups "
                                f"(unrecognised form)")
        for x in walk_shallow(f.node):
            if isinstance(x, ast.Assign):
                for tg in x.targets:
                    if isinstance(tg, ast.Subscript) and isinstance(tg.value, ast.Name) and tg.value.id == base_name:
                        key_exprs.append((tg.slice, x))
                    elif isinstance(tg, ast.Name) and tg.id == base_name and isinstance(x.value, ast.DictComp):
                        key_exprs.append((x.value.key, x))
                    elif isinstance(tg, ast.Name) and tg.id == base_name and isinstance(x.value, ast.Call) \
                            and isinstance(x.value.func, ast.Attribute) and x.value.func.attr == "fromkeys" and x.value.args:
                        key_exprs.append((x.value.args[0], x))
            elif isinstance(x, ast.Call) and isinstance(x.func, ast.Attribute) and x.func.attr == "setdefault" \
                    and isinstance(x.func.value, ast.Name) and x.func.value.id == base_name and x.args:
                key_exprs.append((x.args[0], x))
        if not key_exprs:
            raise AnalysisError(f"{rid}: no key of the delay-group table `{base_name}` found (unrecognised form)")
        bad = None
        hows = []
        for k, where in key_exprs:
            rk = text_value_preservation(ctx, S, k)
            if rk[0] is None:
                raise AnalysisError(f"{rid}: cannot judge how the delay-group key {rk[1]} is produced")
            if rk[0] is False:
                bad = (rk[1], where)
                break
            hows.append(rk[1])
        if bad:
            ctx.violation(rid, f, st, f"`{shown}` emits the key of `{base_name}` as the delay, but {bad[0]}: the generated Jacobian reads the "
                                      f"history at another delay than the vector field (and different delays can collapse into one group)",
                          {"key_statement": norm(bad[1])}, label=label)
        else:
            ctx.ok(rid, f, st, f"the delay emitted in `{shown}` is the key of `{base_name}`, a value-preserving text of the delay symbol",
                   {"keys": hows}, label=label)


_SPARSE_CTORS = ("csr_matrix", "csc_matrix", "coo_matrix", "bsr_matrix", "csr_array", "csc_array", "coo_array")


def _sparse_emitter_params(ctx, callee) -> Optional[List[str]]:
    """If `callee` emits `name = csr_matrix((<data>, <indices>, <indptr>), ...)` (or the coo form `(data, (rows, cols))`): its
    parameters that supply the sequences, in the order they appear after the constructor's opening `((`."""
    Sg = Scope(ctx, callee)
    for n, t, h in templates_spliced(Sg, callee.node):
        m = re.search(r"\b(" + "|".join(_SPARSE_CTORS) + r")\(\(", t or "")
        if not m:
            continue
        out = []
        for k in re.findall(r"⟨(\d+)⟩", t[m.end():]):
            for x in ast.walk(h[int(k)]):
                if isinstance(x, ast.Name) and x.id in callee.params and x.id not in out:
                    out.append(x.id)
        return out
    return None


def r12_sparse_form_from_one_traversal(ctx, rid):
    """Where a Jacobian matrix is emitted directly in a compressed form (`csr_matrix((data, indices, indptr))`, coo triplets), the
    k-th value and the k-th index must belong to the same entry: the value sequence and the index sequence have to come out of
    ONE ordered traversal of the entry table.  The value list is followed to the loop that fills it, the index list to the
    sequence it is computed from; accepted: indices built in that very loop / from the key list filled in that loop in the same
    order, or both orders are the sorted key order (`sorted(T.items())` for the values and `sorted(keys)` for the indices).  Values
    in insertion order against sorted indices (or vice versa) is a violation: within a row the values land in each other's columns."""
    f = cg_func(ctx, "get_jacobian_func")
    S = Scope(ctx, f)
    stores = entry_stores(ctx, f)
    base = ctx.repo.get_class(BASE, "BaseBackend")
    family = [base] + list(ctx.repo.subclasses(base, strict=True))
    n_sites = 0
    for c in walk_shallow(f.node):
        if not (isinstance(c, ast.Call) and isinstance(c.func, ast.Attribute)):
            continue
        callee = next((k.methods[c.func.attr] for k in family if c.func.attr in k.methods), None)
        if callee is None:
            continue
        sp_params = _sparse_emitter_params(ctx, callee)
        if not sp_params:
            continue
        n_sites += 1
        a = _call_args(c, [p_ for p_ in callee.params if p_ != callee.self_name], S)
        label = f"sparse form #{n_sites}: values and indices from one traversal"
        if len(sp_params) < 2 or any(p_ not in a or not isinstance(a[p_], ast.Name) for p_ in sp_params[:2]):
            raise AnalysisError(f"{rid}: `{norm(c)}`: cannot identify the value and index sequences handed to {callee.qualname}")
        V, I = a[sp_params[0]], a[sp_params[1]]

        def appends_to(name_node):
            root = alias_root(S, name_node)
            return [x for x in walk_shallow(f.node) if isinstance(x, ast.Call) and isinstance(x.func, ast.Attribute) and x.func.attr == "append"
                    and isinstance(x.func.value, ast.Name) and x.func.value.id == root and x.args
                    and S.rd.defs_reaching(x.func.value) == S.rd.defs_reaching_at(_stmt_of(c), root)]

        def _stmt_of(x):
            while not isinstance(x, ast.stmt):
                x = parent(x)
            return x

        def loop_of(x):
            return next((l for l in ancestors(x) if isinstance(l, ast.For)), None)

        def order_of(it) -> Optional[str]:
            e = it
            while isinstance(e, ast.Call) and isinstance(e.func, ast.Name) and e.func.id in ("list", "tuple", "iter") and len(e.args) == 1:
                e = e.args[0]
            if isinstance(e, ast.Call) and isinstance(e.func, ast.Name) and e.func.id == "sorted" and len(e.args) == 1:
                return "sorted" if not e.keywords else None
            if isinstance(e, ast.Call) and isinstance(e.func, ast.Name) and e.func.id in ("reversed", "set", "frozenset"):
                return None
            return "as-is"
        va = appends_to(V)
        if len(va) != 1 or loop_of(va[0]) is None:
            raise AnalysisError(f"{rid}: `{norm(c)}`: the value list `{V.id}` is not filled by one append inside a loop (unrecognised form)")
        L = loop_of(va[0])
        v_order = order_of(L.iter)
        # the values are the table values of L's entries
        vsrc = S.single_value(va[0].args[0])
        varg = vsrc.args[0] if isinstance(vsrc, ast.Call) and call_name(vsrc) == "_expr_to_jac_str" and vsrc.args else None
        tv = table_value(S, varg, stores) if varg is not None else None
        vib = iter_bind(S, varg) if varg is not None else None
        if tv is None or vib is None or vib[0].node is not L:
            raise AnalysisError(f"{rid}: `{norm(c)}`: the values in `{V.id}` are not _expr_to_jac_str(<value of the traversed entry>)")
        # the index sequence
        i_order, K = None, None
        ia = appends_to(I)
        comp = None
        if ia:
            if len(ia) != 1 or loop_of(ia[0]) is not L or parent(_stmt_of(ia[0])) is not parent(_stmt_of(va[0])):
                raise AnalysisError(f"{rid}: `{norm(c)}`: the index list `{I.id}` is filled elsewhere than the value list (unrecognised form)")
            i_order, key_elts = "same-loop", [ia[0].args[0]]
        else:
            n0 = I
            for _ in range(6):
                bs = S.binds(n0)
                if len(bs) == 1 and bs[0].kind == "value" and not bs[0].path and isinstance(bs[0].expr, ast.Name):
                    n0 = bs[0].expr
                else:
                    break
            bs = S.binds(n0)
            v = bs[0].expr if len(bs) == 1 and bs[0].kind == "value" and not bs[0].path else None
            while isinstance(v, ast.Call) and isinstance(v.func, ast.Name) and v.func.id in ("list", "tuple") and len(v.args) == 1:
                v = v.args[0]
            if not (isinstance(v, (ast.ListComp, ast.GeneratorExp)) and len(v.generators) == 1 and not v.generators[0].ifs):
                raise AnalysisError(f"{rid}: `{norm(c)}`: cannot see how the index list `{I.id}` is computed (unrecognised form)")
            comp = v
            src = comp.generators[0].iter
            i_order = order_of(src)
            e = src
            while isinstance(e, ast.Call) and isinstance(e.func, ast.Name) and e.func.id in ("sorted", "list", "tuple") and e.args:
                e = e.args[0]
            if not isinstance(e, ast.Name):
                raise AnalysisError(f"{rid}: `{norm(c)}`: the index list is not computed from a key list (unrecognised form)")
            K = e
            ka = appends_to(K)
            if len(ka) != 1 or loop_of(ka[0]) is not L or parent(_stmt_of(ka[0])) is not parent(_stmt_of(va[0])):
                raise AnalysisError(f"{rid}: `{norm(c)}`: the key list `{K.id}` is not filled next to the value list in the same loop")
            kt = S.single_value(ka[0].args[0])
            key_elts = list(kt.elts) if isinstance(kt, ast.Tuple) else [kt]
        # the keys recorded are the (row, column) of the same entry
        kcs = [key_component(S, x, stores) for x in key_elts if isinstance(x, ast.Name)]
        if len(kcs) != len(key_elts) or any(k is None or k[2] is not L for k in kcs):
            raise AnalysisError(f"{rid}: `{norm(c)}`: the recorded keys are not the key components of the traversed entry")
        facts = {"table": tv, "value_traversal": ast.unparse(L.iter), "value_order": v_order, "index_order": i_order,
                 "index_source": ast.unparse(comp.generators[0].iter) if comp is not None else "same loop"}
        if len(key_elts) == 2 and (kcs[0][1], kcs[1][1]) != (0, 1):
            ctx.violation(rid, f, c, f"`{norm(c)}`: the key recorded for each value is not (row, column) of its entry (components "
                                     f"{kcs[0][1], kcs[1][1]}): the matrix is transposed", facts, label=label)
        elif i_order == "same-loop" or i_order == "as-is":
            ctx.ok(rid, f, c, f"values and indices are listed in the order of one traversal (`{ast.unparse(L.iter)}`)", facts, label=label)
        elif i_order == "sorted" and v_order == "sorted":
            ctx.ok(rid, f, c, f"values are listed in sorted key order (`{ast.unparse(L.iter)}`) and the indices in sorted key order "
                              f"(`{facts['index_source']}`): the same order, the keys being unique", facts, label=label)
        elif i_order == "sorted" and v_order == "as-is":
            ctx.violation(rid, f, c, f"`{norm(c)}`: the indices are listed in SORTED key order (`{facts['index_source']}`) but the values in "
                                     f"the table's insertion order (`{ast.unparse(L.iter)}`): entries that were not stored in ascending "
                                     f"(row, column) order (the history tables are filled delay group by delay group) get each other's "
                                     f"columns", facts, label=label)
        else:
            raise AnalysisError(f"{rid}: `{norm(c)}`: cannot compare the order of the values (`{ast.unparse(L.iter)}`) with the order of "
                                f"the indices (`{facts['index_source']}`)")
    if n_sites == 0:
        ctx.ok(rid, f, f.node, "no matrix is emitted directly in a compressed (data, indices) form in this tree", label="no direct sparse form",
               nontrivial=False)


def r10_tables_are_distinct_objects(ctx, rid):
    """Entries of different Jacobian matrices must live in different containers.  The per-delay tables (`T[d][(row, col)] = v`)
    are values of one outer dict; every key of that dict needs its OWN inner dict, otherwise an entry stored for one delay shows
    up in the matrix of every delay.  (a) for each such table the creation of the inner containers is located: a fresh display
    per key (`T[d] = {}` in a loop, `{d: {} for d in ..}`, `setdefault(d, {})`) is accepted, one object handed to every key
    (`dict.fromkeys(keys, {})`, `[{}] * n`) is a violation, anything else is not understood; (b) the shared lint
    `shared_mutable_fill` runs over every method of ComputeGraph (analysis views), the Fortran Jacobian block and the backends'
    Jacobian hooks."""
    from ._pitfall_lints import shared_mutable_fill, _is_mutable_display
    funcs = list(cg_methods(ctx))
    try:
        funcs.append(fortran_block(ctx)["view"])
    except AnalysisError:
        pass
    base = ctx.repo.get_class(BASE, "BaseBackend")
    for cls in ctx.repo.subclasses(base):
        for hook in ("emit_local_array_assign", "emit_local_array_alloc"):
            h = cls.methods.get(hook)
            if h is not None:
                funcs.append(_inlined(ctx, h))
    hits = shared_mutable_fill(ctx, funcs)
    reported = set()
    for f, node, why in hits:
        st = node
        while not isinstance(st, ast.stmt):
            st = parent(st)
        reported.add(id(st))
        ctx.violation(rid, f, st, f"{why}: Jacobian entries / code pieces stored under one key appear under all of them",
                      label=f"shared container {norm(st)}")
    ctx.ok(rid, cg_func(ctx, "get_jacobian_func"), cg_func(ctx, "get_jacobian_func").node,
           f"{len(funcs)} functions scanned for containers whose elements are one shared mutable object", {"hits": len(hits)},
           label="no shared mutable fill", nontrivial=False) if not hits else None
    n_tables = 0
    for f in jac_functions(ctx):
        stores = entry_stores(ctx, f)
        if not stores:
            continue
        S = stores[0].S
        for root in sorted({es.root for es in stores if es.depth >= 1}):
            n_tables += 1
            es = [e for e in stores if e.root == root and e.depth >= 1][0]
            label = f"inner tables of {root} are distinct"
            fresh, shared, unknown = [], [], []

            def judge(v, where, per_key):
                """v = the object that becomes an inner table; per_key: evaluated once per key?"""
                if _is_mutable_display(v) and per_key:
                    fresh.append(norm(where))
                elif _is_mutable_display(v):
                    shared.append(norm(where))
                else:
                    unknown.append(norm(where))
            for st in walk_shallow(f.node):
                if isinstance(st, (ast.Assign, ast.AnnAssign)) and st.value is not None:
                    tgs = st.targets if isinstance(st, ast.Assign) else [st.target]
                    for t in tgs:
                        if isinstance(t, ast.Name) and t.id == root:
                            v = st.value
                            if isinstance(v, ast.DictComp):
                                judge(v.value, st, True)
                            elif isinstance(v, ast.Dict) and not v.keys or (isinstance(v, ast.Call) and call_name(v) in ("dict", "OrderedDict")
                                                                           and not v.args and not v.keywords):
                                pass        # empty outer dict, filled elsewhere
                            elif isinstance(v, ast.Call) and isinstance(v.func, ast.Attribute) and v.func.attr == "fromkeys":
                                if len(v.args) == 2:
                                    judge(v.args[1], st, False)
                                else:
                                    unknown.append(norm(st))
                            elif isinstance(v, ast.Call) and call_name(v) == "dict" and len(v.args) == 1 and isinstance(v.args[0], ast.Call) \
                                    and call_name(v.args[0]) == "zip" and len(v.args[0].args) == 2:
                                vals = S.single_value(v.args[0].args[1])
                                if isinstance(vals, ast.BinOp) and isinstance(vals.op, ast.Mult):
                                    seq = vals.left if isinstance(vals.left, ast.List) else vals.right
                                    if isinstance(seq, ast.List) and len(seq.elts) == 1:
                                        judge(seq.elts[0], st, False)
                                    else:
                                        unknown.append(norm(st))
                                elif isinstance(vals, (ast.ListComp, ast.GeneratorExp)):
                                    judge(vals.elt, st, True)
                                else:
                                    unknown.append(norm(st))
                            elif isinstance(v, ast.Call) and call_name(v) == "defaultdict" and v.args and isinstance(v.args[0], ast.Name) \
                                    and v.args[0].id in ("dict", "OrderedDict"):
                                fresh.append(norm(st))
                            elif isinstance(v, ast.Name) and alias_root(S, v) != root:
                                unknown.append(norm(st))
                            elif not isinstance(v, ast.Name):
                                unknown.append(norm(st))
                        elif isinstance(t, ast.Subscript) and isinstance(t.value, ast.Name) and t.value.id == root \
                                and not isinstance(t.slice, ast.Tuple):
                            in_loop = any(isinstance(a, (ast.For, ast.While)) for a in ancestors(st) if a is not f.node)
                            v = st.value
                            if isinstance(v, ast.Name):
                                bs = S.binds(v)
                                # `tab = {}` bound inside the same loop iteration is a fresh object per key
                                if len(bs) == 1 and bs[0].kind == "value" and bs[0].expr is not None and _is_mutable_display(bs[0].expr):
                                    same_iter = [a for a in ancestors(st) if isinstance(a, (ast.For, ast.While))][:1] == \
                                                [a for a in ancestors(bs[0].node) if isinstance(a, (ast.For, ast.While))][:1] and in_loop
                                    (fresh if same_iter else shared).append(norm(st))
                                else:
                                    unknown.append(norm(st))
                            else:
                                judge(v, st, True)
                elif isinstance(st, ast.Call) and isinstance(st.func, ast.Attribute) and st.func.attr == "setdefault" \
                        and isinstance(st.func.value, ast.Name) and st.func.value.id == root and len(st.args) == 2:
                    judge(st.args[1], st, True)
            facts = {"fresh": fresh, "shared": shared, "unknown": unknown}
            if shared:
                ctx.violation(rid, f, es.stmt, f"the inner tables of `{root}` are ONE object for every key ({shared[0]}): "
                                               f"`{norm(es.stmt)}` stores the entries of every delay into the same dict, so each "
                                               f"history Jacobian receives the entries of all delays", facts, label=label)
            elif unknown or not fresh:
                raise AnalysisError(f"{rid}: {f.qual}: cannot see how the inner tables of `{root}` are created "
                                    f"({(unknown or ['no creation found'])[0]})")
            else:
                ctx.ok(rid, f, es.stmt, f"every key of `{root}` gets its own dict ({fresh[0]})", facts, label=label)
    ctx.require(n_tables >= 1, f"{rid}: no per-delay entry table (T[d][(row, col)] = v) found")


RULES = [
    ("C12-R1", r1_index_provenance, 20),     # 8 row/column stores, 2 emitters, 1 hand-over, 2 Fortran lines, 5 text indices, 2 hooks
    ("C12-R2", r2_layout_loops, 6),          # 3 loops x (extent) + 2 sibling comparisons + per-DE lists
    ("C12-R3", r3_resolved_before_print, 7),  # _expr_to_jac_str + 4 stores + 2 emitters
    ("C12-R4", r4_sparse_confined, 14),      # 11 entry computations/emitters + 2 guards + flow of guarded values
    ("C12-R5", r5_index_base, 9),            # 2 emitters + 2 Fortran lines + 5 text indices
    ("C12-R6", r6_placeholder_map, 2),
    ("C12-R7", r7_algebraic_expansion_fixpoint, 3),       # 2 _expr_to_jac_str call sites
    ("C12-R8", r8_placeholder_families_disjoint, 1),
    ("C12-R9", r9_jacobian_parameter_slots, 4),          # hand-over, zip pairing, dfdp(i,k), __PYR_ARG_k__
    ("C12-R10", r10_tables_are_distinct_objects, 1),     # the per-delay table J_hist
    ("C12-R11", r11_delay_literal_is_the_delay, 2),      # the one hist(t - <delay>) line
    ("C12-R12", r12_sparse_form_from_one_traversal, 0),  # today no direct sparse form exists (dense matrix wrapped by csr_matrix)
]
