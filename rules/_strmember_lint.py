"""Shared lint: element selection by membership in a *string* (rule kind K3, zero expected instances).

`[n for n in names if n not in pinned]` selects names by membership in a collection.  If `pinned` is (an alias of) a value
known to be a `str` - a parameter annotated `str` / with a string default, or a string literal - Python silently performs a
substring test: every name that happens to be a substring of that string is selected/dropped (`'d' in 'dy'`).  The classic
cause is `pinned = (return_var)` where a one-element tuple `(return_var,)` was meant.

Reported: a comprehension *filter* `[x for x in L if x (not) in S]` whose left operand is the comprehension's own element
variable and whose right operand is str-typed by the evidence above.  Loop guards (`for part in parts: if part in text:`) are
NOT reported: that form is used for genuine text searches (split_equation, check_vname) and is ambiguous.
"""
from __future__ import annotations

import ast
from typing import List, Optional

from engine import AnalysisError
from engine.srcmodel import walk_shallow, norm, set_parents
from engine.dataflow import assigned_value

# (function qualname, right operand) pairs that are intentional substring searches, with the reason
INTENTIONAL = {
    ("check_vname", "v"): "reserved sub-strings are searched inside the variable name",
}

_CONTROL = '''
def positive(func_args, return_var: str = 'dy'):
    pinned = (return_var)
    return [n for n in func_args if n not in pinned]


def negative(func_args, return_var: str = 'dy'):
    pinned = (return_var,)
    return [n for n in func_args if n not in pinned]


def negative2(func_args, return_var: str = 'dy'):
    return [n for n in func_args if n != return_var]
'''


def _str_evidence(fnode, name: str, seen=None) -> Optional[List[str]]:
    """Evidence that local/parameter `name` of function `fnode` is a str on every definition (flow-insensitive), else None."""
    seen = seen or set()
    if name in seen:
        return None
    seen = seen | {name}
    ev = []
    a = fnode.args
    pos = a.posonlyargs + a.args
    for arg in pos + a.kwonlyargs:
        if arg.arg == name:
            if arg.annotation is not None and ast.unparse(arg.annotation) == "str":
                ev.append(f"parameter `{name}: str`")
            elif arg in pos:
                i = pos.index(arg) - (len(pos) - len(a.defaults))
                if i >= 0 and isinstance(a.defaults[i], ast.Constant) and isinstance(a.defaults[i].value, str):
                    ev.append(f"parameter `{name}` with string default")
                else:
                    return None
            else:
                return None
    assigns = [n for n in ast.walk(fnode) if isinstance(n, ast.Assign) and any(isinstance(t, ast.Name) and t.id == name for t in n.targets)]
    others = [n for n in ast.walk(fnode) if isinstance(n, (ast.For, ast.AugAssign, ast.With, ast.comprehension))
              and any(isinstance(x, ast.Name) and x.id == name and isinstance(x.ctx, ast.Store) for x in ast.walk(getattr(n, "target", n)))]
    if others:
        return None
    for st in assigns:
        v = st.value
        if isinstance(v, ast.JoinedStr) or (isinstance(v, ast.Constant) and isinstance(v.value, str)):
            ev.append(f"`{name}` assigned a string literal")
        elif isinstance(v, ast.Name):
            sub = _str_evidence(fnode, v.id, seen)
            if sub is None:
                return None
            ev.append(f"`{name}` = `{v.id}`")
            ev += sub
        else:
            return None
    return ev or None


def scan_function(fnode):
    hits = []
    n_tests = 0
    for n in ast.walk(fnode):
        if not (isinstance(n, ast.Compare) and len(n.ops) == 1 and isinstance(n.ops[0], (ast.In, ast.NotIn))):
            continue
        n_tests += 1
        l, r = n.left, n.comparators[0]
        if not (isinstance(l, ast.Name) and isinstance(r, ast.Name)):
            continue
        # left operand = element variable of an enclosing comprehension / for loop
        elem_of = None
        p = getattr(n, "_parent", None)
        while p is not None and p is not fnode:
            if isinstance(p, (ast.ListComp, ast.SetComp, ast.GeneratorExp, ast.DictComp)):
                for g in p.generators:
                    if any(isinstance(x, ast.Name) and x.id == l.id for x in ast.walk(g.target)) and any(t is n or any(y is n for y in ast.walk(t)) for t in g.ifs):
                        elem_of = g.iter
            p = getattr(p, "_parent", None)
        if elem_of is None:
            continue
        ev = _str_evidence(fnode, r.id)
        if ev is None:
            continue
        # iterating a string character-wise is a genuine character-class test
        if isinstance(elem_of, ast.Name) and _str_evidence(fnode, elem_of.id):
            continue
        hits.append((n, l.id, r.id, ev))
    return n_tests, hits


def membership_in_string(ctx, rid, rels=None):
    tree = ast.parse(_CONTROL)
    set_parents(tree)
    res = {fn.name: scan_function(fn)[1] for fn in tree.body if isinstance(fn, ast.FunctionDef)}
    if len(res["positive"]) != 1 or res["negative"] or res["negative2"]:
        raise AnalysisError(f"{rid}: the string-membership lint failed its own controls: {dict((k, len(v)) for k, v in res.items())}")
    total = 0
    for f in ctx.repo.all_functions(rels):
        if f.parent is not None:
            continue
        n_tests, hits = scan_function(f.node)
        total += n_tests
        for node, lname, rname, ev in hits:
            if (f.name, rname) in INTENTIONAL:
                ctx.info(rid, f, node, f"intentional substring search: {INTENTIONAL[(f.name, rname)]}")
                continue
            from engine.cfg import stmt_of
            st = stmt_of(ctx.cfg(f), node) or f.node
            ctx.violation(rid, f, st, f"`{ast.unparse(node)}` selects the elements `{lname}` by membership in `{rname}`, which is a string "
                                      f"({'; '.join(ev)}): Python performs a substring test, so every element that happens to be a substring of "
                                      f"it is matched (a one-element tuple `({rname},)` or `!=` was meant)",
                          {"evidence": ev}, label=f"elements selected by membership in the string `{rname}`")
    if total < 100:
        raise AnalysisError(f"{rid}: only {total} membership tests scanned (expected > 100)")
    ctx.ok(rid, None, None, f"{total} membership tests scanned; no element selection by membership in a string-typed value "
                            f"(controls: positive matched, negatives silent)", {"membership_tests": total},
           construct="pyrates::element selection by membership in a string", loc="pyrates/__init__.py:1")
