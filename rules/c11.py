"""C11 — distributed delays are unit-gain gamma kernels with the stated mean (DESIGN §4 C11)."""
from __future__ import annotations

import ast
import re
from dataclasses import dataclass, field
from typing import Dict, List, Optional, Tuple

import sympy as sp

from engine import AnalysisError, symx
from engine.srcmodel import walk_shallow, norm, parent, const_str
from engine.util import call_name, contains
from engine.dataflow import assigned_value
from . import _delay_util as U

PROPERTY = "C11"

EXPLANATION = (
    "Agreement of trajectories with the explicitly written augmented ODE system is not decidable statically.  Decided, on the linear-"
    "chain construction of NetworkGraph (pyrates/ir/circuit.py), whose siblings are found by enumerating every `d/dt * z = ...` template "
    "that a method adds to an operator's `equations` (today: _add_edge_buffer ODE branch, _add_matrix_delay cascade branch): "
    "R1 in each sibling the expression that combines the delay d and the spread s normalises (sympy) to (d/s)**2 and is rounded before it "
    "is made an integer (the order n); the value registered for the stage coefficient traces back (provenance tracer of _delay_util: "
    "locals, conditional expressions, per-slot lists, tuples, group records, loop variables over zip/enumerate/items, returns of "
    "extracted helpers with their parameters mapped to the arguments) to expressions that normalise to n/d, where every value n can "
    "take is a rounded (d/s)**2 or the dde_approx parameter and the stage count, traced back the same way, meets exactly this n (same "
    "definitions, same iteration and branch) and no other non-constant value; both siblings therefore agree with "
    "each other and with the definition (their different floors for (d/s)**2 < 1 are recorded, not judged).  R2 every stage template has "
    "the stage variable on the lhs and its rhs normalises to a*prev - a*z with one and the same coefficient a, which is the registered "
    "rate constant (unit steady-state gain); the stage variable's name contains the stage counter; the stages run over range(lo, hi) with "
    "hi - lo = n; `prev` is the source (or the selected source elements) for the first stage and the previous stage's variable for every "
    "later stage; the buffered output is the last stage.  R3 in the scalar sibling the key that groups delay slots into shared chains "
    "(G[key], G.setdefault(key, ..)) has one component whose traced values are the per-slot rate expressions and one whose traced values "
    "are orders, both bound by the same loop over the slots; the chain's number of stages traces back through the keys of the grouping "
    "dict to order values, or is read from one representative member of the group (a per-slot sequence indexed through the group, or the "
    "group's own record) and the key contains the very quantity that is read (slots may share a chain only if they agree on every kernel "
    "parameter the chain is built from); and the chain's rate is read from a per-slot list at a slot of the chain's own group, or from the group's "
    "own record where it was stored by the iteration that files the slot.  R4 in _collect_delays_from_edges the `discretize` "
    "flag handed to _process_delays for the delay is, on every path, the one set by the test of the same edge's spread (True exactly on "
    "the no-spread arm, or the value of that test itself), and the spread is converted with a flag that is False (the statements are "
    "looked for in the collector or in a helper extracted from its per-edge loop; De-Morgan'd tests are understood); _process_delays hands its flag to every _preprocess_delay call; _preprocess_delay returns the delay unchanged on "
    "the non-discretising arm.  NOT decided: trajectories, mean/variance of the realised kernel beyond these formulas, behaviour for "
    "(d/s)**2 < 1, agreement of vectorised and non-vectorised forms at run time."
)
RULE_TEXT = ("instances = stage-equation emission sites (one per sibling), order/rate expressions reached from the registered rate constant, "
             "grouping-key constructs, discretize-flag uses; non-trivial = sympy normal form, def-use tracing or positional zip argument")
ASSUMPTIONS = [
    "A chain of n stages z_k' = a (z_{k-1} - z_k) realises the gamma kernel of order n and rate a: mean n/a, unit gain (textbook linear chain trick).",
    "numpy.round / round round to the nearest integer.",
]

DELAY_PARAMS = {"delay", "delays"}
SPREAD_PARAMS = {"spread", "spreads"}


# ---------------------------------------------------------------------------------------------
# siblings
# ---------------------------------------------------------------------------------------------

@dataclass
class Chain:
    f: object
    em: object                   # the stage emission
    loop: ast.For                # the loop over stages
    label: str


def chain_siblings(ctx) -> List[Chain]:
    cached = getattr(ctx, "_c11_chains", None)
    if cached is not None:
        return cached
    out = []
    for f in U.graph_class(ctx).methods.values():
        ems = U.emissions(ctx, f)
        stages = [e for e in ems if e.eq.ode]
        stray = U.stray_equation_strings(ctx, f, [e.node for e in ems], lambda t: re.match(r"\s*d\s*/\s*dt\s*\*.*=", t, re.S) is not None)
        if stray:
            raise AnalysisError(f"{f.qual}: a `d/dt` string is not part of a recognised equation list: {norm(stray[0])}")
        for i, e in enumerate(stages):
            loop = U.loop_of(e.stmt)
            if loop is None:
                raise AnalysisError(f"{f.qual}: stage equation `{e.text}` is not emitted inside a loop over the stages (unrecognised form)")
            out.append(Chain(f, e, loop, "linear chain" if len(stages) == 1 else f"linear chain #{i + 1}"))
    ctx._c11_chains = out
    return out


def _role(ctx, sc: "U.Scope", n: ast.Name) -> Optional[str]:
    """'D' (delay) / 'S' (spread) for a name whose value is - through locals, loop variables over zip(...), conditional
    expressions and the parameters of extracted helpers - the `delay`/`delays` resp. `spread`/`spreads` parameter of the anchor
    function (or an element of it)."""
    cache = ctx.__dict__.setdefault("_c11_roles", {})
    k = (sc.key(), id(n))
    if k in cache:
        return cache[k]
    t = U.trace(ctx, sc, n)
    roles = set()
    for l in t.values():
        r = None
        if l.kind == "param" and isinstance(l.node, ast.Name) and l.scope.parent is None:
            if l.node.id in DELAY_PARAMS:
                r = "D"
            elif l.node.id in SPREAD_PARAMS:
                r = "S"
        roles.add(r)
    out = roles.pop() if len(roles) == 1 else None
    cache[k] = out
    return out


def _stmt(n):
    while not isinstance(n, ast.stmt):
        n = parent(n)
    return n


# ---------------------------------------------------------------------------------------------
# R1
# ---------------------------------------------------------------------------------------------

D, S, N = sp.Symbol("d", positive=True), sp.Symbol("s", positive=True), sp.Symbol("n", positive=True)


def _order_sites(ctx, f) -> List[Tuple["U.Scope", ast.AST]]:
    """Maximal arithmetic expressions that combine a delay-role and a spread-role name, in `f` or in a helper it calls."""
    cache = ctx.__dict__.setdefault("_c11_sites", {})
    if f.qual in cache:
        return cache[f.qual]
    sites, seen = [], set()
    for sc in U.helper_scope_tree(ctx, U.Scope(f)):
        for n in walk_shallow(sc.f.node):
            if not isinstance(n, ast.BinOp) or id(n) in seen:
                continue
            if isinstance(parent(n), (ast.BinOp, ast.UnaryOp)):
                continue
            names = [x for x in ast.walk(n) if isinstance(x, ast.Name)]
            if len(names) < 2:
                continue
            roles = {_role(ctx, sc, x) for x in names}
            if "D" in roles and "S" in roles:
                seen.add(id(n))
                sites.append((sc, n))
    cache[f.qual] = sites
    return sites


def _is_order_leaf(l, sites) -> bool:
    """A traced value is a kernel order: it contains an order site (the rounded (d/s)**2) or is the explicit dde_approx parameter."""
    if l.kind == "param":
        return l.scope.parent is None and isinstance(l.node, ast.Name) and l.node.id == "dde_approx"
    if l.kind == "expr" and not l.sel:
        return any(U.contains(l.node, site) for _, site in sites)
    return False


def _is_order_value(ctx, sc, e, sites) -> Tuple[bool, str]:
    """Every non-constant value `e` can take is a kernel order (see _is_order_leaf)."""
    t = U.trace(ctx, sc, e)
    if t.opaque():
        l = t.opaque()[0]
        raise AnalysisError(f"{sc.f.qual}: cannot trace `{ast.unparse(e)}` (stops at `{ast.unparse(l.node)}` in {l.scope.f.qualname})")
    vals = t.values()
    bad = [l for l in vals if not _is_order_leaf(l, sites)]
    if not vals:
        return False, "only constants"
    if bad:
        return False, f"`{ast.unparse(bad[0].node)}` ({bad[0].scope.f.qualname})"
    return True, ", ".join(sorted({ast.unparse(l.node) for l in vals}))


def _wrappers(node):
    chain = []
    while True:
        p = parent(node)
        if isinstance(p, ast.Call) and p.args and p.args[0] is node:
            rc = U.rounding_call(p)
            if rc is not None:
                chain.append(rc[0])
            elif call_name(p) == "int":
                chain.append("int")
            else:
                break
            node = p
        else:
            break
    return chain, node


def _rate_leaves(ctx, f, e):
    """(trace, non-constant leaves) of the value registered for a stage coefficient."""
    t = U.trace(ctx, U.Scope(f), e)
    if t.opaque():
        l = t.opaque()[0]
        raise AnalysisError(f"{f.qual}: rate value `{ast.unparse(e)}` cannot be traced (stops at `{ast.unparse(l.node)}`"
                            f"{' component ' + str(l.sel) if l.sel else ''} in {l.scope.f.qualname}: unrecognised form)")
    out, seen = [], set()
    for l in t.values():
        if id(l.node) not in seen:
            seen.add(id(l.node))
            out.append(l)
    return t, out


def _stage_parts(ctx, ch: Chain, vdefs):
    """(expanded rhs, z symbol, rate-constant symbols, input symbols) of the stage template: the registered constants among the
    symbols of the rhs are the rate; what is neither the stage variable nor a registered constant is the input."""
    eq = ch.em.eq
    Z = eq.name(eq.lhs)
    if Z is None:
        raise AnalysisError(f"{ch.f.qual}: lhs of `{eq.text}` is not a plain variable")
    try:
        e = sp.expand(eq.sym(eq.rhs))
    except symx.Unsupported as ex:
        raise AnalysisError(f"{ch.f.qual}: rhs of `{eq.text}` is not arithmetic: {ex}")
    z = sp.Symbol(Z)
    consts = {v.name for v in vdefs if const_str(v.fields.get("vtype")) == "constant"}
    syms = sorted(e.free_symbols - {z}, key=str)
    rates = [x for x in syms if str(x) in consts]
    inputs = [x for x in syms if str(x) not in consts]
    return e, z, rates, inputs


def _rate_constant(ctx, rid, ch: Chain, vdefs):
    e, z, rates, inputs = _stage_parts(ctx, ch, vdefs)
    if len(rates) != 1:
        raise AnalysisError(f"{rid}: {ch.f.qual}: the stage template `{ch.em.text}` does not contain exactly one registered constant (found {rates})")
    a_t = str(rates[0])
    cds = [v for v in vdefs if v.name == a_t]
    if len(cds) != 1 or "value" not in cds[0].fields:
        raise AnalysisError(f"{rid}: {ch.f.qual}: the stage coefficient `{a_t}` is not registered exactly once with a value")
    return a_t, cds[0]


def r1_order_and_rate(ctx, rid):
    chains = chain_siblings(ctx)
    ctx.require(chains, f"{rid}: no `d/dt` stage template found in {U.CLS}")
    summary = {}
    for ch in chains:
        f = ch.f
        root = U.Scope(f)
        # ---- order
        sites = _order_sites(ctx, f)
        if not sites:
            raise AnalysisError(f"{rid}: {f.qual}: no expression combining the delay and the spread found (unrecognised form)")
        for sc, site in sites:
            def leaf(n, sc=sc):
                if isinstance(n, ast.Name):
                    r = _role(ctx, sc, n)
                    if r == "D":
                        return D
                    if r == "S":
                        return S
                return None
            try:
                e = symx.to_sympy(site, leaf=leaf)
            except symx.Unsupported as ex:
                raise AnalysisError(f"{rid}: {f.qual}: `{ast.unparse(site)}` is not arithmetic: {ex}")
            chain, outer = _wrappers(site)
            st = _stmt(site)
            facts = {"expression": ast.unparse(outer), "normalised_argument": str(sp.simplify(e)), "reference": "round((d/s)**2)",
                     "wrappers_inner_to_outer": chain, "in": sc.f.qualname}
            good_arg = sp.simplify(e - (D / S) ** 2) == 0
            good_round = bool(chain) and chain[0] == "round"
            if good_arg and good_round:
                ctx.ok(rid, f, st, "the order is round((delay/spread)**2)", facts, label=f"order: {norm(st, 70)}")
            elif not good_arg:
                ctx.violation(rid, f, st, f"the kernel order is computed from `{ast.unparse(site)}` = {sp.simplify(e)}, not from (delay/spread)**2: "
                                          f"the realised kernel would not have the stated spread (variance d**2/n)", facts,
                              label=f"order: {norm(st, 70)}")
            else:
                ctx.violation(rid, f, st, f"(delay/spread)**2 is {'truncated' if chain else 'not rounded'} instead of rounded to the nearest integer "
                                          f"(wrappers: {chain})", facts, label=f"order: {norm(st, 70)}")
        # ---- rate: from the registered stage coefficient back to its formula
        vdefs = U.var_defs(ctx, f)
        a_t, cd = _rate_constant(ctx, rid, ch, vdefs)
        rate_tr, leaves = _rate_leaves(ctx, f, cd.fields["value"])
        if not leaves:
            raise AnalysisError(f"{rid}: {f.qual}: the value of `{a_t}` traces back to constants only")
        # the value that fixes the number of stages is traced back until it meets the numerator of one of the rate expressions
        stage_n = _stage_count_name(ch)
        numerators = {}
        for l in leaves:
            nn_ = _numerator(ctx, l)
            if nn_ is not None:
                numerators[id(l.node)] = nn_
        stops = {U.name_ident(ctx, l.scope, numerators[id(l.node)]) for l in leaves if id(l.node) in numerators}
        broken = [l for l in leaves if id(l.node) not in numerators]
        stage_tr = U.trace(ctx, root, stage_n, stop=stops) if stage_n is not None else None
        for l in leaves:
            expr, sc = l.node, l.scope
            st = _stmt(expr)
            others = {}

            def leaf(n, sc=sc, others=others):
                if isinstance(n, ast.Name):
                    r = _role(ctx, sc, n)
                    if r == "D":
                        return D
                    if r == "S":
                        return S
                    others[n.id] = n
                    return sp.Symbol(n.id, positive=True)
                return None
            try:
                r = symx.to_sympy(expr, leaf=leaf)
            except symx.Unsupported as ex:
                raise AnalysisError(f"{rid}: {f.qual}: rate expression `{ast.unparse(expr)}` is not arithmetic: {ex}")
            num = sp.simplify(r * D)
            facts = {"rate_constant": a_t, "rate_expression": ast.unparse(expr), "normalised": str(sp.simplify(r)), "reference": "n/d",
                     "through": sorted(set(rate_tr.containers)), "in": sc.f.qualname}
            label = f"rate: {norm(st, 70)}"
            if not (num.is_Symbol and str(num) in others):
                ctx.violation(rid, f, st, f"the rate registered for the stage coefficient `{a_t}` is `{ast.unparse(expr)}` = {sp.simplify(r)}, not order/delay: "
                                          f"with n stages of rate a the mean delay is n/a, which equals the stated delay only for a = n/d", facts, label=label)
                continue
            nn = others[str(num)]
            # n must be the order: every value it can take is a rounded (d/s)**2 or the explicit dde_approx parameter
            is_order, what = _is_order_value(ctx, sc, nn, sites)
            # ... and the same order that fixes the number of stages
            if broken:
                tie = (True, "not evaluated: another rate expression of this sibling is not of the form n/d (reported there)")
            else:
                tie = _order_tie(ctx, ch, sc, nn, stage_n, stage_tr, sites)
            facts["numerator"] = nn.id
            facts["numerator_values"] = what
            facts["tie_to_stage_count"] = tie[1]
            if is_order and tie[0]:
                ctx.ok(rid, f, st, f"rate = {nn.id}/delay with {nn.id} the kernel order", facts, label=label)
            elif not is_order:
                ctx.violation(rid, f, st, f"the numerator `{nn.id}` of the rate is not the kernel order (it can be {what})", facts, label=label)
            else:
                ctx.violation(rid, f, st, f"the rate uses `{nn.id}` but the number of stages is fixed by a different value ({tie[1]}): mean delay = stages/rate "
                                          f"would differ from the stated delay", facts, label=label)
        # ---- floors (recorded only)
        summary[f.qualname] = sorted({norm(_stmt(site)) for _, site in sites})
    ctx.info(rid, chains[0].f, chains[0].f.node, "order definitions per sibling (floors for (d/s)**2 < 1 differ between siblings: the scalar form floors at "
                                                 "dde_approx, the matrix form at 1; the property does not fix that case)", {"order_assignments": summary},
             label="sibling difference: floor of the order")


def _stage_count_name(ch: Chain) -> Optional[ast.Name]:
    it = ch.loop.iter
    if isinstance(it, ast.Call) and call_name(it) == "range":
        for a in it.args:
            for x in ast.walk(a):
                if isinstance(x, ast.Name):
                    return x
    return None


def _numerator(ctx, l) -> Optional[ast.Name]:
    """The name n of a rate expression that normalises to n/d (None otherwise)."""
    others = {}

    def leaf(n):
        if isinstance(n, ast.Name):
            r = _role(ctx, l.scope, n)
            if r == "D":
                return D
            if r == "S":
                return S
            others[n.id] = n
            return sp.Symbol(n.id, positive=True)
        return None
    try:
        r = symx.to_sympy(l.node, leaf=leaf)
    except symx.Unsupported:
        return None
    num = sp.simplify(r * D)
    return others[str(num)] if num.is_Symbol and str(num) in others else None


def _order_tie(ctx, ch: Chain, sc, num: ast.Name, stage_n: Optional[ast.Name], stage_tr, sites):
    """Is the numerator of the rate the same order that fixes the number of stages?  The value of the stage count is traced back
    (through the grouping key, per-slot lists, tuples, helper returns) until it meets the numerator of a rate expression (same
    scope, same name, same reaching definitions).  The tie holds when (1) this numerator is met, in the same loop iteration and
    on compatible branches as the rate expression, and (2) the stage count cannot take any other non-constant value."""
    if stage_n is None:
        return False, "stage loop is not a range over a name"
    if stage_tr.opaque():
        l = stage_tr.opaque()[0]
        raise AnalysisError(f"{ch.f.qual}: the stage count `{stage_n.id}` cannot be traced (stops at `{ast.unparse(l.node)}` in {l.scope.f.qualname})")
    ident = U.name_ident(ctx, sc, num)
    hits = [l for l in stage_tr.stops() if U.name_ident(ctx, l.scope, l.node) == ident]
    extra = [l for l in stage_tr.values() if l.kind != "stop"]
    if extra:
        unknown = [l for l in extra if not (l.kind == "param" or isinstance(l.node, (ast.BinOp, ast.Name)) or _is_order_leaf(l, sites))]
        if unknown:
            raise AnalysisError(f"{ch.f.qual}: the stage count `{stage_n.id}` can be `{ast.unparse(unknown[0].node)}` ({unknown[0].scope.f.qualname}), "
                                f"which is not the numerator of a rate expression (unrecognised form)")
        return False, (f"stages: range over `{stage_n.id}`, which can also be {sorted({ast.unparse(l.node) for l in extra})}, a value that is not the "
                       f"numerator of the corresponding rate")
    if not hits:
        vals = sorted({ast.unparse(l.node) for l in stage_tr.values()})
        return False, f"stages: range over `{stage_n.id}`, which takes the values {vals}; none of them is the rate's numerator `{num.id}`"
    st_num = _stmt(num)
    for h in hits:
        st_h = _stmt(h.node)
        if h.scope.key() != sc.key():
            continue
        if U.loop_of(st_h) is U.loop_of(st_num) and U.compatible(ctx, sc.f, U.branch_chain(st_h), U.branch_chain(st_num)):
            return True, (f"stages: range over `{stage_n.id}`, whose value is `{num.id}` of `{norm(st_h, 50)}` ({sc.f.qualname}): same definitions, same "
                          f"iteration as the rate")
    return False, f"`{num.id}` fixes the stage count only in another iteration / on another branch than the one that computes this rate"


# ---------------------------------------------------------------------------------------------
# R2
# ---------------------------------------------------------------------------------------------

def _split(t: str):
    return re.split(r"(⟨.*?⟩)", t)


def _shifted_template(zt: str, other: str, loopvar: str, shift) -> bool:
    """other == zt with the hole ⟨loopvar⟩ replaced by an expression equal to loopvar + shift (shift may be a sympy expr)."""
    a, b = _split(zt), _split(other)
    if len(a) != len(b):
        return False
    k = sp.Symbol(loopvar)
    changed = False
    for x, y in zip(a, b):
        if x == y:
            if x == f"⟨{loopvar}⟩":
                return False        # the counter hole must change
            continue
        if x == f"⟨{loopvar}⟩" and y.startswith("⟨"):
            try:
                ye = symx.to_sympy(ast.parse(y[1:-1], mode="eval").body)
            except Exception:
                return False
            if sp.simplify(ye - (k + shift)) != 0:
                return False
            changed = True
        else:
            return False
    return changed


def r2_stage_equations(ctx, rid):
    chains = chain_siblings(ctx)
    ctx.require(chains, f"{rid}: no `d/dt` stage template found in {U.CLS}")
    for ch in chains:
        f, em, eq = ch.f, ch.em, ch.em.eq
        vdefs = U.var_defs(ctx, f)
        # ---- (a) algebra: rhs = a*prev - a*z
        e, z, rates, inputs = _stage_parts(ctx, ch, vdefs)
        Z = str(z)
        if len(inputs) != 1:
            raise AnalysisError(f"{rid}: {f.qual}: cannot tell the input of the stage `{eq.text}` (symbols that are neither the stage variable nor a "
                                f"registered constant: {inputs})")
        P = inputs[0]
        cz, cp = e.coeff(z, 1), e.coeff(P, 1)
        rem = sp.expand(e - cz * z - cp * P)
        facts = {"template": eq.text, "expanded_rhs": str(e), "coefficient_of_stage_variable": str(cz), "coefficient_of_input": str(cp),
                 "registered_constants": [str(r) for r in rates]}
        problems = []
        if rem != 0 or z in cp.free_symbols or P in cz.free_symbols:
            problems.append(f"the rhs is not linear in stage variable and input (remainder {rem})")
        elif sp.simplify(cp + cz) != 0:
            problems.append(f"input and stage variable do not carry the same coefficient (input: {cp}, stage variable: {cz}): with z' = a*prev - b*z the "
                            f"steady-state gain of each stage is a/b, not 1")
        elif not (cp.is_Symbol and cp in rates):
            if (-cp).is_Symbol and (-cp) in rates:
                problems.append(f"the sign is flipped: z' = {cp}*prev + {(-cp)}*z grows away from its input instead of relaxing towards it")
            else:
                problems.append(f"the common coefficient `{cp}` is not the rate constant registered for this chain ({[str(r) for r in rates]})")
        label = f"{ch.label}: stage equation"
        if problems:
            ctx.violation(rid, f, em.stmt, "; ".join(problems), facts, label=label)
        else:
            ctx.ok(rid, f, em.stmt, f"rhs normalises to a*prev - a*z with a = `{cp}`, prev = `{P}` (unit steady-state gain)", facts, label=label)
        # ---- (b) stage variable is distinct per stage, number of stages = order
        loop = ch.loop
        if not (isinstance(loop.target, ast.Name) and isinstance(loop.iter, ast.Call) and call_name(loop.iter) == "range"
                and 1 <= len(loop.iter.args) <= 2):
            raise AnalysisError(f"{rid}: {f.qual}: stage loop `{norm(loop)}` is not `for k in range(...)`")
        kname = loop.target.id
        ra = loop.iter.args
        lo = symx.to_sympy(ra[0]) if len(ra) == 2 else sp.Integer(0)
        hi = symx.to_sympy(ra[-1])
        count = sp.simplify(hi - lo)
        cf = {"loop": norm(loop), "stages": str(count), "stage_variable": Z}
        if f"⟨{kname}⟩" not in Z:
            ctx.violation(rid, f, loop, f"the stage variable `{Z}` does not contain the stage counter `{kname}`: all stages would share one state variable",
                          cf, label=f"{ch.label}: stage count")
        elif not count.is_Symbol:
            ctx.violation(rid, f, loop, f"the loop emits {count} stages, not exactly the kernel order: mean delay = stages/rate would not be the stated delay",
                          cf, label=f"{ch.label}: stage count")
        else:
            ctx.ok(rid, f, loop, f"one distinct stage variable per k, {count} stages", cf, label=f"{ch.label}: stage count")
        # ---- (c) chain link, (d) output
        ph = str(P)
        if not (ph.startswith("⟨") and ph.endswith("⟩") and ph.count("⟨") == 1):
            raise AnalysisError(f"{rid}: {f.qual}: the stage input `{ph}` is not a single hole (unrecognised form)")
        pnode = None
        for n in ast.walk(em.node):
            if isinstance(n, ast.FormattedValue) and ast.unparse(n.value) == ph[1:-1]:
                pnode = n.value
        if not isinstance(pnode, ast.Name):
            raise AnalysisError(f"{rid}: {f.qual}: the stage input hole `{ph}` is not a local name")
        src_param = _source_param(ctx, f)
        _check_link(ctx, rid, ch, pnode, Z, kname, lo, hi, src_param)
        _check_output(ctx, rid, ch, Z, kname, hi)


def _source_param(ctx, f):
    from .c09 import _source_param as sp_
    return sp_(ctx, f)


def _is_source_expr(ctx, f, v, src_param, depth=0) -> Optional[str]:
    """Describe `v` if it denotes the source variable or a selection of its elements; None otherwise."""
    if isinstance(v, ast.Name) and v.id == src_param and U.is_param(ctx, f, v):
        return f"⟨{src_param}⟩"
    t = U.render(ctx, f, v)
    if t is not None:
        try:
            q = U.parse_eq("x = " + t)
        except AnalysisError:
            return None
        r = q.rhs
        if isinstance(r, ast.Call) and call_name(r) in ("index", "index_1d") and len(r.args) == 2 and q.name(r.args[0]) == f"⟨{src_param}⟩":
            return q.show(r)
        if q.name(r) == f"⟨{src_param}⟩":
            return f"⟨{src_param}⟩"
        return None
    if isinstance(v, ast.Name) and depth < 4:
        defs = ctx.rd(f).defs_reaching(v)
        ds = []
        for d in defs:
            val = assigned_value(d, v.id) if isinstance(d, ast.stmt) else None
            if val is None:
                return None
            s = _is_source_expr(ctx, f, val, src_param, depth + 1)
            if s is None:
                return None
            ds.append(s)
        return " | ".join(sorted(set(ds))) if ds else None
    return None


def _carried(ctx, ch: Chain, Z: str):
    """In-loop statements `x = <stage variable just emitted>` (the variable that carries the last stage out of the loop)."""
    out = []
    for st in ch.loop.body:
        if isinstance(st, ast.Assign) and len(st.targets) == 1 and isinstance(st.targets[0], ast.Name):
            if U.render_expr(ctx, ch.f, st.value) == Z and not U._is_strish(st.value):
                out.append(st)
    return out


def _check_link(ctx, rid, ch: Chain, pnode: ast.Name, Z: str, kname: str, lo, hi, src_param: str):
    f, em, loop = ch.f, ch.em, ch.loop
    rd = ctx.rd(f)
    defs = rd.defs_reaching(pnode)
    label = f"{ch.label}: chain link"
    inside = [d for d in defs if isinstance(d, ast.stmt) and contains(loop, d)]
    outside = [d for d in defs if isinstance(d, ast.stmt) and not contains(loop, d)]
    facts = {"input_variable": pnode.id, "definitions": [norm(d) for d in defs if isinstance(d, ast.stmt)], "stage_variable": Z}
    if len(defs) == 1 and inside and isinstance(assigned_value(inside[0], pnode.id), ast.IfExp):
        # --- computed form: prev = <source> if k == first else <stage k-1>
        ife = assigned_value(inside[0], pnode.id)
        t = ife.test
        first_ok = isinstance(t, ast.Compare) and len(t.ops) == 1 and isinstance(t.ops[0], ast.Eq) and isinstance(t.left, ast.Name) \
            and t.left.id == kname and sp.simplify(symx.to_sympy(t.comparators[0]) - lo) == 0
        if not first_ok:
            raise AnalysisError(f"{rid}: {f.qual}: test `{ast.unparse(t)}` of the stage input does not compare the stage counter with the first stage")
        first = _is_source_expr(ctx, f, ife.body, src_param)
        other = U.render(ctx, f, ife.orelse)
        facts.update({"first_stage_input": first or ast.unparse(ife.body), "later_stage_input": other or ast.unparse(ife.orelse)})
        problems = []
        if first is None:
            problems.append(f"the first stage is not driven by the source variable ⟨{src_param}⟩")
        if other is None or not _shifted_template(Z, other, kname, -1):
            problems.append(f"a later stage k is driven by `{other or ast.unparse(ife.orelse)}`, not by the previous stage "
                            f"`{Z.replace('⟨' + kname + '⟩', '⟨' + kname + ' - 1⟩')}`: the stages are not cascaded (a first-order lag instead of an n-th order kernel)")
        if problems:
            ctx.violation(rid, f, inside[0], "; ".join(problems), facts, label=label)
        else:
            ctx.ok(rid, f, inside[0], "stage 1 is driven by the source, stage k by stage k-1", facts, label=label)
        return
    if inside and outside:
        # --- carried form: prev = <source>; for k: emit(prev); prev = z_k
        problems = []
        srcs = []
        for d in outside:
            v = assigned_value(d, pnode.id)
            s = _is_source_expr(ctx, f, v, src_param) if v is not None else None
            srcs.append(s)
            if s is None:
                problems.append(f"before the first stage `{pnode.id}` is `{norm(d)}`, which is not (a selection of) the source variable ⟨{src_param}⟩")
        carried = []
        for d in inside:
            v = assigned_value(d, pnode.id)
            t = U.render_expr(ctx, f, v) if v is not None else None
            carried.append(t)
            if t != Z:
                problems.append(f"inside the stage loop `{pnode.id}` becomes `{t}`, not the stage variable `{Z}` just emitted")
            elif not (parent(d) is parent(em.stmt) and d.lineno > em.stmt.lineno):
                problems.append(f"`{norm(d)}` does not follow the emission of the stage equation in the loop body")
        facts.update({"first_stage_input": srcs, "carried": carried})
        if problems:
            ctx.violation(rid, f, em.stmt, "; ".join(problems), facts, label=label)
        else:
            ctx.ok(rid, f, em.stmt, "stage 1 is driven by the source (selection), every later stage by the stage emitted before it", facts, label=label)
        return
    if outside and not inside:
        ctx.violation(rid, f, em.stmt, f"the stage input `{pnode.id}` is never advanced inside the stage loop: every stage is driven by the same signal, so the "
                                       f"cascade degenerates to n parallel first-order lags instead of an n-th order kernel", facts, label=label)
        return
    raise AnalysisError(f"{rid}: {f.qual}: definitions of the stage input `{pnode.id}` have an unrecognised structure")


def _check_output(ctx, rid, ch: Chain, Z: str, kname: str, hi):
    """The equations that hand the chain's result to the buffered output read the last stage."""
    f, loop = ch.f, ch.loop
    rd = ctx.rd(f)
    out_label = f"{ch.label}: output is the last stage"
    ems = U.emissions(ctx, f)
    outs = [e for e in ems if not e.eq.ode and e.group is None and not contains(loop, e.stmt) and e.stmt.lineno > loop.lineno
            and U.loop_of(e.stmt) is U.loop_of(loop) and U.compatible(ctx, f, U.branch_chain(e.stmt), U.branch_chain(loop))]
    if not outs:
        raise AnalysisError(f"{rid}: {f.qual}: no output equation follows the stage loop (unrecognised form)")
    carried = _carried(ctx, ch, Z)
    cnames = {st.targets[0].id for st in carried}
    last = hi - 1
    bad, good = [], []
    for o in outs:
        rt = o.eq.name(o.eq.rhs)
        h = rt[1:-1] if rt and rt.startswith("⟨") and rt.endswith("⟩") and rt.count("⟨") == 1 else None
        if h is not None and h in cnames:
            hn = [n.value for n in ast.walk(o.node) if isinstance(n, ast.FormattedValue) and ast.unparse(n.value) == h]
            dd = rd.defs_reaching(hn[0]) if hn else []
            if any(d in carried for d in dd):
                good.append(o.text)
                continue
        if rt is not None and _matches_stage(Z, rt, kname, last):
            good.append(o.text)
            continue
        bad.append(o.text)
    of = {"output_equations": [o.text for o in outs], "carried_by": sorted(cnames), "last_stage_index": str(last)}
    if bad:
        ctx.violation(rid, f, outs[0].stmt, f"output equation(s) {bad} do not read the last stage of the cascade (neither the variable carried out of the stage "
                                            f"loop nor the stage variable with k = {last}): the edge would see the source itself or a kernel of another order",
                      of, label=out_label)
    else:
        ctx.ok(rid, f, outs[0].stmt, f"all {len(outs)} output equation(s) read the last stage", of, label=out_label)


def _matches_stage(zt: str, other: str, loopvar: str, value) -> bool:
    """other == zt with ⟨loopvar⟩ replaced by a hole whose expression equals `value`."""
    a, b = _split(zt), _split(other)
    if len(a) != len(b):
        return False
    hit = False
    for x, y in zip(a, b):
        if x == f"⟨{loopvar}⟩":
            if not y.startswith("⟨"):
                return False
            try:
                ye = symx.to_sympy(ast.parse(y[1:-1], mode="eval").body)
            except Exception:
                return False
            if sp.simplify(ye - value) != 0:
                return False
            hit = True
        elif x != y:
            return False
    return hit


# ---------------------------------------------------------------------------------------------
# R3
# ---------------------------------------------------------------------------------------------

def r3_grouping_key(ctx, rid):
    chains = chain_siblings(ctx)
    n = 0
    for ch in chains:
        f = ch.f
        root = U.Scope(f)
        # the chain loop: an enclosing `for ... in [enumerate(]G.items()[)]`
        outer = None
        a = parent(ch.loop)
        while a is not None and not isinstance(a, ast.FunctionDef):
            if isinstance(a, ast.For):
                it, _ = U.unwrap_enumerate(a.iter)
                if isinstance(it, ast.Call) and call_name(it) in ("items", "values") and isinstance(it.func, ast.Attribute) \
                        and isinstance(it.func.value, ast.Name) and not it.args:
                    outer = (a, it.func.value.id, call_name(it))
            a = parent(a)
        if outer is None:
            continue        # one chain per call (matrix form): nothing is shared
        n += 1
        oloop, G, how = outer
        # the group variable: the dict *value* bound by the chain loop
        it_, en_ = U.unwrap_enumerate(oloop.iter)
        tgt_ = oloop.target.elts[1] if en_ and isinstance(oloop.target, ast.Tuple) and len(oloop.target.elts) == 2 else oloop.target
        if how == "items":
            gname = tgt_.elts[1].id if isinstance(tgt_, ast.Tuple) and len(tgt_.elts) == 2 and isinstance(tgt_.elts[1], ast.Name) else None
        else:
            gname = tgt_.id if isinstance(tgt_, ast.Name) else None
        if gname is None:
            raise AnalysisError(f"{rid}: {f.qual}: group variable of `{norm(oloop)}` not recognised")
        # names derived from the group's own record, not from its position
        derived = {gname}
        changed_ = True
        while changed_:
            changed_ = False
            for st_ in ast.walk(oloop):
                if isinstance(st_, ast.Assign) and any(isinstance(x, ast.Name) and x.id in derived for x in ast.walk(st_.value)):
                    for t_ in st_.targets:
                        for x in ast.walk(t_):
                            if isinstance(x, ast.Name) and x.id not in derived:
                                derived.add(x.id)
                                changed_ = True
        # the keys under which slots are filed: G[key] (store, or .append on a defaultdict), G.setdefault(key, ...), G.get(key, ...)
        key_exprs = []
        for x in walk_shallow(f.node):
            if contains(oloop, x):
                continue
            if isinstance(x, ast.Subscript) and isinstance(x.value, ast.Name) and x.value.id == G:
                key_exprs.append(x.slice)
            elif isinstance(x, ast.Call) and isinstance(x.func, ast.Attribute) and isinstance(x.func.value, ast.Name) \
                    and x.func.value.id == G and x.func.attr in ("setdefault", "get") and x.args:
                key_exprs.append(x.args[0])
        if not key_exprs:
            raise AnalysisError(f"{rid}: {f.qual}: no key of the grouping dict `{G}` found (neither `{G}[key]` nor `{G}.setdefault(key, ..)`)")
        # the rate registered for the chain's stage coefficient, traced back to the per-slot rate expressions
        vdefs = U.var_defs(ctx, f)
        a_t, cd = _rate_constant(ctx, rid, ch, vdefs)
        rate_tr, rate_leaves = _rate_leaves(ctx, f, cd.fields["value"])
        rate_nodes = {id(l.node) for l in rate_leaves}
        if not rate_nodes:
            raise AnalysisError(f"{rid}: {f.qual}: the registered rate `{a_t}` traces back to constants only")
        sites = _order_sites(ctx, f)

        def first_loop(tr):
            """the loop whose variable the traced value is (the iteration the key component belongs to)"""
            for b_ in tr.binders:
                if isinstance(b_, ast.For):
                    return b_
            return None

        # ---- (a) the key holds the slot's own order and the slot's own rate, drawn from one iteration
        seen_keys = set()
        key_stmts = []
        key_comps = []
        for kx in key_exprs:
            kdef = kx
            if isinstance(kx, ast.Name):
                v = U.single_value(ctx, f, kx)
                if v is None:
                    raise AnalysisError(f"{rid}: {f.qual}: grouping key `{kx.id}` has no single definition")
                kdef = v
            kst = _stmt(kdef)
            if id(kst) in seen_keys:
                continue
            seen_keys.add(id(kst))
            key_stmts.append(kst)
            comps = list(kdef.elts) if isinstance(kdef, ast.Tuple) else [kdef]
            desc, rate_loops, order_loops = [], [], []
            for c in comps:
                key_comps.append((c, kst))
                tr = U.trace(ctx, root, c)
                if tr.opaque():
                    l = tr.opaque()[0]
                    raise AnalysisError(f"{rid}: {f.qual}: key component `{ast.unparse(c)}` cannot be traced (stops at `{ast.unparse(l.node)}` in "
                                        f"{l.scope.f.qualname}: unrecognised form)")
                vals = tr.values()
                ids = {id(l.node) for l in vals}
                if vals and ids <= rate_nodes:
                    desc.append("rate")
                    rate_loops.append(first_loop(tr))
                elif vals and all(_is_order_leaf(l, sites) for l in vals):
                    desc.append("order")
                    order_loops.append(first_loop(tr))
                elif not vals:
                    desc.append("constant")
                else:
                    desc.append("other: " + ", ".join(sorted({ast.unparse(l.node) for l in vals}))[:80])
            facts = {"key": ast.unparse(kdef), "components": desc, "rate_through": sorted(set(rate_tr.containers))}
            has_rate, has_order = bool(rate_loops), bool(order_loops)
            label = f"grouping key {norm(kst, 70)}"
            same_iter = has_rate and has_order and all(l_ is not None and l_ is rate_loops[0] for l_ in rate_loops + order_loops)
            if has_rate and has_order and same_iter:
                ctx.ok(rid, f, kst, "slots share a chain only if their own order and their own rate agree (both drawn from one iteration over the slots)",
                       facts, label=label)
            else:
                missing = [w for w, h in (("rate", has_rate), ("order", has_order)) if not h]
                why = (f"the key that groups delay slots into one shared chain does not contain the slot's {' and '.join(missing)}: edges that differ in it would be "
                       f"merged into one chain and all get the kernel of the first") if missing else \
                    "order and rate in the key are not drawn from the same iteration"
                ctx.violation(rid, f, kst, why, facts, label=label)
        # ---- (b) the number of stages of a chain is fixed by the group's key: it is a component of the key, or it is read from a
        #          representative member of the group and the key contains the very quantity that is read
        stage_n = _stage_count_name(ch)
        if stage_n is None:
            raise AnalysisError(f"{rid}: {f.qual}: the stage loop `{norm(ch.loop)}` is not a range over a name")
        stage_tr = U.trace(ctx, root, stage_n)
        if stage_tr.opaque():
            l = stage_tr.opaque()[0]
            raise AnalysisError(f"{rid}: {f.qual}: the stage count `{stage_n.id}` cannot be traced (stops at `{ast.unparse(l.node)}`)")
        svals = stage_tr.values()
        via_key = [sel for sc_, w, sel in stage_tr.waypoints if w.id == G and sel and sel[0][0] == "dkey"]
        label = f"stage count is the key's order component ({norm(key_stmts[0], 50)})"
        sfacts = {"stage_count": stage_n.id, "values": sorted({ast.unparse(l.node) for l in svals})}
        if via_key:
            pos = [x[1] for x in via_key[0][1:2] if x[0] == "idx"]
            sfacts["key_component"] = pos[0] if pos else None
            if svals and all(_is_order_leaf(l, sites) for l in svals):
                ctx.ok(rid, f, oloop, f"the number of stages `{stage_n.id}` is component {pos[0] if pos else '?'} of the key, which holds the slot's order", sfacts,
                       label=label)
            else:
                ctx.violation(rid, f, oloop, f"the number of stages `{stage_n.id}` is read from component {pos[0] if pos else '?'} of the grouping key, which does not "
                                             f"hold the slot's order (it holds {sfacts['values']}): chains would get a wrong number of stages", sfacts,
                              label=label)
        else:
            sval = stage_n
            hops = 0
            while isinstance(sval, ast.Name) and hops < 4:
                v2 = U.single_value(ctx, f, sval)
                if v2 is None:
                    break
                sval, hops = v2, hops + 1
            if not (isinstance(sval, ast.Subscript) and isinstance(sval.value, ast.Name)):
                raise AnalysisError(f"{rid}: {f.qual}: the stage count `{stage_n.id}` is neither a component of the key of `{G}` nor read from a member "
                                    f"of the group (unrecognised form: `{ast.unparse(sval)}`)")
            own = sval.value.id in derived or any(isinstance(nm, ast.Name) and nm.id in derived for nm in ast.walk(sval.slice))
            sfacts["read_as"] = ast.unparse(sval)
            ids = {id(l.node) for l in svals}
            covered = []
            for c, kst in key_comps:
                ctr = U.trace(ctx, root, c)
                cids = {id(l.node) for l in ctr.values()}
                if cids and cids == ids:
                    covered.append(c)
            if not own:
                ctx.violation(rid, f, _stmt(sval), f"the number of stages `{ast.unparse(sval)}` is not read at a slot of the chain's own group", sfacts, label=label)
            elif not (svals and all(_is_order_leaf(l, sites) for l in svals)):
                ctx.violation(rid, f, _stmt(sval), f"the number of stages `{ast.unparse(sval)}` does not hold the slot's order (it holds {sfacts['values']})",
                              sfacts, label=label)
            elif covered:
                ctx.ok(rid, f, _stmt(sval), f"the number of stages is read from one member of the group (`{ast.unparse(sval)}`), and the key contains this very "
                                            f"quantity (`{ast.unparse(covered[0])}`): all members agree on it", sfacts, label=label)
            else:
                ctx.violation(rid, f, _stmt(sval), f"the number of stages of a shared chain is read from one representative member of the group "
                                                   f"(`{ast.unparse(sval)}`), but the key `{ast.unparse(key_comps[0][1].value) if isinstance(key_comps[0][1], ast.Assign) else norm(key_stmts[0], 60)}` "
                                                   f"that decides which slots share a chain does not contain the slot's order: slots that agree on the other "
                                                   f"key components but differ in their order get the kernel order of the group's first slot", sfacts, label=label)
        # ---- (c) the chain's rate is the rate of a slot of this group
        val = cd.fields["value"]
        hops = 0
        while isinstance(val, ast.Name) and hops < 4:
            v2 = U.single_value(ctx, f, val)
            if v2 is None:
                break
            val, hops = v2, hops + 1
        label = "chain rate taken from own group"
        if isinstance(val, ast.Subscript) and isinstance(val.value, ast.Name):
            base, idx = val.value, val.slice
            if base.id in derived:
                # stored in the group's own record (e.g. at the moment the group is created): it must come from the iteration that
                # files the slot under the key
                loops_ = [b_ for b_ in rate_tr.binders if isinstance(b_, ast.For) and b_ is not oloop]
                key_loops = {id(U.loop_of(k_)) for k_ in key_stmts}
                if loops_ and id(loops_[0]) in key_loops:
                    ctx.ok(rid, f, _stmt(val), "the chain's rate is the rate stored with the group by the slot that created it", {"value": ast.unparse(val)},
                           label=label)
                elif rate_tr.indexed:
                    raise AnalysisError(f"{rid}: {f.qual}: cannot tell which slot's rate `{ast.unparse(val)}` holds (read through "
                                        f"`{ast.unparse(rate_tr.indexed[0])}`: unrecognised form)")
                else:
                    ctx.violation(rid, f, _stmt(val), f"the rate stored with the group (`{ast.unparse(val)}`) is not the rate of the slot that is filed under "
                                                      f"the group's key: it comes from {sorted({ast.unparse(l.node) for l in rate_leaves})} without passing "
                                                      f"through the variable of the loop that builds the key", {"value": ast.unparse(val)}, label=label)
            elif any(isinstance(nm, ast.Name) and nm.id in derived for nm in ast.walk(idx)):
                ctx.ok(rid, f, _stmt(val), "the chain's rate is the rate of a slot that belongs to this group", {"value": ast.unparse(val)}, label=label)
            else:
                ctx.violation(rid, f, _stmt(val), f"the chain's rate `{ast.unparse(val)}` is not indexed by a slot of the chain's own group", label=label)
        else:
            raise AnalysisError(f"{rid}: {f.qual}: the registered rate `{ast.unparse(val)}` is neither read from a per-slot list nor from the group's "
                                f"own record (unrecognised form)")
    if n == 0:
        raise AnalysisError(f"{rid}: no sibling groups delay slots by a key (the scalar form's grouping vanished)")


# ---------------------------------------------------------------------------------------------
# R4
# ---------------------------------------------------------------------------------------------

def r4_delays_stay_continuous(ctx, rid):
    coll = U.method(ctx, "_collect_delays_from_edges")
    proc = U.method(ctx, "_process_delays")
    pre = U.method(ctx, "_preprocess_delay")
    # locals holding the edge's delay / spread: in the collector or in a helper extracted from its per-edge loop
    f, holders = U.edge_attr_scope(ctx, coll, ("delay", "spread"), exclude=[proc, pre])
    dn, vn = holders["delay"], holders["spread"]
    calls = [c for c in walk_shallow(f.node) if isinstance(c, ast.Call) and call_name(c) == proc.node.name]
    dcalls = [c for c in calls if c.args and isinstance(c.args[0], ast.Name) and c.args[0].id == dn]
    ctx.require(dcalls, f"{rid}: {f.qual}: the delay `{dn}` is never handed to _process_delays")
    for i, c in enumerate(sorted(dcalls, key=lambda c: (c.lineno, c.col_offset))):
        st = _stmt(c)
        kw = [k.value for k in c.keywords if k.arg == "discretize"] or (c.args[1:2])
        facts = {"call": ast.unparse(c), "in": f.qualname}
        label = "discretize flag of the edge delay" + ("" if i == 0 else f" #{i + 1}")
        if not kw:
            ctx.violation(rid, coll, st, "the delay is handed to _process_delays without a discretize flag (default True): a delay with a spread would be "
                                         "rounded to whole steps although order and rate are defined for the continuous delay", facts, label=label)
            continue
        flag = kw[0]
        if isinstance(flag, ast.Constant):
            ctx.violation(rid, coll, st, f"the discretize flag for the delay is the fixed expression `{ast.unparse(flag)}`, not the flag computed from this edge's "
                                         f"spread: a delay with a spread would be converted to steps (n/d would mix steps and time)", facts, label=label)
            continue
        if not isinstance(flag, ast.Name):
            # the spread test written in place: discretize=(v is None or sum(v) == 0)
            pol = _spread_polarity(flag, vn)
            if pol is None:
                raise AnalysisError(f"{rid}: {f.qual}: discretize flag `{ast.unparse(flag)}` of the delay has an unrecognised form")
            if pol == "absent":
                ctx.ok(rid, coll, st, "the delay is discretised exactly when this edge's spread is absent/zero (the spread test is the flag)", facts, label=label)
            else:
                ctx.violation(rid, coll, st, f"the discretize flag `{ast.unparse(flag)}` is true when the spread is present: a delay with a spread would be rounded "
                                             f"to steps, an undistributed delay would stay continuous", facts, label=label)
            continue
        defs = ctx.rd(f).defs_reaching(flag)
        loop = U.loop_of(st)
        problems = []
        arms = []
        computed = 0
        for d in defs:
            val = assigned_value(d, flag.id) if isinstance(d, ast.stmt) else None
            if val is not None and not isinstance(val, ast.Constant):
                # the flag holds the spread test itself: discretize = v is None or sum(v) == 0
                if loop is not None and not contains(loop, d):
                    problems.append(f"`{norm(d)}` reaches from outside the per-edge loop (another edge's flag)")
                    continue
                pol = _spread_polarity(val, vn)
                if pol is None:
                    if U.mentions(val, vn):
                        raise AnalysisError(f"{rid}: {f.qual}: spread test `{ast.unparse(val)}` has an unrecognised form")
                    problems.append(f"`{norm(d)}` is not a test of the spread `{vn}`")
                    continue
                # the spread tested must be the one read from this edge, not a value the local receives later
                if not _same_spread(ctx, f, val, vn):
                    raise AnalysisError(f"{rid}: {f.qual}: `{norm(d)}` tests `{vn}` at a point where it no longer holds the edge's attribute only")
                computed += 1
                arms.append((norm(d), "true iff no spread" if pol == "absent" else "true iff spread present"))
                if pol != "absent":
                    problems.append(f"`{norm(d)}` is true when the spread is present: a delay with a spread would be rounded to steps, an undistributed "
                                    f"delay would stay continuous")
                continue
            if not isinstance(d, ast.Assign) or not isinstance(d.value, ast.Constant) or not isinstance(d.value.value, bool):
                problems.append(f"`{flag.id}` may come from `{norm(d) if isinstance(d, ast.stmt) else 'a parameter'}`, not from a True/False set by the spread test")
                continue
            if loop is not None and not contains(loop, d):
                problems.append(f"`{norm(d)}` reaches from outside the per-edge loop (another edge's flag)")
                continue
            chain = U.branch_chain(d)
            # innermost If whose test is about the spread local (directly or through a flag local that holds the test)
            guard = [(gi, arm, _no_spread_arm(ctx, f, gi.test, vn)) for gi, arm in chain]
            guard = [g_ for g_ in guard if g_[2] is not None or U.mentions(g_[0].test, vn)]
            if not guard:
                problems.append(f"`{norm(d)}` is not controlled by a test of the spread `{vn}`")
                continue
            gi, arm, none_arm = guard[0]
            if none_arm is None:
                raise AnalysisError(f"{rid}: {f.qual}: spread test `{ast.unparse(gi.test)}` has an unrecognised form")
            no_spread_here = (arm == none_arm)
            arms.append((norm(d), "no spread" if no_spread_here else "spread present"))
            if d.value.value != no_spread_here:
                problems.append(f"`{norm(d)}` sits on the arm where the spread is {'absent' if no_spread_here else 'present'}: "
                                f"{'undistributed delays would stay continuous' if no_spread_here else 'a delay with a spread would be rounded to steps'}")
        facts["flag_definitions"] = arms
        if len(defs) < 2 and not computed and not problems:
            problems.append(f"`{flag.id}` has a single definition: it cannot distinguish edges with and without spread")
        if problems:
            ctx.violation(rid, coll, st, "; ".join(problems), facts, label=label)
        else:
            ctx.ok(rid, coll, st, f"the delay is discretised exactly when this edge's spread is absent/zero (flag `{flag.id}` "
                                  f"{'holds the spread test' if computed else 'set on both arms of the spread test'} in the same iteration)", facts, label=label)
    # the spread is a time as well: it is handed to _process_delays with a flag that is False
    scalls = [c for c in calls if c.args and isinstance(c.args[0], ast.Name) and c.args[0].id == vn]
    for i, c in enumerate(sorted(scalls, key=lambda c: (c.lineno, c.col_offset))):
        st = _stmt(c)
        kw = [k.value for k in c.keywords if k.arg == "discretize"] or (c.args[1:2])
        label = "discretize flag of the edge spread" + ("" if i == 0 else f" #{i + 1}")
        facts = {"call": ast.unparse(c), "in": f.qualname}
        vals = None
        if kw and isinstance(kw[0], ast.Constant) and isinstance(kw[0].value, bool):
            vals = {kw[0].value}
        elif kw and isinstance(kw[0], ast.Name):
            vals = set()
            for d in ctx.rd(f).defs_reaching(kw[0]):
                val = assigned_value(d, kw[0].id) if isinstance(d, ast.stmt) else None
                if isinstance(val, ast.Constant) and isinstance(val.value, bool):
                    vals.add(val.value)
                elif val is not None and _spread_polarity(val, vn) == "absent" and _same_spread(ctx, f, val, vn) and any(
                        _no_spread_arm(ctx, f, gi.test, vn) is not None and _no_spread_arm(ctx, f, gi.test, vn) != arm
                        for gi, arm in U.branch_chain(st)):
                    vals.add(False)         # flag == "no spread", and the call sits on the arm where a spread is present
                else:
                    vals = None
                    break
        elif not kw:
            vals = {True}
        if vals is None or not vals:
            raise AnalysisError(f"{rid}: {f.qual}: cannot decide the discretize flag of `{ast.unparse(c)}` (unrecognised form)")
        if vals == {False}:
            ctx.ok(rid, coll, st, "the spread is kept in time units (discretize is False where it is converted)", facts, label=label)
        else:
            ctx.violation(rid, coll, st, f"the spread is handed to _process_delays with discretize "
                                         f"{'defaulting to True' if not kw else 'possibly True'}: it would be rounded to whole steps while the delay of an edge "
                                         f"with spread stays a time, so (delay/spread)**2 would mix units", facts, label=label)
    # _process_delays forwards the flag to every conversion
    pcalls = [c for c in walk_shallow(proc.node) if isinstance(c, ast.Call) and call_name(c) == pre.node.name]
    ctx.require(pcalls, f"{rid}: {proc.qual}: no call of _preprocess_delay")
    fl = [p for p in proc.params if p != proc.self_name]
    ctx.require(len(fl) == 2, f"{rid}: _process_delays signature changed")
    flagp = fl[1]
    pcalls.sort(key=lambda c: (c.lineno, c.col_offset))
    for i, c in enumerate(pcalls):
        st = _stmt(c)
        kw = [k.value for k in c.keywords if k.arg == "discretize"] or c.args[1:2]
        label = f"forwarding #{i + 1}: {norm(st, 60)}"
        if kw and isinstance(kw[0], ast.Name) and kw[0].id == flagp and U.is_param(ctx, proc, kw[0]):
            ctx.ok(rid, proc, st, f"`{flagp}` is handed on to _preprocess_delay unchanged", label=label)
        else:
            ctx.violation(rid, proc, st, f"_process_delays does not hand its `{flagp}` flag to this _preprocess_delay call "
                                         f"({'default True' if not kw else ast.unparse(kw[0])}): a delay that must stay continuous is rounded to steps",
                          label=label)
    # _preprocess_delay: non-discretising arm returns the delay unchanged
    rets = [s for s in walk_shallow(pre.node) if isinstance(s, ast.Return)]
    pp = [p for p in pre.params if p != pre.self_name]
    ctx.require(len(pp) == 2 and rets, f"{rid}: _preprocess_delay signature changed")
    dpar, fpar = pp
    found = False
    for r in rets:
        v = r.value
        arms = []
        if isinstance(v, ast.IfExp):
            arms = [(v.test, v.body, True), (v.test, v.orelse, False)]
        else:
            for i, arm in U.branch_chain(r):
                arms.append((i.test, v, arm))
        for test, val, arm in arms:
            cont = U.flag_arm_when_false(test, fpar)        # the arm certainly taken when the flag is False
            if cont is None:
                if U.mentions(test, fpar):
                    raise AnalysisError(f"{rid}: {pre.qual}: test `{ast.unparse(test)}` of the discretize flag has an unrecognised form")
                continue
            if arm == cont:
                found = True
                if isinstance(val, ast.Name) and val.id == dpar and U.is_param(ctx, pre, val):
                    ctx.ok(rid, pre, r, "with discretize=False the delay is returned unchanged", label="continuous arm")
                else:
                    ctx.violation(rid, pre, r, f"with discretize=False `_preprocess_delay` returns `{ast.unparse(val)}`, not the delay itself", label="continuous arm")
    if not found:
        # guard form: `if discretize and ...: return <steps>` followed by a fall-through `return delay`
        guarded = [r for r in rets if any(U.flag_arm_when_false(i.test, fpar) is not None and U.flag_arm_when_false(i.test, fpar) != arm
                                          for i, arm in U.branch_chain(r))]
        plain = [r for r in rets if not U.branch_chain(r)]
        if guarded and len(plain) == 1:
            r = plain[0]
            if isinstance(r.value, ast.Name) and r.value.id == dpar and U.is_param(ctx, pre, r.value):
                ctx.ok(rid, pre, r, "the fall-through return (reached whenever discretize is False) hands the delay back unchanged", label="continuous arm")
            else:
                ctx.violation(rid, pre, r, f"with discretize=False `_preprocess_delay` falls through to `{norm(r)}`, which does not return the delay itself",
                              label="continuous arm")
        else:
            raise AnalysisError(f"{rid}: {pre.qual}: no arm controlled by `{fpar}` found (unrecognised form)")


def _spread_polarity(test, vn) -> Optional[str]:
    """'absent': `test` is true exactly when the edge has no spread (None / sums to zero / falsy); 'present': the negation;
    None: unrecognised.  `or` of absent-atoms and `and` of present-atoms (the De-Morgan'd twin) are understood, `not` flips."""
    if isinstance(test, ast.UnaryOp) and isinstance(test.op, ast.Not):
        if isinstance(test.operand, ast.Name) and test.operand.id == vn:
            return "absent"
        p = _spread_polarity(test.operand, vn)
        return None if p is None else ("present" if p == "absent" else "absent")
    if isinstance(test, ast.BoolOp):
        ps = [_spread_polarity(v, vn) for v in test.values]
        if isinstance(test.op, ast.Or) and all(p == "absent" for p in ps):
            return "absent"
        if isinstance(test.op, ast.And) and all(p == "present" for p in ps):
            return "present"
        return None
    if isinstance(test, ast.Name) and test.id == vn:
        return "present"
    if isinstance(test, ast.Compare) and len(test.ops) == 1:
        l, op, r = test.left, test.ops[0], test.comparators[0]
        swapped = False
        if isinstance(l, ast.Constant) and not isinstance(r, ast.Constant):
            l, r, swapped = r, l, True
        if not isinstance(r, ast.Constant):
            return None
        if r.value is None and isinstance(l, ast.Name) and l.id == vn:
            if isinstance(op, (ast.Is, ast.Eq)):
                return "absent"
            if isinstance(op, (ast.IsNot, ast.NotEq)):
                return "present"
            return None
        if r.value == 0 and r.value is not False and U.mentions(l, vn):
            if isinstance(op, ast.Eq):
                return "absent"
            if isinstance(op, ast.NotEq):
                return "present"
            if isinstance(op, ast.Gt) and not swapped:      # sum(v) > 0
                return "present"
            if isinstance(op, ast.Lt) and swapped:          # 0 < sum(v)
                return "present"
            if isinstance(op, ast.LtE) and not swapped:     # sum(v) <= 0  (spreads are non-negative)
                return "absent"
            if isinstance(op, ast.GtE) and swapped:
                return "absent"
    return None


def _no_spread_arm(ctx, f, test, vn, _depth=0) -> Optional[bool]:
    """For an `if` whose test is about the spread: the arm (True = body) that is taken when there is NO spread.  A test that is a
    flag local with a single definition (`no_spread = v is None or ...; if no_spread:`) is looked through."""
    p = _spread_polarity(test, vn)
    if p is not None:
        return p == "absent"
    if isinstance(test, ast.UnaryOp) and isinstance(test.op, ast.Not):
        a = _no_spread_arm(ctx, f, test.operand, vn, _depth)
        return None if a is None else not a
    if isinstance(test, ast.Name) and _depth < 3:
        v = U.single_value(ctx, f, test)
        if v is not None and not isinstance(v, ast.Constant):
            return _no_spread_arm(ctx, f, v, vn, _depth + 1)
    return None


def _same_spread(ctx, f, test, vn) -> bool:
    """Every read of the spread local inside `test` sees only definitions that read the edge attribute (x = edge['spread'] / .pop / .get)."""
    rd = ctx.rd(f)
    for x in ast.walk(test):
        if isinstance(x, ast.Name) and x.id == vn and isinstance(x.ctx, ast.Load):
            for d in rd.defs_reaching(x):
                v = assigned_value(d, vn) if isinstance(d, ast.stmt) else None
                if v is None:
                    return False
                k = const_str(v.slice) if isinstance(v, ast.Subscript) else (
                    const_str(v.args[0]) if isinstance(v, ast.Call) and call_name(v) in ("get", "pop") and v.args else None)
                if k != "spread":
                    return False
    return True


def r5_identity_shortcut(ctx, rid):
    """A kernel group may use the whole source vector as chain input (instead of index(var, src_indices)) only when
    slot i of the group reads element i of the source, i.e. when its source-index list IS [0, 1, .., N-1] in slot order.
    A test on the sorted list, on its length or on its set also accepts permutations / repeated sources and feeds the
    edges with each other's source.  Both sides of the test are looked at through single-definition locals
    (`all_sources = list(range(n))` hoisted out of the loop)."""
    f = U.method(ctx, "_add_edge_buffer")
    src_param = _source_param(ctx, f)
    sites = []
    for st in walk_shallow(f.node):
        if isinstance(st, ast.If):
            for b in st.body:
                if isinstance(b, ast.Assign) and isinstance(b.value, ast.Name) and b.value.id == src_param and U.is_param(ctx, f, b.value) \
                        and any(isinstance(t, ast.Name) for t in b.targets):
                    # the alternative branches build index(var, ...) inputs
                    if any("index(" in (U.render(ctx, f, x) or "") for o in st.orelse for x in ast.walk(o)
                           if isinstance(x, (ast.JoinedStr, ast.Constant))):
                        sites.append((st, b))
    if len(sites) != 1:
        raise AnalysisError(f"{rid}: whole-vector shortcut of the chain input not recognised ({len(sites)} candidates)")
    st, asg = sites[0]
    t = st.test
    facts = {"test": norm(st)}

    def resolved(x, depth=0):
        """x, or the expression a single-definition local stands for"""
        if isinstance(x, ast.Name) and depth < 4:
            v = U.single_value(ctx, f, x)
            if v is not None and not isinstance(v, ast.Constant) and U._names_stable(ctx, f, v, x):
                return resolved(v, depth + 1)
        return x

    def is_range_list(x):
        x = resolved(x)
        return isinstance(x, ast.Call) and call_name(x) in ("list", "tuple") and len(x.args) == 1 and isinstance(x.args[0], ast.Call) \
            and call_name(x.args[0]) == "range" and len(x.args[0].args) == 1

    LOSSY = {"sorted", "set", "frozenset", "len", "sum", "max", "min", "unique", "Counter", "all", "any"}
    good, why = False, None
    if isinstance(t, ast.Compare) and len(t.ops) == 1 and isinstance(t.ops[0], ast.Eq):
        sides = [t.left, t.comparators[0]]
        rng = [x for x in sides if is_range_list(x)]
        other = [x for x in sides if not is_range_list(x)]
        if len(rng) == 1 and len(other) == 1:
            o = other[0]
            if isinstance(o, ast.Call) and call_name(o) in ("list", "tuple") and len(o.args) == 1:
                o = o.args[0]
            ro = resolved(o)
            if isinstance(ro, ast.Call) and call_name(ro) in LOSSY:
                why = f"the index list is wrapped in {call_name(ro)}(...): permutations or repeated sources pass the test"
            elif isinstance(o, ast.Name):
                # the compared name must be the list used by the index(...) alternative (the group's source indices)
                alt_names = {n.id for a in st.orelse for n in ast.walk(a) if isinstance(n, ast.Name)}
                if o.id in alt_names:
                    good = True
                else:
                    why = f"`{o.id}` is not the index list of the alternative index({src_param}, ...) input"
        elif not rng:
            rs = [resolved(x) for x in sides]
            if any(isinstance(r, ast.Call) and call_name(r) in LOSSY for r in rs):
                lossy = [call_name(r) for r in rs if isinstance(r, ast.Call) and call_name(r) in LOSSY]
                why = f"the test compares {lossy[0]}(...) of the group, not the index list itself with range(N): permutations or repeated sources pass"
    if not good and why is None:
        raise AnalysisError(f"{rid}: {f.qual}: test `{norm(st)}` of the whole-vector shortcut has an unrecognised form")
    if good:
        ctx.ok(rid, f, st, "whole-vector shortcut only when the group's source indices are exactly 0..N-1 in slot order", facts,
               label="whole-vector chain input requires identity indices")
    else:
        ctx.violation(rid, f, st, f"the chain input falls back to the whole source vector under `{norm(st)}`: {why}; slot i would then be "
                                  f"fed by source element i instead of its own source", facts,
                      label="whole-vector chain input requires identity indices")



def _construct_params(ctx, g) -> set:
    """Parameters of a buffer/cascade building function that shape what is built (names, equations, variable definitions,
    look-ups of the source variable): all parameters except those whose every use - through plain aliases and tuple unpacking -
    sits inside the index of a `self.edges[...]` subscript (they only say which edge is re-pointed afterwards)."""
    out = set()
    for p_ in g.params:
        if p_ == g.self_name:
            continue
        names = {p_}
        changed = True
        while changed:
            changed = False
            for st in walk_shallow(g.node):
                if isinstance(st, ast.Assign) and isinstance(st.value, ast.Name) and st.value.id in names:
                    for t in st.targets:
                        for x in ast.walk(t):
                            if isinstance(x, ast.Name) and x.id not in names:
                                names.add(x.id)
                                changed = True
                if isinstance(st, ast.For):
                    it_, en_ = U.unwrap_enumerate(st.iter)
                    if isinstance(it_, ast.Name) and it_.id in names:
                        tgt = st.target.elts[1] if en_ and isinstance(st.target, ast.Tuple) and len(st.target.elts) == 2 else st.target
                        for x in ast.walk(tgt):
                            if isinstance(x, ast.Name) and x.id not in names:
                                names.add(x.id)
                                changed = True
        only_edge_index = True
        for x in walk_shallow(g.node):
            if isinstance(x, ast.Name) and isinstance(x.ctx, ast.Load) and x.id in names:
                if isinstance(parent(x), ast.Assign) and parent(x).value is x:
                    continue            # the alias definition itself
                px = parent(x)
                if isinstance(px, ast.Call) and call_name(px) in ("len", "enumerate") and x in px.args:
                    continue            # how many edges / iteration over them
                if isinstance(px, ast.For) and px.iter is x:
                    continue
                a_, inside = x, False
                while a_ is not None and not isinstance(a_, ast.stmt):
                    pa = parent(a_)
                    if isinstance(pa, ast.Subscript) and pa.slice is a_:
                        if isinstance(pa.value, ast.Attribute) and pa.value.attr == "edges":
                            inside = True
                    a_ = pa
                if not inside:
                    only_edge_index = False
        if not only_edge_index:
            out.add(p_)
    return out


def r7_kernel_registry_key(ctx, rid):
    """A registry that lets a later edge re-use a delay buffer / ODE cascade built for an earlier one (`if key not in M:
    M[key] = self._add_matrix_delay(...)`, then `edge['source_var'] = M[key]`) may hand out an existing cascade only to an edge
    that would have built the very same one: the key must determine every argument of the building call that shapes the
    construct (source node / operator / variable, delay, spread) and that can differ between two entries filed during the
    registry's lifetime.  Decided on every call of a cascade-building function whose result is stored under a key in a local
    dict; an argument is 'determined' if it is computed only from names that occur in the key (or from the registry itself)."""
    builders = {}
    for ch in chain_siblings(ctx):
        builders[ch.f.qual] = ch.f
    n_reg = 0

    def varies_in(fn, x: ast.Name, life) -> bool:
        """x (a name read in fn) is re-bound in a loop that runs inside the registry's lifetime"""
        for d in ctx.rd(fn).defs_reaching(x):
            if not isinstance(d, ast.stmt) or d is life:
                continue
            lp = d if isinstance(d, (ast.For, ast.While)) else U.loop_of(d)
            while lp is not None and lp is not life:
                if life is None or contains(life, lp):
                    return True
                lp = U.loop_of(lp)
        return False

    for b in builders.values():
        relevant = _construct_params(ctx, b)
        for g, call in ctx.cg.call_sites_of(b):
            # registries of g: `M[key] = ...` on a dict that g also looks entries up in
            regs = []
            for st in walk_shallow(g.node):
                if isinstance(st, ast.Assign) and len(st.targets) == 1 and isinstance(st.targets[0], ast.Subscript) \
                        and isinstance(st.targets[0].value, ast.Name):
                    M = st.targets[0].value
                    if not (U.is_param(ctx, g, M) or ctx.rd(g).is_local(M.id)):
                        continue
                    looked_up = any(
                        (isinstance(n, ast.Compare) and len(n.ops) == 1 and isinstance(n.ops[0], (ast.In, ast.NotIn))
                         and isinstance(n.comparators[0], ast.Name) and n.comparators[0].id == M.id)
                        or (isinstance(n, ast.Subscript) and isinstance(n.ctx, ast.Load) and isinstance(n.value, ast.Name) and n.value.id == M.id)
                        or (isinstance(n, ast.Call) and call_name(n) in ("get", "setdefault") and isinstance(n.func, ast.Attribute)
                            and isinstance(n.func.value, ast.Name) and n.func.value.id == M.id)
                        for n in walk_shallow(g.node))
                    # the entry must be what the builder produced: the call itself, or the re-pointed edge attribute read back
                    produced = st.value is call or any(const_str(x.slice) == "source_var" for x in ast.walk(st.value) if isinstance(x, ast.Subscript))
                    if looked_up and produced and st.lineno >= call.lineno:
                        regs.append((st, M))
            for st, M in regs:
                n_reg += 1
                key = st.targets[0].slice
                if isinstance(key, ast.Name):
                    kv = U.single_value(ctx, g, key)
                    if kv is None:
                        raise AnalysisError(f"{rid}: {g.qual}: registry key `{key.id}` has no single definition")
                    key = kv
                # where the registry lives: a local of g, or a dict handed in by g's only caller
                if U.is_param(ctx, g, M):
                    sites2 = ctx.cg.call_sites_of(g)
                    if len(sites2) != 1:
                        raise AnalysisError(f"{rid}: {g.qual}: the registry `{M.id}` is handed in by {len(sites2)} callers (unrecognised form)")
                    h, c2 = sites2[0]
                    outer = U.bind_args(g, c2)
                    marg = outer.get(M.id)
                    if not isinstance(marg, ast.Name):
                        raise AnalysisError(f"{rid}: {g.qual}: the registry argument `{ast.unparse(marg) if marg is not None else '?'}` is not a local of the caller")
                    home, mname = h, marg
                else:
                    h, outer, home, mname = None, {}, g, M
                creations = [d for d in ctx.rd(home).defs_reaching(mname) if isinstance(d, ast.stmt)]
                if len(creations) != 1:
                    raise AnalysisError(f"{rid}: {home.qual}: the registry `{mname.id}` is not created at exactly one place (unrecognised form)")
                life = U.loop_of(creations[0])          # None: the whole call of `home`
                determined = {x.id for x in ast.walk(key) if isinstance(x, ast.Name)} | {M.id}

                def is_determined(e, depth=0) -> bool:
                    for x in ast.walk(e):
                        if not (isinstance(x, ast.Name) and isinstance(x.ctx, ast.Load)):
                            continue
                        if x.id in determined or U._comp_binding(x) is not None:
                            continue
                        if U.is_param(ctx, g, x):
                            if h is None:
                                continue            # a parameter of the function that owns the registry does not change during its lifetime
                            a2 = outer.get(x.id)
                            if a2 is None:
                                continue            # default value
                            if any(isinstance(y, ast.Name) and isinstance(y.ctx, ast.Load) and ctx.rd(h).is_local(y.id) and varies_in(h, y, life)
                                   for y in ast.walk(a2)):
                                return False
                            continue
                        if not ctx.rd(g).is_local(x.id):
                            continue
                        if h is None and not varies_in(g, x, life):
                            continue
                        if depth >= 4:
                            return False
                        for d in ctx.rd(g).defs_reaching(x):
                            if isinstance(d, (ast.For, ast.While)):
                                return False
                            if isinstance(d, ast.Assign):
                                if not is_determined(d.value, depth + 1):
                                    return False
                            elif isinstance(d, ast.stmt):
                                return False
                    return True

                binding = U.bind_args(b, call)
                facts = {"registry": M.id, "key": ast.unparse(key), "call": norm(call, 120), "construct_parameters": sorted(relevant),
                         "registry_created_in": home.qualname}
                missing = [(p_, a_) for p_, a_ in binding.items() if p_ in relevant and not is_determined(a_)]
                label = f"re-use registry `{M.id}` of {b.qualname}"
                if missing:
                    ctx.violation(rid, g, st, f"`{M.id}` hands the construct built by `{norm(call, 60)}` to every later edge with the same key "
                                              f"`{ast.unparse(key)[:90]}`, but the key does not determine " +
                                  ", ".join(f"`{p_}={ast.unparse(a_)}`" for p_, a_ in missing) +
                                              f", which differs between entries filed in one `{mname.id}` (it is re-bound in a loop inside the registry's "
                                              f"lifetime): an edge whose source differs in it is pointed at the delayed copy of another source", facts, label=label)
                else:
                    ctx.ok(rid, g, st, f"every argument that shapes the construct and varies during the registry's lifetime is determined by the key "
                                       f"`{ast.unparse(key)[:90]}`", facts, label=label)
    if n_reg == 0:
        f0 = chain_siblings(ctx)[0].f
        ctx.ok(rid, f0, f0.node, "no registry re-uses a delay cascade / buffer for several edges (each call builds its own)",
               label="re-use registry of delay constructs: none", nontrivial=False)


def r_perm_identity(ctx, rid):
    """Index-dropping shortcuts must be guarded by an exact identity test of the index list (shared lint, see _identity_lint)."""
    from ._identity_lint import permutation_test_as_identity
    permutation_test_as_identity(ctx, rid)


RULES = [
    ("C11-R1", r1_order_and_rate, 4),             # 2 siblings x (order site, rate expression); 5 today (two spellings of the scalar rate)
    ("C11-R2", r2_stage_equations, 8),
    ("C11-R3", r3_grouping_key, 3),
    ("C11-R4", r4_delays_stay_continuous, 4),     # delay flag, spread flag, >= 1 forwarding, continuous arm (6 today)
    ("C11-R5", r5_identity_shortcut, 1),
    ("C11-R6", r_perm_identity, 1),
    ("C11-R7", r7_kernel_registry_key, 1),
]
