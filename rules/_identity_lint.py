"""Shared lint: a *permutation* test used as an *identity* test (rule kind K3).

With vectorisation, per-slot index lists (source_idx, src_indices, idx ...) say which element of a merged vector each
slot / edge reads.  A shortcut that drops the index list (uses the whole vector, a whole buffer column, ...) is right only
when the list is exactly [0, 1, .., n-1] in slot order.  `sorted(idx) == list(range(n))`, `set(idx) == set(range(n))` or
`len(idx) == n` only prove that idx is a permutation (or merely long enough): slot i would read element i instead of
idx[i].  The rule reports every conditional whose test is such a permutation/length test of an index list X, whose taken
branch does not use X at all while the alternative branch does.

Zero instances are expected on a correct tree, so a synthetic positive control (and a negative one) is analysed on every
run; the number of conditionals scanned is the instance count.
"""
from __future__ import annotations

import ast
from typing import List, Optional, Tuple

from engine import AnalysisError
from engine.srcmodel import walk_shallow, norm, set_parents
from engine.util import call_name

FILES = ["pyrates/ir/circuit.py", "pyrates/ir/node.py", "pyrates/ir/operator_graph.py", "pyrates/frontend/template/circuit.py",
         "pyrates/frontend/template/population.py"]

_CONTROL = '''
def positive(var, src_indices, n):
    if sorted(src_indices) == list(range(n)):
        chain_in = var
    else:
        chain_in = f"index({var}, {src_indices})"
    return chain_in


def negative(var, src_indices, n):
    if src_indices == list(range(n)):
        chain_in = var
    else:
        chain_in = f"index({var}, {src_indices})"
    return chain_in


def positive_len(var, idx, n):
    return var if len(idx) == n else f"index({var}, {idx})"
'''


def _range_like(e: ast.AST) -> bool:
    """list(range(n)) / set(range(n)) / range(n) / arange(n) / list(np.arange(n))"""
    if isinstance(e, ast.Call):
        cn = call_name(e)
        if cn in ("range", "arange"):
            return True
        if cn in ("list", "set", "tuple", "sorted", "frozenset") and e.args:
            return _range_like(e.args[0])
    return False


def _perm_test(test: ast.AST) -> Optional[Tuple[str, str]]:
    """(index list name, kind) if `test` (or one conjunct of it) is a permutation/length test of a named index list."""
    conj = test.values if isinstance(test, ast.BoolOp) and isinstance(test.op, ast.And) else [test]
    found = None
    exact = set()
    for c in conj:
        if not (isinstance(c, ast.Compare) and len(c.ops) == 1 and isinstance(c.ops[0], ast.Eq)):
            continue
        a, b = c.left, c.comparators[0]
        for x, y in ((a, b), (b, a)):
            # exact identity test somewhere in the conjunction: X == list(range(n))
            if isinstance(x, ast.Name) and _range_like(y) and not (isinstance(y, ast.Call) and call_name(y) in ("set", "frozenset", "sorted")):
                exact.add(x.id)
            if isinstance(x, ast.Call) and call_name(x) in ("list", "tuple") and x.args and isinstance(x.args[0], ast.Name) and _range_like(y) \
                    and not (isinstance(y, ast.Call) and call_name(y) in ("set", "frozenset")):
                exact.add(x.args[0].id)
            if isinstance(x, ast.Call) and call_name(x) in ("sorted", "set", "frozenset") and x.args and isinstance(x.args[0], ast.Name) and _range_like(y):
                found = (x.args[0].id, f"{call_name(x)}(...) == range")
            if isinstance(x, ast.Call) and call_name(x) == "len" and x.args and isinstance(x.args[0], ast.Name) \
                    and not _range_like(y) and not isinstance(y, ast.Constant):
                if found is None:
                    found = (x.args[0].id, "len(...) == n")
    if found and found[0] not in exact:
        return found
    return None


def _uses(nodes, name: str) -> bool:
    """`name` is used as a variable, or named inside an emitted equation/name template (f-string text such as
    "index_2d(buf, source_idx{buffer_id}, ...)" refers to the generated constant that holds the list)."""
    import re
    pat = re.compile(r"(?<![A-Za-z0-9_])" + re.escape(name) + r"(?![A-Za-z0-9])")
    for n in nodes:
        for x in ast.walk(n):
            if isinstance(x, ast.Name) and x.id == name:
                return True
            if isinstance(x, ast.Constant) and isinstance(x.value, str) and pat.search(x.value):
                return True
    return False


def _derived_names(fnode, name: str) -> set:
    """Names assigned from expressions mentioning `name` (one level), so that `slot_name`-style constants count as uses."""
    out = {name}
    for n in ast.walk(fnode):
        if isinstance(n, ast.Assign) and any(isinstance(x, ast.Name) and x.id == name for x in ast.walk(n.value)):
            for t in n.targets:
                for x in ast.walk(t):
                    if isinstance(x, ast.Name):
                        out.add(x.id)
    return out


def scan_function(fnode) -> Tuple[int, List[Tuple[ast.AST, str, str]]]:
    n_cond = 0
    hits = []
    for n in ast.walk(fnode):
        if isinstance(n, ast.If):
            test, taken, other = n.test, n.body, n.orelse
        elif isinstance(n, ast.IfExp):
            test, taken, other = n.test, [n.body], [n.orelse]
        else:
            continue
        n_cond += 1
        pt = _perm_test(test)
        if pt is None or not other:
            continue
        name, kind = pt
        # an `if len(idx) == n:` that goes on to compare element-wise inside its body is an identity proof, not a shortcut
        if isinstance(n, ast.If) and _uses(taken, name):
            continue
        names = _derived_names(fnode, name)
        if any(_uses(other, nm) for nm in names):
            hits.append((n, name, kind))
    return n_cond, hits


def permutation_test_as_identity(ctx, rid):
    # controls
    tree = ast.parse(_CONTROL)
    set_parents(tree)
    res = {fn.name: scan_function(fn)[1] for fn in tree.body if isinstance(fn, ast.FunctionDef)}
    if len(res["positive"]) != 1 or len(res["positive_len"]) != 1 or res["negative"]:
        raise AnalysisError(f"{rid}: the permutation-test lint failed its own controls: {dict((k, len(v)) for k, v in res.items())}")
    total = 0
    for rel in FILES:
        m = ctx.repo.by_rel.get(rel)
        if m is None:
            continue
        for f in ctx.repo.all_functions([rel]):
            if f.parent is not None:
                continue
            n_cond, hits = scan_function(f.node)
            total += n_cond
            for node, name, kind in hits:
                ctx.violation(rid, f, node if isinstance(node, ast.stmt) else node, f"`{norm(node)}`: `{kind}` only proves that the index list `{name}` is a permutation "
                                            f"(or long enough), yet the taken branch drops `{name}` while the alternative applies it: when the "
                                            f"entries are not in slot order, slot i reads element i instead of {name}[i] (vectorised result differs "
                                            f"from the non-vectorised one)", {"index_list": name, "test_kind": kind},
                              label=f"permutation test of `{name}` used as identity test")
    if total < 150:
        raise AnalysisError(f"{rid}: only {total} conditionals scanned in the lowering pipeline (expected > 150)")
    ctx.ok(rid, None, None, f"{total} conditionals scanned; no index-dropping shortcut is guarded by a mere permutation/length test "
                            f"(controls: positive x2 matched, negative silent)", {"conditionals": total},
           construct="pyrates/ir+frontend::permutation test used as identity test", loc="pyrates/ir/circuit.py:1")
