"""C16 — Population/Connectivity equals the explicit node-and-edge network (DESIGN §4 C16)."""
from __future__ import annotations

import ast
import re

from engine import AnalysisError
from engine.srcmodel import walk_shallow, norm, parent
from engine.util import call_name, contains, fstring_template, fstring_holes, get_method, is_attr_of, single_def_value
from engine.cfg import stmt_of
from . import _roles_util as R
from ._roles_util import Roles, SRC, TGT, WGT, MIX, show
from .helpers import Registry, parse_pydef

PROPERTY = "C16"
IR = "pyrates/ir/circuit.py"
FE = "pyrates/frontend/template/circuit.py"
POP = "pyrates/frontend/template/population.py"

EXPLANATION = (
    "Unit-by-unit equality of the population circuit with the explicit circuit is not decidable statically.  Decided: "
    "R1 index-role typing — a two-point type system (Src/Tgt) over index-valued expressions of NetworkGraph._generate_edge_equation, "
    "CircuitTemplate.add_edges_from_matrix / _apply_populations_and_connections / _group_edges and pyrates/frontend/template/population.py: "
    "roles are seeded by the names of dict keys, attributes, keywords and parameters (source_idx, source_nodes, source_var, source, Ns … "
    "are Src; target_* … are Tgt; weight is a weight container), propagate through assignment, zip/enumerate unpacking, np.unique, "
    "np.argwhere(u == x), len, list growth and f-strings, and are checked at sinks: the two positions of a matrix shape / subscript "
    "(row = Tgt, column = Src), np.argwhere(u == x) comparing like with like, squeeze(axis) of a weight matrix (axis 1 under a "
    "'number of sources == 1' guard), stores into named slots (key/attribute/keyword named source_*/target_*), edge tuples "
    "(source first, target second), the index/idx_str pairing of _get_indexed_var_str, reshape2d(x, Nt, Ns) and the emitted equation "
    "templates (left-hand side is the target variable, matvec(W, source), vsum(source), broadcast_pre(source), broadcast_post(target)).  "
    "R2 axis semantics of the coupling helpers in base/torch/jax registries: broadcast_pre puts its argument along axis 1, "
    "broadcast_post along axis 0 (def string and NumPy twin agree), wsum reduces over the second (source) index, matvec binds to "
    "dot/matmul and is emitted with the matrix first; edge variables with role 'source' map to broadcast_pre, all others to "
    "broadcast_post of a variable registered on the target node; role 'source' is assigned exactly when the user mapping is 'source'.  "
    "R3 PopulationTemplate.apply: a parameter whose length equals self.n is used element by element in order, anything else is "
    "replicated self.n times; value, shape and node length are all set from n; the parameter is looked up under the op/var of the "
    "variable being expanded.  R4 every injection of generated variable names into an operator's variable dict is dominated by a "
    "raising collision test (D-9), and CircuitTemplate.update_template forwards every constructor parameter (D-12).  R5 producer/consumer "
    "agreement on the source records of a generated in-edge operator: every record stored under the `inputs` handed to add_op (followed "
    "through the private helpers of NetworkGraph._generate_edge_equation) has the keys CircuitIR._collect_ops reads ('sources', 'node', "
    "'var'), so the consumer's fallback to the source operator's declared output is never taken for an edge source; the consumer passes "
    "the record's 'var' on to the '<node>/<op>/<var>' lookup.  R6 no local of a loop over self.connections / self.populations in "
    "CircuitTemplate is bound under a condition of the current element, read outside it and reset only in front of the loop (shared "
    "lint stale_loop_carry with positive/negative controls): every connection is compiled on its own.  R7 on the control-flow graph of the per-edge-group loop of "
    "NetworkGraph._generate_edge_equation: every path through one iteration that adds an equation to the operator's equation list "
    "also extends the list that `<t> = '+'.join(...)` is built from before the iteration ends (fall-through, continue, break) - an "
    "emitted input term is never left out of the target's sum.  R8 in the edge-equation generator and its private helpers no entry of "
    "an array with the weight role is located by argmax/argmin of its signed values (only on a mask / magnitude), with synthetic "
    "controls.  R9 a loop over self.connections skips a connection only under an exact emptiness test of its weights (not np.any, "
    "count_nonzero == 0, all(w == 0)), never under a tolerance test (allclose / isclose / abs < eps).  NOT decided: "
    "numerical equality of trajectories, the semantics of numpy/einsum (trusted), edge templates with more than the enumerated forms, "
    "user edge dictionaries that themselves contain source_idx/target_idx."
)
RULE_TEXT = ("R1: one obligation per sink whose operands carry a definite role (sinks with no role information are not counted); "
             "R2: one per helper definition / twin / registry binding / use site; R3/R4: one per structural fact.  Non-trivial = needed "
             "role propagation, dominance or helper-algebra, not a presence test.  Constructs are found by role, not by spelling: "
             "guards are read as path conditions (dominating tests with the outcome that leads to the statement, so nested ifs, early "
             "returns, `continue` guards, conditional expressions, negated / De-Morgan'd tests and swapped operands are alike); roles "
             "flow into and out of private helpers of the analysed function (sinks inside an extracted helper are typed under the roles "
             "of the call's arguments); tuples appended to a list that is only unpacked again in the same function are records, not "
             "edges; R3 follows the expanded value through every reaching definition, conditional-expression arm and return of an "
             "extracted helper method; R4 follows the forwarded value through locals to self.<p>.")
ASSUMPTIONS = [
    "Naming convention as type annotation: dict keys, attributes, keywords and parameters named source_*/target_* (table in "
    "rules/_roles_util.py) denote the source/target side.  A parameter keeps the role of its name even when re-bound "
    "(`target_nodes = source_nodes` default).",
    "The weight-matrix convention is rows = targets, columns = sources; it is anchored by the emitted `target = matvec(W, source)` "
    "and by wsum's 'ij,ij->i' (both checked).",
    "numpy semantics of x[None, :], x[:, None], einsum, dot/matmul, squeeze(axis) are trusted.",
]

R1_FUNCS = [
    (IR, "NetworkGraph._generate_edge_equation"),
    (FE, "CircuitTemplate.add_edges_from_matrix"),
    (FE, "CircuitTemplate._apply_populations_and_connections"),
    (FE, "CircuitTemplate._group_edges"),
    (POP, "Connectivity.__init__"),
    (POP, "PopulationTemplate.apply"),
]


# ------------------------------------------------------------------------------------------------
# R1 index roles
# ------------------------------------------------------------------------------------------------

def _uniq(ctx, rid, f, label):
    """Construct labels must be unique per function: textually identical statements get an ordinal in source order."""
    seen = ctx.__dict__.setdefault("_label_seen", {})
    k = (rid, f.qual if f is not None else None, label)
    seen[k] = seen.get(k, 0) + 1
    return label if seen[k] == 1 else f"{label} #{seen[k]}"


def _pos_check(ctx, rid, f, node, label, what, expect, got, facts):
    """One positional obligation.  expect: list of roles, got: list of inferred roles."""
    if not any(g in (SRC, TGT, MIX) for g in got):
        return 0
    label = _uniq(ctx, rid, f, label)
    bad = [(i, e, g) for i, (e, g) in enumerate(zip(expect, got)) if e in (SRC, TGT) and g in (R.opposite(e), MIX)]
    facts = dict(facts, expected=[show(e) for e in expect], inferred=[show(g) for g in got])
    if bad:
        i, e, g = bad[0]
        ctx.violation(rid, f, node, f"{what}: position {i} must be {show(e)} but receives {show(g)} — sources and targets are "
                                    f"transposed (a non-symmetric connection would be wired the wrong way round)", facts, label=label)
    else:
        ctx.ok(rid, f, node, f"{what}: roles {[show(g) for g in got]} fit {[show(e) for e in expect]}", facts, label=label)
    return 1


def _strip_T(e):
    """(base, flipped) — `X.T[...]` / `X.transpose()[...]` swap the expected order."""
    flipped = False
    while True:
        if isinstance(e, ast.Attribute) and e.attr == "T":
            e, flipped = e.value, not flipped
        elif isinstance(e, ast.Call) and call_name(e) == "transpose" and isinstance(e.func, ast.Attribute) and not e.args:
            e, flipped = e.func.value, not flipped
        else:
            return e, flipped


_HOLE = "⟨([^⟩]*)⟩"


def _emit_checks(ctx, rid, f, roles, node, st):
    """Sinks inside an emitted equation / expression template (f-string)."""
    tpl = fstring_template(node)
    holes = fstring_holes(node)
    if tpl is None or not holes:
        return 0
    # map hole text -> role (by order of appearance)
    order = re.findall(_HOLE, tpl)
    if len(order) != len(holes):
        return 0
    hrole = [roles.atom(h) for h in holes]

    def role_at(pos_in_tpl):
        """role of the hole that starts at text position pos_in_tpl"""
        k = len(re.findall(_HOLE, tpl[:pos_in_tpl]))
        return hrole[k], order[k]
    n = 0
    base_label = norm(st)
    # left-hand side of an equation
    m = re.match(rf"\s*(?:d/dt\s*\*\s*)?{_HOLE}'?\s*=(?!=)", tpl)
    if m:
        r, txt = role_at(m.start(1) - 1)
        n += _pos_check(ctx, rid, f, st, f"emit-lhs: {base_label}", f"emitted equation `{tpl}`: the assigned variable `{txt}`",
                        [TGT], [r], {"template": tpl})
    for fn, exp in (("matvec", [WGT, SRC]), ("vsum", [SRC]), ("broadcast_pre", [SRC]), ("broadcast_post", [TGT])):
        for mm in re.finditer(rf"\b{fn}\(((?:\s*{_HOLE}\s*,?)+)\)", tpl):
            got = []
            for hm in re.finditer(_HOLE, mm.group(1)):
                got.append(role_at(mm.start(1) + hm.start())[0])
            if len(got) != len(exp):
                raise AnalysisError(f"{rid}: {f.qual}: emitted `{fn}` call with {len(got)} arguments in `{tpl}` (unrecognised form)")
            n += _pos_check(ctx, rid, f, st, f"emit-{fn}: {base_label}", f"emitted `{fn}(...)` in `{tpl}`", exp, got, {"template": tpl})
    for mm in re.finditer(rf"\breshape2d\(\s*{_HOLE}\s*,\s*{_HOLE}\s*,\s*{_HOLE}\s*\)", tpl):
        got = [role_at(mm.start(2) - 1)[0], role_at(mm.start(3) - 1)[0]]
        n += _pos_check(ctx, rid, f, st, f"emit-reshape2d: {base_label}", f"emitted `reshape2d(x, rows, cols)` in `{tpl}`", [TGT, SRC], got,
                        {"template": tpl})
    # elementwise single-source product  `t = w * s`
    mm = re.match(rf"\s*{_HOLE}\s*=\s*{_HOLE}\s*\*\s*{_HOLE}\s*$", tpl)
    if mm:
        got = [role_at(mm.start(2) - 1)[0], role_at(mm.start(3) - 1)[0]]
        n += _pos_check(ctx, rid, f, st, f"emit-product: {base_label}", f"emitted product in `{tpl}`", [WGT, SRC], got, {"template": tpl})
    return n


def _local_record_list(f, recv) -> bool:
    """Is the list `recv` (receiver of an `.append(<tuple>)`) a private record list of this function - only grown, measured and
    iterated here, never returned, stored or handed to a call?  Then its tuples are not edges `(source, target, ...)`: what each
    position means is fixed by the unpacking at the loop that consumes them, and role inference follows that unpacking."""
    if not isinstance(recv, ast.Name):
        return False
    iterated = False
    for x in walk_shallow(f.node):
        if not (isinstance(x, ast.Name) and x.id == recv.id and isinstance(x.ctx, ast.Load)):
            continue
        p = parent(x)
        if isinstance(p, ast.Attribute) and p.attr in ("append", "extend") and isinstance(parent(p), ast.Call) and parent(p).func is p:
            continue
        if isinstance(p, ast.Call) and call_name(p) == "len" and p.args == [x]:
            continue
        it = x
        while isinstance(parent(it), ast.Call) and call_name(parent(it)) in ("enumerate", "zip", "reversed", "list", "tuple") \
                and it in parent(it).args:
            it = parent(it)
        p = parent(it)
        if (isinstance(p, (ast.For, ast.comprehension)) and p.iter is it):
            iterated = True
            continue
        return False
    return iterated


def _r1_function(ctx, rid, f_orig, proles=None, depth=0, seen=None):
    f = R.view(ctx, f_orig)              # statement-level helpers spliced in; obligations are reported under f_orig
    roles = Roles(ctx, f, proles, depth)
    seen = seen if seen is not None else set()
    cfg = ctx.cfg(f)
    n = 0
    nodes = sorted((x for x in walk_shallow(f.node) if hasattr(x, "lineno")), key=lambda x: (x.lineno, x.col_offset))
    for node in nodes:
        st = stmt_of(cfg, node)
        # ---- sinks that moved into an extracted private helper: analyse the helper under the roles of this call's arguments ----
        if isinstance(node, ast.Call):
            hr = roles.helper_roles(node)
            if hr is not None:
                g, proles = hr
                key = (g.qual, tuple(sorted((k, str(v)) for k, v in proles.items())))
                if key not in seen and (g.module.rel, g.qualname) not in R1_FUNCS:
                    seen.add(key)
                    n += _r1_function(ctx, rid, g, proles, roles.depth + 1, seen)
        # ---- pair sinks: subscripts with two indices -------------------------------------------------
        if isinstance(node, ast.Subscript) and isinstance(node.slice, ast.Tuple) and len(node.slice.elts) == 2:
            base, flipped = _strip_T(node.value)
            a, b = (roles.atom(x) for x in node.slice.elts)
            exp = [SRC, TGT] if flipped else [TGT, SRC]
            n += _pos_check(ctx, rid, f, st, f"index-pair: {norm(node)}", f"two-index subscript `{norm(node)}` (row, column)", exp, [a, b],
                            {"array": norm(base), "array_role": show(roles.atom(base))})
        # ---- pair sinks: shape tuples of allocations -------------------------------------------------
        if isinstance(node, ast.Call) and call_name(node) in R.ALLOC and node.args and isinstance(node.args[0], ast.Tuple) \
                and len(node.args[0].elts) == 2:
            a, b = (roles.atom(x) for x in node.args[0].elts)
            n += _pos_check(ctx, rid, f, st, f"shape: {norm(node)}", f"matrix allocation `{norm(node)}` (rows, columns)", [TGT, SRC], [a, b], {})
        # ---- like-with-like comparison inside argwhere ----------------------------------------------
        if isinstance(node, ast.Call) and call_name(node) == "argwhere" and len(node.args) == 1 and isinstance(node.args[0], ast.Compare) \
                and len(node.args[0].ops) == 1:
            l, r = roles.atom(node.args[0].left), roles.atom(node.args[0].comparators[0])
            if l in (SRC, TGT) and r in (SRC, TGT, MIX):
                n += _pos_check(ctx, rid, f, st, f"argwhere: {norm(node)}", f"position lookup `{norm(node)}`: the looked-up element", [l], [r],
                                {"haystack": show(l)})
        # ---- squeeze of a weight matrix -----------------------------------------------------------
        if isinstance(node, ast.Call) and call_name(node) == "squeeze" and isinstance(node.func, ast.Attribute) \
                and roles.atom(node.func.value) == WGT:
            ax = None
            for k in node.keywords:
                if k.arg == "axis":
                    ax = k.value
            if ax is None and node.args:
                ax = node.args[0]
            if ax is None:
                continue
            if not (isinstance(ax, ast.Constant) and isinstance(ax.value, int)):
                raise AnalysisError(f"{rid}: {f.qual}: squeeze axis `{norm(ax)}` is not a literal (unrecognised form)")
            # the guard: a dominating test `<extent> == 1` that holds here (`!= 1` on the else side, early exits, swapped operands)
            guards = []
            for t, pol in R.path_literals(cfg, st, node):
                if isinstance(t, ast.Compare) and len(t.ops) == 1 and isinstance(t.ops[0], (ast.Eq, ast.NotEq)) \
                        and isinstance(t.ops[0], ast.Eq) == pol \
                        and any(isinstance(x, ast.Constant) and x.value == 1 and x.value is not True for x in (t.left, t.comparators[0])):
                    guards.append(t)
            if not guards:
                raise AnalysisError(f"{rid}: {f.qual}: `{norm(node)}` is not guarded by an `<extent> == 1` test (unrecognised form)")
            typed = [t for t in guards if roles.atom(t.comparators[0] if isinstance(t.left, ast.Constant) else t.left) in (SRC, TGT, MIX)]
            g = (typed or guards)[0]            # innermost test of a typed extent
            ext = g.comparators[0] if isinstance(g.left, ast.Constant) else g.left
            er = roles.atom(ext)
            facts = {"guard": norm(g), "guard_role": show(er), "axis": ax.value}
            n += 1
            sq_label = _uniq(ctx, rid, f, f"squeeze: {norm(node)}")
            if ax.value not in (1, -1):
                ctx.violation(rid, f, st, f"`{norm(node)}` removes axis {ax.value} of a (targets x sources) weight matrix: the single-source "
                                          f"special case must drop the source axis 1 and keep one weight per target", facts, label=sq_label)
            elif er in (TGT, MIX):
                ctx.violation(rid, f, st, f"`{norm(node)}` (source axis) is guarded by `{norm(g)}`, which tests the number of {show(er)} entries: "
                                          f"the single-source special case would fire for a single target", facts, label=sq_label)
            elif er == SRC:
                ctx.ok(rid, f, st, "the source axis is squeezed only when the number of sources is 1", facts, label=sq_label)
            else:
                raise AnalysisError(f"{rid}: {f.qual}: cannot type the guard `{norm(g)}` of `{norm(node)}`")
        # ---- named slots ----------------------------------------------------------------------
        if isinstance(node, ast.Assign):
            pairs = []
            for t in node.targets:
                if isinstance(t, (ast.Tuple, ast.List)) and isinstance(node.value, (ast.Tuple, ast.List)) and len(t.elts) == len(node.value.elts):
                    pairs += list(zip(t.elts, node.value.elts))          # a['source_idx'], a['target_idx'] = x, y
                else:
                    pairs.append((t, node.value))
            for t, val in pairs:
                slot = None
                if isinstance(t, ast.Subscript) and isinstance(t.slice, ast.Constant) and isinstance(t.slice.value, str):
                    slot = t.slice.value
                elif isinstance(t, ast.Attribute):
                    slot = t.attr
                e = R.seed_of(slot)
                if e in (SRC, TGT):
                    text = norm(node) if len(pairs) == 1 else f"{norm(t)} = {norm(val)}"
                    n += _pos_check(ctx, rid, f, node, f"slot: {text}", f"store into the slot named `{slot}`", [e], [roles.atom(val)], {})
        if isinstance(node, ast.Call) and isinstance(node.func, ast.Attribute) and node.func.attr in ("extend", "append") and len(node.args) == 1:
            recv = node.func.value
            if isinstance(recv, ast.Subscript) and isinstance(recv.slice, ast.Constant) and R.seed_of(recv.slice.value) in (SRC, TGT):
                e = R.seed_of(recv.slice.value)
                n += _pos_check(ctx, rid, f, st, f"slot-grow: {norm(node)}", f"growth of the list stored under `{recv.slice.value}`", [e],
                                [roles.atom(node.args[0])], {})
            # edge tuples (source, target, ...)
            a0 = node.args[0]
            if node.func.attr == "append" and isinstance(a0, ast.Tuple) and len(a0.elts) >= 3:
                got = [roles.atom(a0.elts[0]), roles.atom(a0.elts[1])]
                # not an edge: a weight is no endpoint / a record list consumed by unpacking in this very function
                if WGT not in got and not _local_record_list(f, recv):
                    n += _pos_check(ctx, rid, f, st, f"edge-tuple: {norm(node)}", f"edge tuple `{norm(a0)}` (source first, target second)", [SRC, TGT], got, {})
        if isinstance(node, ast.Dict):
            for k, v in zip(node.keys, node.values):
                if isinstance(k, ast.Constant) and R.seed_of(k.value) in (SRC, TGT):
                    n += _pos_check(ctx, rid, f, st, f"slot: {norm(k)}: {norm(v)} in {norm(st)[:60]}", f"dict entry `{norm(k)}: {norm(v)}`",
                                    [R.seed_of(k.value)], [roles.atom(v)], {})
        if isinstance(node, ast.Call):
            for k in node.keywords:
                if R.seed_of(k.arg) in (SRC, TGT):
                    n += _pos_check(ctx, rid, f, st, f"slot: {k.arg}={norm(k.value)} in {norm(node)[:60]}", f"keyword argument `{k.arg}={norm(k.value)}`",
                                    [R.seed_of(k.arg)], [roles.atom(k.value)], {})
        # ---- index / idx_str pairing ------------------------------------------------------------
        if isinstance(node, ast.Call) and call_name(node) == "_get_indexed_var_str":
            parts = [("var", node.args[0] if node.args else None), ("idx", node.args[1] if len(node.args) > 1 else None)]
            parts += [(k.arg, k.value) for k in node.keywords if k.arg in ("idx", "idx_str", "var")]
            got = [(nm, roles.atom(x)) for nm, x in parts if x is not None]
            definite = [(nm, r) for nm, r in got if r in (SRC, TGT, MIX)]
            if len(definite) >= 2:
                n += 1
                iv_label = _uniq(ctx, rid, f, f"indexed-var: {norm(node)}")
                kinds = {r for _, r in definite}
                facts = {"arguments": {nm: show(r) for nm, r in got}}
                if len(kinds) > 1 or MIX in kinds:
                    ctx.violation(rid, f, st, f"`{norm(node)}` combines arguments of different sides {facts['arguments']}: a source variable would be "
                                              f"indexed with target indices (or vice versa)", facts, label=iv_label)
                else:
                    ctx.ok(rid, f, st, f"variable, index list and index-constant name all belong to the {show(kinds.pop())} side", facts,
                           label=iv_label)
        # ---- emitted templates --------------------------------------------------------------------
        if isinstance(node, ast.JoinedStr) and not isinstance(parent(node), ast.FormattedValue):
            n += _emit_checks(ctx, rid, f, roles, node, st)
    return n


def r1_index_roles(ctx, rid):
    per = {}
    for rel, qn in R1_FUNCS:
        f = ctx.repo.get_func(rel, qn)
        per[qn] = _r1_function(ctx, rid, f)
    ctx.notes.append(f"{rid}: typed sinks per function: {per}")
    need = {"NetworkGraph._generate_edge_equation": 12, "CircuitTemplate.add_edges_from_matrix": 3}
    for qn, k in need.items():
        if per.get(qn, 0) < k:
            raise AnalysisError(f"{rid}: only {per.get(qn, 0)} typed sinks in {qn}, {k} confirmed by hand (the role seeds no longer reach the sinks)")


# ------------------------------------------------------------------------------------------------
# R2 coupling helpers
# ------------------------------------------------------------------------------------------------

def _data_axis(fn: ast.FunctionDef, what: str):
    """Axis along which a broadcast helper lays out its 1-D argument in the 2-D result (0 or 1)."""
    params = [a.arg for a in fn.args.args]
    rets = [n for n in ast.walk(fn) if isinstance(n, ast.Return)]
    if len(params) != 1 or len(rets) != 1 or rets[0].value is None:
        raise AnalysisError(f"{what}: unrecognised form (expected one parameter and one return)")
    x, v = params[0], rets[0].value

    def is_x(e):
        return isinstance(e, ast.Name) and e.id == x

    def is_newaxis(e):
        return (isinstance(e, ast.Constant) and e.value is None) or (isinstance(e, ast.Attribute) and e.attr == "newaxis")

    def is_full(e):
        return isinstance(e, ast.Slice) and e.lower is None and e.upper is None and e.step is None
    if isinstance(v, ast.Subscript) and is_x(v.value):
        s = v.slice
        if isinstance(s, ast.Tuple) and len(s.elts) == 2:
            a, b = s.elts
            if is_newaxis(a) and (is_full(b) or isinstance(b, ast.Constant) and b.value is Ellipsis):
                return 1
            if (is_full(a) or isinstance(a, ast.Constant) and a.value is Ellipsis) and is_newaxis(b):
                return 0
        if is_newaxis(s):
            return 1
    if isinstance(v, ast.Call) and call_name(v) == "reshape" and isinstance(v.func, ast.Attribute) and is_x(v.func.value):
        args = v.args[0].elts if len(v.args) == 1 and isinstance(v.args[0], ast.Tuple) else v.args
        vals = [a.value if isinstance(a, ast.Constant) else (-a.operand.value if isinstance(a, ast.UnaryOp) and isinstance(a.op, ast.USub)
                                                             and isinstance(a.operand, ast.Constant) else None) for a in args]
        if vals == [1, -1]:
            return 1
        if vals == [-1, 1]:
            return 0
    if isinstance(v, ast.Call) and call_name(v) == "expand_dims" and v.args and is_x(v.args[0]):
        ax = v.args[1] if len(v.args) > 1 else next((k.value for k in v.keywords if k.arg == "axis"), None)
        if isinstance(ax, ast.Constant) and ax.value in (0, 1):
            return 1 - ax.value
    raise AnalysisError(f"{what}: unrecognised broadcast form `{ast.unparse(v)}`")


def _wsum_reduced_axis(fn: ast.FunctionDef, what: str):
    """Which axis of the (targets x sources) pair space does wsum sum over?  Returns (axis, description)."""
    params = [a.arg for a in fn.args.args]
    rets = [n for n in ast.walk(fn) if isinstance(n, ast.Return)]
    if len(params) != 2 or len(rets) != 1 or rets[0].value is None:
        raise AnalysisError(f"{what}: unrecognised form (expected (weight, coupling) and one return)")
    v = rets[0].value
    if isinstance(v, ast.Call) and call_name(v) == "einsum" and v.args and isinstance(v.args[0], ast.Constant) and isinstance(v.args[0].value, str):
        spec = v.args[0].value.replace(" ", "")
        m = re.fullmatch(r"([a-z])([a-z]),([a-z])([a-z])->([a-z])", spec)
        if not m or m.group(1) == m.group(2):
            raise AnalysisError(f"{what}: unrecognised einsum specification '{spec}'")
        a, b, c, d, o = m.groups()
        ops = [ast.unparse(x) for x in v.args[1:]]
        if sorted(ops) != sorted(params):
            raise AnalysisError(f"{what}: einsum operands {ops} are not the two parameters")
        if (a, b) != (c, d):
            return None, f"einsum '{spec}' pairs the operands with different index orders (one operand is transposed)"
        if o == a:
            return 1, f"einsum '{spec}'"
        if o == b:
            return 0, f"einsum '{spec}'"
        raise AnalysisError(f"{what}: einsum output index '{o}' is not an input index")
    if isinstance(v, ast.Call) and call_name(v) == "sum":
        ax = next((k.value for k in v.keywords if k.arg == "axis"), None)
        if ax is None and isinstance(v.func, ast.Attribute) and v.args:
            ax = v.args[0]
        elif ax is None and len(v.args) > 1:
            ax = v.args[1]
        if isinstance(ax, ast.Constant) and ax.value in (0, 1, -1):
            return (1 if ax.value in (1, -1) else 0), f"sum(axis={ax.value})"
    raise AnalysisError(f"{what}: unrecognised reduction `{ast.unparse(v)}`")


def _twin(reg: Registry, key: str):
    e = reg.entries.get(key) or {}
    fn = e.get("func")
    if isinstance(fn, ast.Name) and fn.id in reg.module.functions:
        return reg.module.functions[fn.id]
    return None


def _def_source(ctx, reg: Registry, key: str):
    """Registry.def_source, also when the def string is shared: `from <other registry module> import <name>` (the torch/jax tables
    may reuse the base table's text; the definition is then the imported module-level string)."""
    ds = reg.def_source(key)
    if ds is not None:
        return ds
    d = (reg.entries.get(key) or {}).get("def")
    mod, name = reg.module, d.id if isinstance(d, ast.Name) else None
    for _ in range(4):
        if name is None or name not in mod.imports:
            return None
        src, sym = mod.imports[name]
        tm = ctx.repo.modules.get(src)
        if tm is None or sym in (None, "*"):
            return None
        sts = tm.assigns.get(sym)
        if sts and isinstance(sts[-1], ast.Assign) and isinstance(sts[-1].value, ast.Constant) and isinstance(sts[-1].value.value, str):
            text = sts[-1].value.value
            try:
                ast.parse(text)
            except SyntaxError:
                return text, sts[-1], "foreign"
            return text, sts[-1], "pydef"
        mod, name = tm, sym
    return None


def r2_coupling_helpers(ctx, rid):
    base = Registry(ctx, "base")
    bmod = base.module
    # ---- broadcast helpers (defined in the base registry only; torch/jax inherit them) -------------------------
    for key, want_axis, side in (("broadcast_pre", 1, "source"), ("broadcast_post", 0, "target")):
        ds = _def_source(ctx, base, key)
        if ds is None or ds[2] != "pydef":
            raise AnalysisError(f"{rid}: base_funcs['{key}'] has no python def string")
        text, st, _ = ds
        fn = parse_pydef(text)
        call = base.entries[key].get("call")
        if not (isinstance(call, ast.Constant) and call.value == fn.name):
            raise AnalysisError(f"{rid}: base_funcs['{key}']['call'] does not name the function its def string defines")
        forms = [("def string", fn, st)]
        tw = _twin(base, key)
        if tw is None:
            raise AnalysisError(f"{rid}: base_funcs['{key}']['func'] is not a module-level twin function")
        forms.append(("NumPy twin " + tw.name, tw.node, tw.node))
        for what, node, where in forms:
            ax = _data_axis(node, f"{rid}: {key} ({what})")
            label = f"{key} {what}"
            construct = f"{bmod.rel}::{key}::{what}"
            loc = f"{bmod.rel}:{getattr(where, 'lineno', 0)}"
            if ax == want_axis:
                ctx.ok(rid, None, where, f"{key} ({what}) lays the {side} vector along axis {ax} of the (targets x sources) pair space",
                       {"axis": ax}, construct=construct, loc=loc)
            else:
                ctx.violation(rid, None, where, f"{key} ({what}) lays the {side} vector along axis {ax}; the pair space is (targets x sources), so the "
                                                f"{side} variable must vary along axis {want_axis} — pre/post are swapped and every coupling term is "
                                                f"evaluated for the transposed pair", {"axis": ax}, construct=construct, loc=loc)
    # ---- wsum in every registry that defines it ------------------------------------------------------------------
    n_wsum = 0
    for be in ("base", "torch", "jax"):
        try:
            reg = base if be == "base" else Registry(ctx, be)
        except AnalysisError:
            continue
        if "wsum" not in reg.entries:
            continue
        ds = _def_source(ctx, reg, "wsum")
        if ds is None or ds[2] != "pydef":
            raise AnalysisError(f"{rid}: {reg.name}['wsum'] has no python def string")
        forms = [("def string", parse_pydef(ds[0]), ds[1])]
        tw = _twin(reg, "wsum")
        if tw is not None:
            forms.append(("NumPy twin " + tw.name, tw.node, tw.node))
        elif be == "base":
            raise AnalysisError(f"{rid}: base_funcs['wsum']['func'] is not a module-level twin function")
        for what, node, where in forms:
            n_wsum += 1
            ax, desc = _wsum_reduced_axis(node, f"{rid}: {reg.name}['wsum'] ({what})")
            construct = f"{reg.module.rel}::wsum::{what}"
            loc = f"{reg.module.rel}:{getattr(where, 'lineno', 0)}"
            if ax == 1:
                ctx.ok(rid, None, where, f"wsum ({what}) sums weight*coupling over the source axis: {desc}", {"reduced_axis": 1},
                       construct=construct, loc=loc)
            else:
                ctx.violation(rid, None, where, f"wsum ({what}) is {desc}: it does not sum over the source axis (axis 1) of the (targets x sources) pair "
                                                f"space, so target i would not receive sum_j W[i,j]*c[i,j]", {"reduced_axis": ax},
                              construct=construct, loc=loc)
    if n_wsum < 4:
        raise AnalysisError(f"{rid}: only {n_wsum} wsum definitions found (base def + twin, torch, jax expected)")
    # ---- matvec binding ---------------------------------------------------------------------------------------------
    for be in ("base", "torch", "jax"):
        reg = base if be == "base" else Registry(ctx, be)
        e = reg.entries.get("matvec")
        if e is None:
            raise AnalysisError(f"{rid}: {reg.name} has no 'matvec' entry")
        call = e.get("call")
        cname = call.value if isinstance(call, ast.Constant) else None
        construct = f"{reg.module.rel}::matvec::binding"
        loc = f"{reg.module.rel}:{getattr(call, 'lineno', 0)}"
        lib = reg.library_binding("matvec")
        if cname in ("dot", "matmul") and lib is not None:
            ctx.ok(rid, None, call, f"matvec binds to {lib} (matrix product, first operand is the matrix)", {"binding": lib},
                   construct=construct, loc=loc, nontrivial=False)
        elif cname in ("multiply", "outer", "inner", "cross", "vdot", "kron", "tensordot"):
            ctx.violation(rid, None, call, f"matvec binds to `{cname}`, which is not the matrix-vector product W·s", {"binding": cname},
                          construct=construct, loc=loc)
        else:
            raise AnalysisError(f"{rid}: {reg.name}['matvec'] binds to `{cname}` / {lib} (unrecognised)")
    # ---- use sites --------------------------------------------------------------------------------------------------
    f0 = ctx.repo.get_func(IR, "NetworkGraph._generate_edge_equation")
    # the emission sites live in the edge-equation generator or in one of the private helpers it was split into (call-graph closure)
    members, todo = [f0], [(f0, 0)]
    while todo:
        fx, dpt = todo.pop()
        if dpt >= 3:
            continue
        for c in walk_shallow(fx.node):
            if isinstance(c, ast.Call):
                g = R.private_helper(ctx, fx, c)
                if g is not None and all(g is not m for m in members):
                    members.append(g)
                    todo.append((g, dpt + 1))
    uses = []
    for fx in members:
        cx = ctx.cfg(fx)
        for n in walk_shallow(fx.node):
            if isinstance(n, ast.JoinedStr) and not isinstance(parent(n), ast.FormattedValue):
                tpl = fstring_template(n) or ""
                m = re.match(r"\s*(broadcast_pre|broadcast_post)\(", tpl)
                if m:
                    uses.append((m.group(1), n, stmt_of(cx, n), fx, cx))
    if len(uses) < 2:
        raise AnalysisError(f"{rid}: broadcast_pre/broadcast_post emission sites not found in {f0.qual} and its private helpers")

    def role_literal(c, stmt, expr=None):
        """('source'|'target', guard text) established for `stmt` by a dominating test of <x>['role'] / <x>.get('role') against a literal"""
        for t, pol in R.path_literals(c, stmt, expr):
            if not (isinstance(t, ast.Compare) and len(t.ops) == 1 and isinstance(t.ops[0], (ast.Eq, ast.NotEq))):
                continue
            for x, y in ((t.left, t.comparators[0]), (t.comparators[0], t.left)):
                is_role = (isinstance(x, ast.Subscript) and isinstance(x.slice, ast.Constant) and x.slice.value == "role") or \
                    (isinstance(x, ast.Call) and call_name(x) == "get" and x.args and isinstance(x.args[0], ast.Constant) and x.args[0].value == "role")
                if is_role:
                    if not (isinstance(y, ast.Constant) and y.value in ("source", "target")):
                        raise AnalysisError(f"{rid}: unrecognised role test `{norm(t)}`")
                    holds = isinstance(t.ops[0], ast.Eq) == pol
                    return (y.value if holds else {"source": "target", "target": "source"}[y.value]), ("" if pol else "not ") + norm(t)
        return None

    for helper, n, st, f, cfg in uses:
        rl = role_literal(cfg, st, n)
        if rl is None:
            raise AnalysisError(f"{rid}: `{norm(st)}` is not under a test of info['role'] (unrecognised form)")
        role_here, gtext = rl
        want = "broadcast_pre" if role_here == "source" else "broadcast_post"
        facts = {"guard": gtext, "branch_role": role_here, "helper": helper}
        if helper == want:
            ctx.ok(rid, f, st, f"edge variables with role '{role_here}' are wrapped in {helper}", facts, label=f"use {helper}: {norm(st)}")
        else:
            ctx.violation(rid, f, st, f"edge variables with role '{role_here}' are wrapped in {helper}: a {role_here}-side variable would vary along the "
                                      f"{'target' if role_here == 'source' else 'source'} axis of the pair space (pre/post swapped)", facts,
                          label=f"use {helper}: {norm(st)}")
        # the post-synaptic variable is read from the target node
        if helper == want == "broadcast_post":
            hole = fstring_holes(n)[0]
            regs = [s for s in cfg.stmts() if isinstance(s, ast.Assign) and len(s.targets) == 1 and isinstance(s.targets[0], ast.Subscript)
                    and isinstance(s.targets[0].value, ast.Name) and isinstance(_inline1(ctx, f, s.value), ast.Dict)
                    and ast.dump(s.targets[0].slice) == ast.dump(hole) and role_literal(cfg, s) == rl]
            regs = [s for s in regs if any(isinstance(k, ast.Constant) and k.value == "node" for k in _inline1(ctx, f, s.value).keys)]
            if not regs:
                raise AnalysisError(f"{rid}: registration of the post-synaptic variable in source_vars not found next to `{norm(st)}`")
            dct = _inline1(ctx, f, regs[0].value)
            d = {k.value: v for k, v in zip(dct.keys, dct.values) if isinstance(k, ast.Constant)}
            node_role = Roles(ctx, f).atom(d.get("node")) if d.get("node") is not None else None
            if node_role is None and isinstance(d.get("node"), ast.Name):
                # loop variables over the per-source-node table carry their role in their name (seed vocabulary of _roles_util)
                from ._roles_util import seed_of
                node_role = seed_of(d["node"].id)
            if node_role == TGT:
                ctx.ok(rid, f, regs[0], "the post-synaptic variable is read from the target node", label=f"post var node: {norm(regs[0])}")
            elif node_role in (SRC, MIX):
                ctx.violation(rid, f, regs[0], "the post-synaptic (target-side) edge variable is registered on the source node", label=f"post var node: {norm(regs[0])}")
            else:
                raise AnalysisError(f"{rid}: cannot type the node of `{norm(regs[0])}`")
    # ---- producer of info['role'] ----------------------------------------------------------------------------------
    g = ctx.repo.get_func(FE, "CircuitTemplate._apply_populations_and_connections")
    gcfg = ctx.cfg(g)
    prods = []
    for s in gcfg.stmts():
        if isinstance(s, ast.Assign) and isinstance(s.value, ast.Dict):
            d = {k.value: v for k, v in zip(s.value.keys, s.value.values) if isinstance(k, ast.Constant)}
            if "role" in d and isinstance(d["role"], ast.Constant):
                prods.append((s, d["role"].value))
    if len(prods) < 2:
        raise AnalysisError(f"{rid}: assignments of {{'role': ...}} not found in {g.qual}")
    for s, val in prods:
        found = None
        for t, pol in R.path_literals(gcfg, s):
            if isinstance(t, ast.Compare) and len(t.ops) == 1 and isinstance(t.ops[0], (ast.Eq, ast.NotEq)) \
                    and any(isinstance(x, ast.Constant) and x.value == "source" for x in (t.left, t.comparators[0])):
                found = (t, pol)
                break
        if found is None:
            raise AnalysisError(f"{rid}: `{norm(s)}` is not under a `mapping == 'source'` test (unrecognised form)")
        t, pol = found
        is_source_branch = isinstance(t.ops[0], ast.Eq) == pol
        want = "source" if is_source_branch else "target"
        gtext = ("" if pol else "not ") + norm(t)
        if val == want:
            ctx.ok(rid, g, s, f"edge_var_map entries {'equal to' if is_source_branch else 'other than'} 'source' get role '{val}'", {"guard": gtext})
        else:
            ctx.violation(rid, g, s, f"edge_var_map entries {'equal to' if is_source_branch else 'other than'} 'source' get role '{val}': pre- and "
                                     f"post-synaptic edge variables are exchanged", {"guard": gtext})


def _inline1(ctx, f, e):
    """a name with a single plain definition -> that definition's value (one step), else e"""
    if isinstance(e, ast.Name):
        v = single_def_value(ctx, f, e)
        if v is not None:
            return v
    return e


# ------------------------------------------------------------------------------------------------
# R3 per-unit parameters
# ------------------------------------------------------------------------------------------------

def _is_self_n(e, selfn):
    return is_attr_of(e, selfn, "n")


def _value_alternatives(ctx, rid, f, name_node, depth=0):
    """The expressions a local may hold, one per way it is computed: every reaching definition, both arms of a conditional
    expression, and - when the definition calls a private helper of the class/module - every `return` of that helper.
    Each alternative is a dict: fi (function holding the expression), stmt, value, lits (extra (test, polarity) literals from
    conditional expressions), env (helper parameter -> argument expression in the caller, or None)."""
    from engine.dataflow import assigned_value
    out = []

    def expand(fi, stmt, v, lits, env, d):
        if isinstance(v, ast.IfExp):
            for arm, pol in ((v.body, True), (v.orelse, False)):
                extra = []
                R.split_literals(v.test, pol, extra)
                expand(fi, stmt, arm, lits + extra, env, d)
            return
        if isinstance(v, ast.Name) and d < 4:
            defs = ctx.rd(fi).defs_reaching(v)
            if defs and all(isinstance(x, (ast.Assign, ast.AnnAssign)) and assigned_value(x, v.id) is not None for x in defs):
                for x in defs:
                    expand(fi, x, assigned_value(x, v.id), lits, env, d + 1)
                return
        if isinstance(v, ast.Call) and d < 4:
            g = R.private_helper(ctx, fi, v)
            if g is not None:
                binding = R.bind_args(v, g)
                rets = [r for r in walk_shallow(g.node) if isinstance(r, ast.Return)]
                if binding is None or not rets or any(r.value is None for r in rets):
                    raise AnalysisError(f"{rid}: cannot follow the helper call `{norm(v)}` (unrecognised form)")
                if env is not None:
                    raise AnalysisError(f"{rid}: helper `{g.qualname}` called from a helper (nesting too deep to follow)")
                for r in rets:
                    expand(g, r, r.value, lits, {"binding": binding, "caller": fi, "call": v}, d + 1)
                return
        out.append(dict(fi=fi, stmt=stmt, value=v, lits=lits, env=env))

    defs = ctx.rd(f).defs_reaching(name_node)
    for x in defs:
        v = assigned_value(x, name_node.id) if isinstance(x, (ast.Assign, ast.AnnAssign)) else None
        if v is None:
            raise AnalysisError(f"{rid}: unrecognised definition of `{name_node.id}`: {norm(x)}")
        expand(f, x, v, [], None, depth)
    return out


def r3_population_params(ctx, rid):
    cls = ctx.repo.get_class(POP, "PopulationTemplate")
    f = R.view(ctx, get_method(ctx, cls, "apply"))       # helpers the expansion was split into are spliced in (same qualname)
    selfn = f.self_name
    cfg = ctx.cfg(f)
    # the store of the expanded value
    stores = [s for s in cfg.stmts() if isinstance(s, ast.Assign) and len(s.targets) == 1 and isinstance(s.targets[0], ast.Subscript)
              and isinstance(s.targets[0].slice, ast.Constant) and s.targets[0].slice.value == "value"]
    if len(stores) != 1 or not isinstance(stores[0].value, ast.Name):
        raise AnalysisError(f"{rid}: expected one `var_data['value'] = <name>` store in PopulationTemplate.apply")
    store = stores[0]
    vd = store.targets[0].value           # var_data
    newname = store.value.id
    alts = _value_alternatives(ctx, rid, f, store.value)
    if len(alts) < 2:
        raise AnalysisError(f"{rid}: expected several definitions of `{newname}` (per-unit / replicated / default)")

    from engine.util import normalise as _normalise

    def resolved(e, fi):
        """e with stable single-definition locals replaced by what they were bound to (`n, params = self.n, self.params`)"""
        try:
            return _normalise(ctx, fi, e) if getattr(e, "_parent", None) is not None else e
        except AnalysisError:
            return e

    def self_n(e, fi):
        return is_attr_of(resolved(e, fi), fi.self_name or selfn, "n")

    def undecided(e, fi):
        """a bare local that could not be traced to one value: neither self.n nor positively something else"""
        return isinstance(resolved(e, fi), ast.Name)

    def pval_info(name_node, fi):
        """`pval` -> the subscript `self.params[key]` it was read from (self.params possibly held in a local)"""
        v = single_def_value(ctx, fi, name_node) if isinstance(name_node, ast.Name) else name_node
        if isinstance(v, ast.Subscript) and is_attr_of(resolved(v.value, fi), fi.self_name or selfn, "params"):
            return v
        return None

    def replicated(e):
        """[x] * self.n  /  [x for _ in range(self.n)]  /  list(repeat(x, self.n))  -> (x, count)"""
        if isinstance(e, ast.BinOp) and isinstance(e.op, ast.Mult):
            for a, b in ((e.left, e.right), (e.right, e.left)):
                if isinstance(a, ast.List) and len(a.elts) == 1:
                    return a.elts[0], b
        if isinstance(e, ast.ListComp) and len(e.generators) == 1 and not e.generators[0].ifs and isinstance(e.generators[0].target, ast.Name) \
                and isinstance(e.generators[0].iter, ast.Call) and call_name(e.generators[0].iter) == "range" and len(e.generators[0].iter.args) == 1 \
                and not any(isinstance(x, ast.Name) and x.id == e.generators[0].target.id for x in ast.walk(e.elt)):
            return e.elt, e.generators[0].iter.args[0]
        if isinstance(e, ast.Call) and call_name(e) == "list" and len(e.args) == 1 and isinstance(e.args[0], ast.Call) \
                and call_name(e.args[0]) == "repeat" and len(e.args[0].args) == 2:
            return e.args[0].args[0], e.args[0].args[1]
        return None

    # the loops around the expansion in apply (operator loop > variable loop)
    loops = [a for a in _ancestors(store) if isinstance(a, ast.For)]
    n_seen = 0
    for alt in alts:
        fi, d, v, env = alt["fi"], alt["stmt"], alt["value"], alt["env"]
        acfg = ctx.cfg(fi)
        what = norm(d) if fi is f else f"{fi.qualname}: {norm(d)}"
        rep = replicated(v)
        if rep is not None:
            n_seen += 1
            x, cnt = rep
            if self_n(cnt, fi):
                ctx.ok(rid, fi, d, f"`{norm(x)}` is replicated self.n times", label=f"replicate: {norm(d)}")
            elif undecided(cnt, fi):
                raise AnalysisError(f"{rid}: cannot trace the replication count `{norm(cnt)}` in `{what}` to one value (unrecognised form)")
            else:
                ctx.violation(rid, fi, d, f"`{norm(x)}` is replicated `{norm(cnt)}` times instead of self.n: the population variable would not have one "
                                          f"entry per unit", label=f"replicate: {norm(d)}")
            continue
        # per-unit branch: list(pval) (or equivalent order-preserving copy)
        src = None
        if isinstance(v, ast.Call) and call_name(v) in ("list", "tuple", "asarray", "array") and len(v.args) == 1 and not v.keywords:
            src = v.args[0]
        elif isinstance(v, ast.Call) and call_name(v) == "tolist" and isinstance(v.func, ast.Attribute):
            src = v.func.value
            if isinstance(src, ast.Call) and call_name(src) in ("asarray", "array") and len(src.args) == 1:
                src = src.args[0]
        elif isinstance(v, ast.ListComp) and len(v.generators) == 1 and not v.generators[0].ifs and isinstance(v.elt, ast.Name) \
                and isinstance(v.generators[0].target, ast.Name) and v.elt.id == v.generators[0].target.id:
            src = v.generators[0].iter
        elif isinstance(v, ast.List) and len(v.elts) == 1 and isinstance(v.elts[0], ast.Starred):
            src = v.elts[0].value
        n_seen += 1
        if not isinstance(src, ast.Name) or pval_info(src, fi) is None:
            uses_param = any(isinstance(x, ast.Name) and isinstance(x.ctx, ast.Load) and getattr(x, "_parent", None) is not None
                             and pval_info(x, fi) is not None for x in ast.walk(v))
            if not uses_param:
                raise AnalysisError(f"{rid}: cannot classify the value `{what}` of the expanded variable (neither replicated nor the user's "
                                    f"sequence; unrecognised form)")
            ctx.violation(rid, fi, d, f"the per-unit branch builds the value as `{norm(v)}`, which is not the user's sequence taken element by element in "
                                      f"order: unit i would not receive params[...][i]", label=f"per-unit: {norm(d)}")
            continue
        # the guard: a length test of the sequence that holds on the way to this alternative (nested if, early return, `continue`,
        # conditional expression, negated / De-Morgan'd spelling, swapped operands)
        lens = []
        for t, pol in R.path_literals(acfg, d, v if any(x is v for x in ast.walk(d)) else None) + list(alt["lits"]):
            if isinstance(t, ast.Compare) and len(t.ops) == 1:
                for a, b in ((t.left, t.comparators[0]), (t.comparators[0], t.left)):
                    if isinstance(a, ast.Call) and call_name(a) == "len" and len(a.args) == 1 and isinstance(a.args[0], ast.Name) \
                            and a.args[0].id == src.id:
                        lens.append((t, pol, b))
        if not lens:
            raise AnalysisError(f"{rid}: the per-unit branch `{what}` is not guarded by a length test of `{src.id}` (unrecognised form)")
        t, pol, other = lens[0]
        facts = {"guard": ("" if pol else "not ") + norm(t)}
        holds_eq = (isinstance(t.ops[0], ast.Eq) and pol) or (isinstance(t.ops[0], ast.NotEq) and not pol)
        if holds_eq and undecided(other, fi):
            raise AnalysisError(f"{rid}: cannot trace `{norm(other)}` in the length test `{norm(t)}` to one value (unrecognised form)")
        if holds_eq and self_n(other, fi):
            ctx.ok(rid, fi, d, f"a parameter of length self.n is used element by element in order (`{norm(v)}`)", facts, label=f"per-unit: {norm(d)}")
        else:
            ctx.violation(rid, fi, d, f"the per-unit branch is taken when `{facts['guard']}` instead of len({src.id}) == self.n: a sequence of another "
                                      f"length would be taken as per-unit values (wrong population size) or a length-n sequence would be replicated", facts,
                          label=f"per-unit: {norm(d)}")
        # parameter key names the variable being expanded
        sub = pval_info(src, fi)
        key = sub.slice
        kfi = fi
        kv = key
        for _ in range(4):
            if not isinstance(kv, ast.Name):
                break
            kdefs = ctx.rd(kfi).defs_reaching(kv)
            if env is not None and kfi is fi and kv.id in env["binding"] and kdefs and all(isinstance(x, ast.arguments) for x in kdefs):
                kv, kfi = env["binding"][kv.id], env["caller"]       # a helper parameter: continue with the caller's argument
                continue
            nxt = single_def_value(ctx, kfi, kv)
            if nxt is None:
                break
            kv = nxt
        tpl = fstring_template(kv) if not isinstance(kv, ast.Name) else None
        holes = fstring_holes(kv) if tpl is not None else []
        if tpl is None and isinstance(kv, ast.Call) and call_name(kv) == "join" and isinstance(kv.func, ast.Attribute) \
                and isinstance(kv.func.value, ast.Constant) and kv.func.value.value == "/" and len(kv.args) == 1 \
                and isinstance(kv.args[0], (ast.Tuple, ast.List)):
            holes = list(kv.args[0].elts)                              # "/".join((op, var))
            tpl = "/".join("⟨%s⟩" % ast.unparse(h) for h in holes)
        ok_key = False
        if tpl is not None and re.fullmatch(r"⟨[^⟩]*⟩/⟨[^⟩]*⟩", tpl) and len(holes) == 2 and len(loops) == 2 and kfi is f:
            outer, inner = loops[-1], loops[0]
            op_name = outer.target.id if isinstance(outer.target, ast.Name) else None
            if op_name is None and isinstance(outer.target, ast.Tuple) and outer.target.elts and isinstance(outer.target.elts[0], ast.Name):
                op_name = outer.target.elts[0].id                      # for op_key, op_data in ....items()
            var_name = inner.target.elts[0].id if isinstance(inner.target, ast.Tuple) and isinstance(inner.target.elts[0], ast.Name) else None
            ok_key = isinstance(holes[0], ast.Name) and holes[0].id == op_name and isinstance(holes[1], ast.Name) and holes[1].id == var_name
            # and var_data is the inner loop's value, taken from the op named by the outer loop
            ok_key = ok_key and isinstance(vd, ast.Name) and isinstance(inner.target, ast.Tuple) and len(inner.target.elts) == 2 \
                and isinstance(inner.target.elts[1], ast.Name) and inner.target.elts[1].id == vd.id
        else:
            # an inexact key match (suffix / prefix / substring / regex search over the keys) lets a parameter meant for one
            # operator's variable land on a same-named variable of another operator
            inexact = [c for c in ast.walk(kv) if isinstance(c, ast.Call) and call_name(c) in
                       ("endswith", "startswith", "find", "search", "match", "fnmatch", "rfind")]
            inexact += [c for c in ast.walk(kv) if isinstance(c, ast.Compare) and isinstance(c.ops[0], (ast.In, ast.NotIn))
                        and isinstance(c.left, ast.Name) and isinstance(c.comparators[0], ast.Name)]
            if inexact:
                ctx.violation(rid, fi, sub, f"the per-unit parameter is looked up by an inexact key match (`{norm(inexact[0])}`) instead of the exact key "
                                            f"'<op>/<var>' of the variable being expanded: a value given for `slow_rate_op/tau` would also be "
                                            f"applied to `rate_op/tau`", label=f"param key: {norm(sub)}")
                continue
            raise AnalysisError(f"{rid}: parameter key `{norm(kv)}` has an unrecognised form")
        if ok_key:
            ctx.ok(rid, fi, sub, "the parameter is looked up under '<op>/<var>' of the variable being expanded", label=f"param key: {norm(sub)}")
        else:
            ctx.violation(rid, fi, sub, f"the parameter key `{tpl}` is not built from the operator and variable whose value is being replaced: "
                                        f"per-unit values would land on another variable", label=f"param key: {norm(sub)}")
    if n_seen < 3:
        raise AnalysisError(f"{rid}: expected per-unit, replicated and default definitions of `{newname}`")
    # shape and node length follow n
    shp = [s for s in cfg.stmts() if isinstance(s, ast.Assign) and len(s.targets) == 1 and isinstance(s.targets[0], ast.Subscript)
           and isinstance(s.targets[0].slice, ast.Constant) and s.targets[0].slice.value == "shape" and ast.dump(s.targets[0].value) == ast.dump(vd)]
    if len(shp) != 1:
        raise AnalysisError(f"{rid}: expected one store of var_data['shape']")
    v = shp[0].value
    good = isinstance(v, ast.Tuple) and len(v.elts) == 1 and (
        self_n(v.elts[0], f) or (isinstance(v.elts[0], ast.Call) and call_name(v.elts[0]) == "len" and len(v.elts[0].args) == 1
                                         and isinstance(v.elts[0].args[0], ast.Name) and v.elts[0].args[0].id == newname))
    if good and cfg.dominates(store, shp[0]) or good and self_n(v.elts[0], f):
        ctx.ok(rid, f, shp[0], "the shape is the length of the expanded value", nontrivial=False)
    else:
        ctx.violation(rid, f, shp[0], f"the shape `{norm(v)}` is not (len(new value),) / (self.n,): shape and value of the population variable disagree")
    ln = [s for s in cfg.stmts() if isinstance(s, ast.Assign) and len(s.targets) == 1 and isinstance(s.targets[0], ast.Attribute)
          and s.targets[0].attr == "length"]
    if len(ln) != 1:
        raise AnalysisError(f"{rid}: expected one store of vec_node.length")
    if self_n(ln[0].value, f):
        ctx.ok(rid, f, ln[0], "the vectorized node's length is self.n", nontrivial=False)
    elif undecided(ln[0].value, f):
        raise AnalysisError(f"{rid}: cannot trace the node length `{norm(ln[0].value)}` to one value (unrecognised form)")
    else:
        ctx.violation(rid, f, ln[0], f"the vectorized node's length is `{norm(ln[0].value)}`, not self.n")
    # self.n is the constructor's n
    init = get_method(ctx, cls, "__init__")
    ns = [s for s in walk_shallow(init.node) if isinstance(s, ast.Assign) and any(is_attr_of(t, init.self_name, "n") for t in s.targets)]
    if len(ns) != 1:
        raise AnalysisError(f"{rid}: PopulationTemplate.__init__ no longer stores self.n exactly once")
    if isinstance(ns[0].value, ast.Name) and ns[0].value.id == "n" and "n" in init.params:
        ctx.ok(rid, init, ns[0], "self.n is the constructor argument n", nontrivial=False)
    else:
        ctx.violation(rid, init, ns[0], f"self.n is `{norm(ns[0].value)}`, not the constructor argument n")


def _ancestors(n):
    p = parent(n)
    while p is not None:
        yield p
        p = parent(p)


# ------------------------------------------------------------------------------------------------
# R4 collision test (D-9) and forwarding of populations/connections (D-12)
# ------------------------------------------------------------------------------------------------

def _mentions_variables_of(e, base_name, ctx, f, depth=0):
    """does `e` read <base_name>['variables'] / <base_name>.get('variables', ...) (inlining single-definition names)?"""
    for n in ast.walk(e):
        if isinstance(n, ast.Subscript) and isinstance(n.value, ast.Name) and n.value.id == base_name \
                and isinstance(n.slice, ast.Constant) and n.slice.value == "variables":
            return True
        if isinstance(n, ast.Call) and call_name(n) == "get" and isinstance(n.func, ast.Attribute) and isinstance(n.func.value, ast.Name) \
                and n.func.value.id == base_name and n.args and isinstance(n.args[0], ast.Constant) and n.args[0].value == "variables":
            return True
        if isinstance(n, ast.Name) and isinstance(n.ctx, ast.Load) and depth < 4 and n.id != base_name:
            v = single_def_value(ctx, f, n)
            if v is not None and _mentions_variables_of(v, base_name, ctx, f, depth + 1):
                return True
    return False


def _mentions_name(e, name, ctx, f, depth=0):
    for n in ast.walk(e):
        if isinstance(n, ast.Name) and isinstance(n.ctx, ast.Load):
            if n.id == name:
                return True
            if depth < 4:
                v = single_def_value(ctx, f, n)
                if v is not None and _mentions_name(v, name, ctx, f, depth + 1):
                    return True
    return False


def _is_intersection(e, ctx, f, depth=0):
    for n in ast.walk(e):
        if isinstance(n, ast.BinOp) and isinstance(n.op, ast.BitAnd):
            return True
        if isinstance(n, ast.Call) and call_name(n) in ("intersection", "any"):
            return True
        if isinstance(n, ast.Name) and isinstance(n.ctx, ast.Load) and depth < 4:
            v = single_def_value(ctx, f, n)
            if v is not None and _is_intersection(v, ctx, f, depth + 1):
                return True
    return False


def collision_sites(ctx, rid, cls_rel=IR, cls_name="NetworkGraph", only=None):
    """Variable-injection sites `op['variables'].update(generated)` and their raising collision tests.  The recogniser is the one
    of C05-R2 (rules/c05.py: enumerated collision-test idioms - set intersection, any(k in A ...), isdisjoint, loop with raise,
    renaming loop - plus "the tested dict is not changed between test and use"), restricted to the named methods."""
    from .c05 import analysed_sites
    # a site belongs to a named method when it sits in that method or in a private helper the method (transitively) calls
    owner = {}
    if only:
        cls = ctx.repo.get_class(cls_rel, cls_name)
        for nm in only:
            for _, g in _helper_closure(ctx, get_method(ctx, cls, nm), spliced=False):
                owner.setdefault(g.qual, set()).add(nm)
    covered = set()
    n = 0
    for s_ in analysed_sites(ctx):
        if s_.kind != "variables" or s_.f.cls is None or s_.f.cls.name != cls_name:
            continue
        if only and s_.f.qual not in owner:
            continue
        for nm in owner.get(s_.f.qual, ()):
            if nm not in covered:
                covered.add(nm)
                n += 1
        if not only:
            n += 1
        facts = {"into": f"{s_.op_name}['variables']", "guard": norm(s_.guard) if s_.guard is not None else None}
        if s_.guard is not None:
            ctx.ok(rid, s_.f, s_.stmt, "the update is dominated by a collision test between the existing and the generated names that raises", facts)
        else:
            ctx.violation(rid, s_.f, s_.stmt, f"generated variable names are written into {s_.op_name}['variables'] "
                                              + (s_.problem or "without a dominating collision test that raises") +
                                              ": a variable the operator already declares under one of these names is silently overwritten", facts)
    return n


def r4_collision_and_forwarding(ctx, rid):
    n = collision_sites(ctx, rid, only=("_add_matrix_delay", "_add_edge_buffer"))
    if n < 2:
        raise AnalysisError(f"{rid}: expected the variable-injection sites of _add_matrix_delay and _add_edge_buffer, found {n}")
    # ---- D-12: update_template forwards every constructor parameter ---------------------------------------------------
    cls = ctx.repo.get_class(FE, "CircuitTemplate")
    init = get_method(ctx, cls, "__init__")
    upd = get_method(ctx, cls, "update_template")
    a = init.node.args
    if a.vararg or a.kwarg:
        raise AnalysisError(f"{rid}: CircuitTemplate.__init__ takes *args/**kwargs (unrecognised form)")
    pnames = [p for p in init.params if p != init.self_name]
    selfn = upd.self_name
    ctor = [c for c in walk_shallow(upd.node) if isinstance(c, ast.Call) and (
        (isinstance(c.func, ast.Attribute) and c.func.attr == "__class__" and isinstance(c.func.value, ast.Name) and c.func.value.id == selfn)
        or (isinstance(c.func, ast.Name) and c.func.id == cls.name)
        or (isinstance(c.func, ast.Call) and call_name(c.func) == "type"))]
    if len(ctor) != 1:
        raise AnalysisError(f"{rid}: expected one constructor call in CircuitTemplate.update_template, found {len(ctor)}")
    call = ctor[0]
    if any(isinstance(x, ast.Starred) for x in call.args) or any(k.arg is None for k in call.keywords):
        raise AnalysisError(f"{rid}: constructor call in update_template uses */** forwarding (unrecognised form)")
    passed = {}
    for i, x in enumerate(call.args):
        if i < len(pnames):
            passed[pnames[i]] = x
    for k in call.keywords:
        passed[k.arg] = k.value
    cfg = ctx.cfg(upd)
    rd = ctx.rd(upd)
    call_st = stmt_of(cfg, call)

    def reads_self(e):
        return any(is_attr_of(x, selfn) for x in ast.walk(e))

    def is_blank(e):
        return isinstance(e, ast.Constant) or (isinstance(e, (ast.Dict, ast.List, ast.Tuple)) and not ast.dump(e).count("Constant")
                                               and not any(isinstance(x, (ast.Name, ast.Attribute)) for x in ast.walk(e)))

    def sources(e, depth=0):
        """The expressions the forwarded value may be on reaching the constructor call: single names are followed through all their
        reaching definitions (`new_x = update(self.x, x) if x else self.x`, `x = x or self.x`, if/else re-binding of the argument)."""
        if isinstance(e, ast.Name) and depth < 4:
            defs = rd.defs_reaching(e) if depth == 0 else rd.defs_reaching_at(call_st, e.id)
            out = []
            for d in defs:
                if isinstance(d, ast.arguments):
                    out.append(("param", e.id))
                    continue
                v = None
                if isinstance(d, (ast.Assign, ast.AnnAssign)):
                    from engine.dataflow import assigned_value
                    v = assigned_value(d, e.id)
                if v is None:
                    raise AnalysisError(f"{rid}: unrecognised definition `{norm(d)}` of `{e.id}` in update_template")
                if isinstance(v, ast.Name) and v.id != e.id:
                    out += sources(v, depth + 1)
                else:
                    out.append(("expr", v))
            return out
        return [("expr", e)]

    for p in pnames:
        label = f"forward {p}"
        if p not in passed:
            ctx.violation(rid, upd, call, f"update_template builds the derived template without `{p}`: the derived circuit silently loses its {p} "
                                          f"(a population circuit compiles to single nodes without its connectivity)", {"forwarded": sorted(passed)}, label=label)
            continue
        v = passed[p]
        if is_blank(v):
            ctx.violation(rid, upd, call, f"`{p}` is passed the constant `{norm(v)}`: the derived template loses the base template's {p}", label=label)
            continue
        if is_attr_of(v, selfn, p):
            ctx.ok(rid, upd, call, f"`{p}` is forwarded ({norm(v)})", label=label, nontrivial=False)
            continue
        srcs = sources(v)
        vals = ["param" if k == "param" else norm(x) for k, x in srcs]
        exprs = [x for k, x in srcs if k == "expr"]
        from_param = any(k == "param" and x == p for k, x in srcs) or any(isinstance(n, ast.Name) and n.id == p and p in upd.params
                                                                         for x in exprs for n in ast.walk(x))
        falls_back = any(reads_self(x) for x in exprs)
        if not from_param and not falls_back:
            if exprs and all(is_blank(x) for x in exprs):
                ctx.violation(rid, upd, call, f"`{p}` is passed `{norm(v)}`, which is always the constant {vals}: the derived template loses the base "
                                              f"template's {p}", {"definitions": vals}, label=label)
                continue
            raise AnalysisError(f"{rid}: `{p}={norm(v)}` in update_template is neither the updated local nor self.{p} (unrecognised form)")
        ctx.ok(rid, upd, call, f"`{p}` is forwarded ({norm(v)})", {"definitions": vals}, label=label, nontrivial=False)
        # the value handed over derives from self.<p> when no update was given
        if not isinstance(v, ast.Name):
            if not falls_back:
                raise AnalysisError(f"{rid}: `{p}={norm(v)}` in update_template does not read the base template (unrecognised form)")
            continue
        if falls_back:
            ctx.ok(rid, upd, call, f"`{p}` falls back to the base template's value when no update is given", {"definitions": vals},
                   label=f"fallback {p}", nontrivial=False)
        else:
            ctx.violation(rid, upd, call, f"`{p}` is forwarded as given and never falls back to the base template's value: deriving without naming "
                                          f"`{p}` drops it", {"definitions": vals}, label=f"fallback {p}")


# ------------------------------------------------------------------------------------------------
# R5 source records of an in-edge operator name the source variable (producer / consumer agreement)
# ------------------------------------------------------------------------------------------------

def _helper_closure(ctx, f0, depth=3, spliced=True):
    """f0 and the private helpers it (transitively) calls, each as its inlined view: [(view, original)].  With spliced=False the
    calls are read off the original bodies, so helpers that the view splices in are members too."""
    members, todo = [f0], [(f0, 0)]
    while todo:
        fx, dpt = todo.pop()
        if dpt >= depth:
            continue
        src = R.view(ctx, fx) if spliced else fx
        for c in walk_shallow(src.node):
            if isinstance(c, ast.Call):
                g = R.private_helper(ctx, src, c)
                if g is not None and all(g.qual != m.qual for m in members):
                    members.append(g)
                    todo.append((g, dpt + 1))
    return [(R.view(ctx, m), m) for m in members]


def _record_keys(ctx, fv, e):
    """key set of a record expression: a dict display, dict(k=v, ...), or a local bound once to one of these; None if unknown"""
    e = _inline1(ctx, fv, e)
    if isinstance(e, ast.Dict):
        if all(isinstance(k, ast.Constant) and isinstance(k.value, str) for k in e.keys):
            return [k.value for k in e.keys]
        return None
    if isinstance(e, ast.Call) and isinstance(e.func, ast.Name) and e.func.id == "dict" and not e.args and all(k.arg for k in e.keywords):
        return [k.arg for k in e.keywords]
    return None


def _consumer_reads(ctx, rid):
    """(consumer view, loop, record name, {key: [read nodes]}) - the keys CircuitIR._collect_ops reads from each input record"""
    cls = ctx.repo.get_class(IR, "CircuitIR")
    cons = R.view(ctx, get_method(ctx, cls, "_collect_ops"))
    loops = [l for l in walk_shallow(cons.node) if isinstance(l, ast.For) and isinstance(l.iter, ast.Call) and call_name(l.iter) in ("items", "values")
             and any(isinstance(x, ast.Constant) and x.value == "inputs" for x in ast.walk(_inline1(ctx, cons, l.iter.func.value)
                                                                                           if isinstance(l.iter.func, ast.Attribute) else l.iter))]
    if len(loops) != 1:
        raise AnalysisError(f"{rid}: expected one loop over the operator's input records in CircuitIR._collect_ops, found {len(loops)}")
    loop = loops[0]
    tg = loop.target
    rec = tg.elts[-1] if isinstance(tg, ast.Tuple) else tg
    if not isinstance(rec, ast.Name):
        raise AnalysisError(f"{rid}: unrecognised loop header `{norm(loop)}` in CircuitIR._collect_ops")
    reads = {}
    for n in walk_shallow(loop):
        key = None
        if isinstance(n, ast.Subscript) and isinstance(n.value, ast.Name) and n.value.id == rec.id and isinstance(n.slice, ast.Constant):
            key = n.slice.value
        elif isinstance(n, ast.Call) and call_name(n) in ("pop", "get") and isinstance(n.func, ast.Attribute) and isinstance(n.func.value, ast.Name) \
                and n.func.value.id == rec.id and n.args and isinstance(n.args[0], ast.Constant):
            key = n.args[0].value
        elif isinstance(n, ast.Compare) and len(n.ops) == 1 and isinstance(n.ops[0], (ast.In, ast.NotIn)) and isinstance(n.left, ast.Constant) \
                and isinstance(n.comparators[0], ast.Name) and n.comparators[0].id == rec.id:
            key = n.left.value
        if isinstance(key, str):
            reads.setdefault(key, []).append(n)
    return cons, loop, rec.id, reads


def r5_source_records(ctx, rid):
    """Producer/consumer agreement on the source records of a generated in-edge operator.  The edge-equation generator files one
    record per source under the operator's `inputs`; CircuitIR._collect_ops reads 'sources', 'node' and 'var' from it and, when 'var'
    is missing, silently substitutes the declared *output* of the source operator.  That fallback is meant for intra-node operator
    inputs; a record that points at another node's operator must therefore name its variable, or the edge reads whatever the source
    operator currently declares as output (another state variable, or the delayed copy installed for a sibling edge)."""
    cons, loop, recname, reads = _consumer_reads(ctx, rid)
    need = [k for k in ("sources", "node", "var") if k in reads]
    if "var" not in reads:
        ctx.violation(rid, cons, loop, "CircuitIR._collect_ops never reads the 'var' entry of an input record: every edge would read the declared "
                                       "output of its source operator instead of the variable the edge names", label="consumer reads the source variable")
    else:
        # the variable read from the record must become the variable part of the looked-up key <node>/<op>/<var>
        var_reads = reads["var"]
        holders = set()
        for s in walk_shallow(loop):
            if isinstance(s, ast.Assign) and any(any(x is r for x in ast.walk(s.value)) for r in var_reads):
                holders |= {t.id for t in s.targets if isinstance(t, ast.Name)}
        keys = [n for n in walk_shallow(loop) if isinstance(n, ast.JoinedStr) and re.fullmatch(r"⟨[^⟩]*⟩/⟨[^⟩]*⟩/⟨[^⟩]*⟩", fstring_template(n) or "")]
        used = False
        for k in keys:
            h = fstring_holes(k)[2]
            seen, todo = set(), [h]
            while todo and not used:
                e = todo.pop()
                for x in ast.walk(e):
                    if any(x is r for r in var_reads) or (isinstance(x, ast.Name) and x.id in holders):
                        used = True
                    elif isinstance(x, ast.Name) and isinstance(x.ctx, ast.Load) and x.id not in seen and getattr(x, "_parent", None) is not None:
                        seen.add(x.id)
                        for d in ctx.rd(cons).defs_reaching(x):
                            from engine.dataflow import assigned_value
                            v = assigned_value(d, x.id) if isinstance(d, (ast.Assign, ast.AnnAssign)) else None
                            if v is not None:
                                todo.append(v)
        if not keys:
            raise AnalysisError(f"{rid}: the '<node>/<op>/<var>' lookup key of an input was not found in CircuitIR._collect_ops (unrecognised form)")
        if used:
            ctx.ok(rid, cons, loop, "the consumer takes the variable part of '<node>/<op>/<var>' from the record's 'var' entry when it is present "
                                    "(declared operator output only as fallback)", {"keys_read": sorted(reads)}, label="consumer reads the source variable")
        else:
            ctx.violation(rid, cons, loop, "the record's 'var' entry is read but does not reach the variable part of the looked-up key "
                                           "'<node>/<op>/<var>': the edge would read the source operator's declared output",
                          {"keys_read": sorted(reads)}, label="consumer reads the source variable")
    # ---- producer: every record stored under the in-edge operator's inputs ---------------------------------------------------
    f0 = ctx.repo.get_func(IR, "NetworkGraph._generate_edge_equation")
    members = _helper_closure(ctx, f0)
    sites = []                                   # (view, dict name) handed to add_op(..., inputs=<name>)
    for fv, fo in members:
        for c in walk_shallow(fv.node):
            if isinstance(c, ast.Call) and call_name(c) == "add_op":
                for k in c.keywords:
                    if k.arg == "inputs":
                        if not isinstance(k.value, ast.Name):
                            raise AnalysisError(f"{rid}: `{norm(c)}`: the inputs of the in-edge operator are not a named dict (unrecognised form)")
                        sites.append((fv, k.value.id))
    if len(sites) != 1:
        raise AnalysisError(f"{rid}: expected one add_op(..., inputs=...) call creating the in-edge operator, found {len(sites)}")
    # the same dict object under the names it has in the helpers it is handed to / received from
    comp = {(sites[0][0].qual, sites[0][1])}
    changed = True
    while changed:
        changed = False
        for fv, fo in members:
            for c in walk_shallow(fv.node):
                if not isinstance(c, ast.Call):
                    continue
                g = R.private_helper(ctx, fv, c)
                binding = R.bind_args(c, g) if g is not None else None
                if not binding:
                    continue
                for p, a in binding.items():
                    if isinstance(a, ast.Name):
                        x, y = (fv.qual, a.id), (g.qual, p)
                        if (x in comp) != (y in comp):
                            comp |= {x, y}
                            changed = True
    n_rec = 0
    for fv, fo in members:
        names = {nm for q, nm in comp if q == fv.qual}
        for s in sorted((x for x in walk_shallow(fv.node) if isinstance(x, ast.stmt)), key=lambda x: (x.lineno, x.col_offset)):
            if isinstance(s, ast.Expr) and isinstance(s.value, ast.Call) and isinstance(s.value.func, ast.Attribute) \
                    and isinstance(s.value.func.value, ast.Name) and s.value.func.value.id in names and s.value.func.attr in ("update", "setdefault"):
                raise AnalysisError(f"{rid}: `{norm(s)}` fills the in-edge operator's inputs in an unrecognised form")
            if not (isinstance(s, ast.Assign) and len(s.targets) == 1 and isinstance(s.targets[0], ast.Subscript)
                    and isinstance(s.targets[0].value, ast.Name) and s.targets[0].value.id in names):
                continue
            keys = _record_keys(ctx, fv, s.value)
            if keys is None:
                raise AnalysisError(f"{rid}: cannot read the keys of the source record `{norm(s)}` in {fv.qual} (unrecognised form)")
            n_rec += 1
            missing = [k for k in need if k not in keys]
            label = _uniq(ctx, rid, fv, f"source record: {norm(s.targets[0])}")
            facts = {"record_keys": keys, "consumer_reads": sorted(reads)}
            if not missing:
                ctx.ok(rid, fv, s, f"the source record names {need} - the consumer never has to guess the variable", facts, label=label)
            elif missing == ["var"] or "var" in missing:
                ctx.violation(rid, fv, s, f"the source record `{norm(s.value)}` of the in-edge operator does not name the source variable ('var'): "
                                          f"CircuitIR._collect_ops falls back to the declared output of the source operator, so the edge is "
                                          f"computed on another variable whenever the named source is not that output (or a delayed sibling edge "
                                          f"re-pointed it)", facts, label=label)
            else:
                ctx.violation(rid, fv, s, f"the source record `{norm(s.value)}` lacks {missing}, which CircuitIR._collect_ops reads: the source would be "
                                          f"looked up on the target node", facts, label=label)
    if n_rec < 2:
        raise AnalysisError(f"{rid}: only {n_rec} source records found for the in-edge operator (the records dict is no longer followed)")


# ------------------------------------------------------------------------------------------------
# R6 per-connection / per-population state does not leak into the next element (shared lint stale_loop_carry)
# ------------------------------------------------------------------------------------------------

_R6_CONTROL = '''
def positive(self, labels):
    edges = []
    edge_ir = None
    for conn in self.connections:
        target = labels[conn.target]
        if conn.edge is not None:
            edge_ir = conn.edge.apply(values={})
        edges.append((conn.source, target, {'edge_ir': edge_ir}))
    return edges


def negative(self, labels):
    edges = []
    for conn in self.connections:
        edge_ir = None
        target = labels[conn.target]
        if conn.edge is not None:
            edge_ir = conn.edge.apply(values={})
        edges.append((conn.source, target, {'edge_ir': edge_ir}))
    return edges
'''


def r6_no_state_carried_between_connections(ctx, rid):
    """Each Connectivity / PopulationTemplate is compiled on its own: the explicit network it stands for has one independent set of
    edges per connection.  A local that is bound only under a condition of the current connection (its coupling edge, its delay, its
    variable map), read outside that condition and reset only in front of the loop hands the previous connection's value to a
    connection that does not have one - the population circuit then differs from the explicit node-and-edge network.  Decided by the
    shared lint `stale_loop_carry` over every method of CircuitTemplate that loops over self.connections / self.populations; a
    synthetic positive and negative control run with it."""
    from ._pitfall_lints import stale_loop_carry
    from engine.srcmodel import FunctionInfo, set_parents
    fe = ctx.repo.get_module(FE)
    tree = ast.parse(_R6_CONTROL)
    set_parents(tree)
    ctrl = {fn.name: FunctionInfo(name=fn.name, qualname=f"<C16-R6 control>.{fn.name}", module=fe, node=fn) for fn in tree.body
            if isinstance(fn, ast.FunctionDef)}
    pos, neg = stale_loop_carry(ctx, [ctrl["positive"]]), stale_loop_carry(ctx, [ctrl["negative"]])
    if len(pos) != 1 or neg:
        raise AnalysisError(f"{rid}: the stale-loop-carry lint failed its controls (positive {len(pos)}, negative {len(neg)})")
    cls = ctx.repo.get_class(FE, "CircuitTemplate")
    funcs = []
    for m in cls.methods.values():
        selfn = m.self_name
        loops = [l for l in walk_shallow(m.node) if isinstance(l, ast.For)
                 and any(is_attr_of(x, selfn or "", "connections") or is_attr_of(x, selfn or "", "populations") for x in ast.walk(l.iter))]
        if loops:
            funcs.append((m, loops))
    if not any(any(is_attr_of(x, m.self_name or "", "connections") for l in loops for x in ast.walk(l.iter)) for m, loops in funcs):
        raise AnalysisError(f"{rid}: no method of CircuitTemplate loops over self.connections any more (anchor vanished)")
    for m, loops in funcs:
        hits = stale_loop_carry(ctx, [m])
        # the helpers the loop body was split into are read as part of the method
        mv = R.view(ctx, m)
        if mv is not m and getattr(mv, "inlined_helpers", None):
            seen = {norm(h[1]) for h in hits}
            hits += [h for h in stale_loop_carry(ctx, [mv]) if norm(h[1]) not in seen]
        for _, node, why in hits:
            ctx.violation(rid, m, node, f"{why}: a connection/population without this attribute is compiled with the one of an earlier "
                                        f"connection, unlike the explicit network", label=f"carried between elements: {norm(node)}")
        if not hits:
            ctx.ok(rid, m, loops[0], f"no local of the {len(loops)} loop(s) over connections/populations is carried from one element to the next "
                                     f"under a condition (controls: positive matched, negative silent)", label="no state carried between connections/populations")


# ------------------------------------------------------------------------------------------------
# R7 every input term emitted for one edge group is registered in the list the target sum is joined from
# ------------------------------------------------------------------------------------------------

def _grows(st, name):
    """statement st grows the list `name`: name.append(..) / name.extend(..) / name.insert(..) / name += [..] / name = name + [..]"""
    if isinstance(st, ast.Expr) and isinstance(st.value, ast.Call) and isinstance(st.value.func, ast.Attribute) \
            and st.value.func.attr in ("append", "extend", "insert") and isinstance(st.value.func.value, ast.Name) and st.value.func.value.id == name:
        return True
    if isinstance(st, ast.AugAssign) and isinstance(st.op, ast.Add) and isinstance(st.target, ast.Name) and st.target.id == name:
        return True
    if isinstance(st, ast.Assign) and len(st.targets) == 1 and isinstance(st.targets[0], ast.Name) and st.targets[0].id == name \
            and isinstance(st.value, ast.BinOp) and isinstance(st.value.op, ast.Add) and isinstance(st.value.left, ast.Name) and st.value.left.id == name:
        return True
    return False


def r7_emitted_terms_are_summed(ctx, rid):
    """When several edge groups project to one target variable, NetworkGraph._generate_edge_equation emits one input term per group
    (`<t>_in<i> = ...`) into the operator's equation list and finally `<t> = '+'.join(<terms>)`.  The target therefore receives exactly
    the groups whose term was registered in the joined list.  Necessary condition, on the control-flow graph of the per-group loop body:
    every path through one iteration that adds an equation to the equation list also adds to the joined list before the iteration ends
    (fall-through, `continue` or `break`).  A path that emits but leaves early - e.g. a shortcut branch ending in `continue` - silently
    drops that group's input from the sum (the population circuit then lacks a connection the explicit network has)."""
    f_orig = ctx.repo.get_func(IR, "NetworkGraph._generate_edge_equation")
    f = R.view(ctx, f_orig)
    cfg = ctx.cfg(f)
    # J: the list the sum is joined from;  Q: the equation list that receives the joined sum
    joins = [c for c in ast.walk(f.node) if isinstance(c, ast.Call) and call_name(c) == "join" and isinstance(c.func, ast.Attribute)
             and isinstance(c.func.value, ast.Constant) and isinstance(c.func.value.value, str) and "+" in c.func.value.value and len(c.args) == 1]
    if len(joins) != 1:
        raise AnalysisError(f"{rid}: expected one '+'.join(<input terms>) in {f.qual}, found {len(joins)} (anchor vanished)")
    jarg = joins[0].args[0]
    if not isinstance(jarg, ast.Name):
        raise AnalysisError(f"{rid}: the joined terms `{norm(jarg)}` are not a named list (unrecognised form)")
    J = jarg.id
    jst = stmt_of(cfg, joins[0])
    Q = None
    if isinstance(jst, ast.Expr) and isinstance(jst.value, ast.Call) and isinstance(jst.value.func, ast.Attribute) \
            and jst.value.func.attr in ("append", "extend", "insert") and isinstance(jst.value.func.value, ast.Name):
        Q = jst.value.func.value.id
    elif isinstance(jst, ast.Assign) and len(jst.targets) == 1 and isinstance(jst.targets[0], ast.Name):
        tmp = jst.targets[0].id                      # eq = f"{t} = {'+'.join(terms)}"; eqs.append(eq)
        for st in cfg.stmts():
            if isinstance(st, ast.Expr) and isinstance(st.value, ast.Call) and isinstance(st.value.func, ast.Attribute) \
                    and st.value.func.attr in ("append", "extend") and isinstance(st.value.func.value, ast.Name) \
                    and any(isinstance(x, ast.Name) and x.id == tmp for a in st.value.args for x in ast.walk(a)) and cfg.dominates(jst, st):
                Q = st.value.func.value.id
    if Q is None:
        raise AnalysisError(f"{rid}: cannot find the equation list that receives `{norm(jst)}` (unrecognised form)")
    if Q == J:
        raise AnalysisError(f"{rid}: the joined list and the equation list are the same object `{Q}` (unrecognised form)")
    jg = [st for st in cfg.stmts() if _grows(st, J)]
    if not jg:
        raise AnalysisError(f"{rid}: the joined list `{J}` is never grown in {f.qual} (unrecognised form)")
    loops = []
    for st in jg:
        ls = [a for a in _ancestors(st) if isinstance(a, (ast.For, ast.While))]
        if not ls:
            raise AnalysisError(f"{rid}: `{norm(st)}` grows the joined list outside the per-edge-group loop (unrecognised form)")
        if all(ls[-1] is not l for l in loops):
            loops.append(ls[-1])
    if len(loops) != 1:
        raise AnalysisError(f"{rid}: the joined list `{J}` is grown in {len(loops)} different loops (unrecognised form)")
    loop = loops[0]
    if contains(loop, jst):
        raise AnalysisError(f"{rid}: the sum `{norm(jst)}` is emitted inside the loop that collects its terms (unrecognised form)")
    qg = sorted((st for st in cfg.stmts() if _grows(st, Q) and in_loop_body(loop, st)), key=lambda x: (x.lineno, x.col_offset))
    if not qg:
        raise AnalysisError(f"{rid}: no equation is emitted inside the per-edge-group loop of {f.qual} (anchor vanished)")

    def is_j(n):
        return isinstance(n, ast.stmt) and _grows(n, J)

    def leaves_unregistered(start):
        """a path from `start` to the end of this iteration (back to the loop header, or out of the loop) that never grows J"""
        seen, stack = {id(start)}, [(start, [start])]
        while stack:
            n, path = stack.pop()
            for x in cfg.g.successors(n):
                if x is cfg.RAISE:
                    continue                                   # an exception aborts the compilation: nothing is summed at all
                if x is loop or not (isinstance(x, ast.AST) and contains(loop, x)):
                    return path + [x]
                if id(x) in seen or is_j(x):
                    continue
                seen.add(id(x))
                stack.append((x, path + [x]))
        return None

    def reaches_unregistered(goal):
        """a path from the loop header into `goal` within one iteration that never grows J"""
        seen, stack = {id(loop)}, [(loop, [loop])]
        while stack:
            n, path = stack.pop()
            for x in cfg.g.successors(n):
                if x is goal:
                    return path + [x]
                if not (isinstance(x, ast.AST) and contains(loop, x)) or x is loop or id(x) in seen or is_j(x):
                    continue
                seen.add(id(x))
                stack.append((x, path + [x]))
        return None

    for st in qg:
        label = _uniq(ctx, rid, f, f"term registered: {norm(st)[:90]}")
        out = leaves_unregistered(st) if not is_j(st) else None
        back = reaches_unregistered(st) if out is not None else None
        facts = {"equation_list": Q, "joined_list": J, "loop": norm(loop)[:80]}
        if out is not None and back is not None:
            facts["witness"] = cfg.path_str(back[:-1] + out)
            ctx.violation(rid, f, st, f"`{norm(st)[:90]}` emits an input term, but the iteration can end ({cfg.path_str(out)}) without "
                                      f"`{J}` having been extended: the term is missing from `{norm(jst)[:70]}`, so this edge group's input never "
                                      f"reaches the target variable when several groups project to it", facts, label=label)
        else:
            ctx.ok(rid, f, st, f"every iteration that emits this equation also registers its term in `{J}` before it ends", facts, label=label)


def in_loop_body(loop, node):
    return any(contains(b, node) for b in loop.body)


# ------------------------------------------------------------------------------------------------
# R8 entries of a weight matrix are located on the non-zero mask, not by the extremum of the signed values
# ------------------------------------------------------------------------------------------------

_R8_CONTROL = '''
def positive(weight):
    cols = weight.argmax(axis=1)
    return cols, weight[np.arange(weight.shape[0]), cols]


def negative(weight):
    cols = (weight != 0).argmax(axis=1)
    return cols, weight[np.arange(weight.shape[0]), cols]


def negative_abs(weight):
    cols = np.argmax(np.abs(weight), axis=1)
    return cols, weight[np.arange(weight.shape[0]), cols]
'''

_ARG_EXTREMA = ("argmax", "argmin", "nanargmax", "nanargmin")


def _signed_weight_searches(ctx, f, proles=None, depth=0):
    """[(call, operand)] - argmax/argmin taken directly over an array with the weight role (its signed entries)"""
    roles = Roles(ctx, f, proles, depth)
    out = []
    for c in walk_shallow(f.node):
        if not (isinstance(c, ast.Call) and call_name(c) in _ARG_EXTREMA):
            continue
        fn = c.func
        if isinstance(fn, ast.Attribute) and not (isinstance(fn.value, ast.Name) and fn.value.id in R.MODULE_ALIASES):
            operand = fn.value
        elif c.args:
            operand = c.args[0]
        else:
            continue
        e = operand
        masked = False
        for _ in range(4):
            if isinstance(e, (ast.Compare, ast.BoolOp)) or (isinstance(e, ast.UnaryOp) and isinstance(e.op, (ast.Invert, ast.Not))):
                masked = True
                break
            if isinstance(e, ast.Call) and call_name(e) in ("abs", "absolute", "fabs", "isclose", "nonzero", "logical_not", "logical_and", "logical_or",
                                                             "astype", "square", "sign"):
                masked = call_name(e) != "sign"
                break
            if isinstance(e, ast.Name) and getattr(e, "_parent", None) is not None:
                v = single_def_value(ctx, f, e)
                if v is None:
                    break
                e = v
                continue
            break
        if masked:
            continue
        if roles.atom(operand) == WGT:
            out.append((c, operand))
    return out


def r8_entries_located_on_mask(ctx, rid):
    """A (targets x sources) weight matrix may be replaced by a cheaper form (gather, per-row weight vector) when each row has a single
    non-zero entry.  The explicit network has an edge wherever the entry is non-zero, whatever its sign: the column of that entry must
    be found on the non-zero mask (`w != 0`, `abs(w)`, nonzero/where).  argmax / argmin of the signed values returns column 0 of an
    all-non-positive (resp. non-negative) row - an inhibitory connection is silently dropped or attached to another source."""
    from engine.srcmodel import FunctionInfo, set_parents
    irm = ctx.repo.get_module(IR)
    tree = ast.parse(_R8_CONTROL)
    set_parents(tree)
    ctrl = {fn.name: FunctionInfo(name=fn.name, qualname=f"<C16-R8 control>.{fn.name}", module=irm, node=fn) for fn in tree.body
            if isinstance(fn, ast.FunctionDef)}
    got = {k: len(_signed_weight_searches(ctx, v)) for k, v in ctrl.items()}
    if got != {"positive": 1, "negative": 0, "negative_abs": 0}:
        raise AnalysisError(f"{rid}: the signed-extremum recogniser failed its controls: {got}")
    f0 = ctx.repo.get_func(IR, "NetworkGraph._generate_edge_equation")
    # the generator and its private helpers, each under the roles of the arguments it is called with
    todo, seen, n_funcs, hits = [(f0, None, 0)], set(), 0, []
    while todo:
        fo, proles, dpt = todo.pop()
        key = (fo.qual, tuple(sorted((k, str(v)) for k, v in (proles or {}).items())))
        if key in seen:
            continue
        seen.add(key)
        n_funcs += 1
        fv = R.view(ctx, fo)
        for c, operand in _signed_weight_searches(ctx, fv, proles, dpt):
            hits.append((fv, c, operand))
        if dpt >= 2:
            continue
        roles = Roles(ctx, fv, proles, dpt)
        for c in walk_shallow(fv.node):
            if isinstance(c, ast.Call):
                g = R.private_helper(ctx, fv, c)
                if g is None or g.name in R.VIEW_KEEP:
                    continue
                hr = roles.helper_roles(c)
                todo.append((g, hr[1] if hr is not None else None, dpt + 1))
    for fv, c, operand in hits:
        st = stmt_of(ctx.cfg(fv), c) or c
        ctx.violation(rid, fv, st, f"`{norm(c)}` searches the signed entries of the weight array `{norm(operand)}`: for a row whose only entry is "
                                   f"negative (or zero) it returns a column that carries no connection, so the compiled population circuit drops or "
                                   f"re-routes an inhibitory edge the explicit network has; locate the entry on the mask (`{norm(operand)} != 0`) instead",
                      label=_uniq(ctx, rid, fv, f"entry located by signed extremum: {norm(c)}"))
    if not hits:
        ctx.ok(rid, f0, f0.node, f"no entry of a weight array is located by argmax/argmin of its signed values ({n_funcs} function(s) of the "
                                 f"edge-equation generator scanned; controls: positive matched, negatives silent)",
               label="weight entries located on the non-zero mask")


# ------------------------------------------------------------------------------------------------
# R9 a connection is skipped only when it has no non-zero weight at all (exact test)
# ------------------------------------------------------------------------------------------------

def _zero_test_kind(t, pol, is_w):
    """'exact' / 'tolerance' / None for one literal (t holds with polarity pol) about a weights expression (is_w(expr) -> bool)"""
    def about(e):
        # the weights' VALUES: uses through .ndim / .shape / .size / .dtype say nothing about them
        for x in ast.walk(e):
            if is_w(x) and not (isinstance(getattr(x, "_parent", None), ast.Attribute) and x._parent.attr in ("ndim", "shape", "size", "dtype")):
                return True
        return False
    if not about(t):
        return None
    cn = call_name(t) if isinstance(t, ast.Call) else None
    zero_arg = isinstance(t, ast.Call) and any(isinstance(a, ast.Constant) and a.value == 0 for a in t.args)
    if cn == "allclose" and pol and zero_arg:
        return "tolerance"
    if cn in ("all", "any") and t.args is not None:
        inner = t.args[0] if t.args else (t.func.value if isinstance(t.func, ast.Attribute) else None)
        if isinstance(t.func, ast.Attribute) and not t.args and not (isinstance(t.func.value, ast.Name) and t.func.value.id in R.MODULE_ALIASES):
            inner = t.func.value
        if inner is not None:
            if isinstance(inner, ast.Call) and call_name(inner) == "isclose":
                return "tolerance" if (cn == "all") == pol else None
            if isinstance(inner, ast.Compare) and len(inner.ops) == 1:
                op = inner.ops[0]
                zero = any(isinstance(x, ast.Constant) and x.value == 0 for x in (inner.left, inner.comparators[0]))
                if isinstance(op, (ast.Eq, ast.NotEq)) and zero:
                    return "exact" if ((cn == "all") == isinstance(op, ast.Eq)) == pol else None     # all(w == 0) / not any(w != 0)
                if isinstance(op, (ast.Lt, ast.LtE, ast.Gt, ast.GtE)):
                    return "tolerance"                                                       # all(abs(w) < eps)
            if cn == "any" and not pol and is_w(inner):
                return "exact"                                                               # not np.any(w)
    if isinstance(t, ast.Compare) and len(t.ops) == 1:
        l, op, r = t.left, t.ops[0], t.comparators[0]
        if isinstance(l, ast.Call) and call_name(l) == "count_nonzero" and isinstance(r, ast.Constant) and r.value == 0:
            return "exact" if isinstance(op, ast.Eq) == pol else None
        if isinstance(op, (ast.Lt, ast.LtE, ast.Gt, ast.GtE)) and any(isinstance(x, ast.Call) and call_name(x) in ("abs", "absolute", "max", "norm", "sum")
                                                                        for x in ast.walk(t)):
            return "tolerance"                                                               # abs(w).max() < eps, norm(w) < eps
    return "unknown"


def r9_connections_skipped_only_when_empty(ctx, rid):
    """Every Connectivity with a non-zero weight is an edge set of the explicit network, however small the weights.  A loop over
    self.connections may therefore skip a connection (`continue`) only under an EXACT emptiness test of its weights (not np.any(w),
    count_nonzero(w) == 0, all(w == 0)); a tolerance test (np.allclose(w, 0) with its default atol=1e-8, isclose, abs(w) < eps) drops
    weak but real connections - the population circuit then lacks edges the explicit network has."""
    cls = ctx.repo.get_class(FE, "CircuitTemplate")
    n_guards = 0
    scanned = 0
    for m in cls.methods.values():
        selfn = m.self_name or ""
        fv = m                                  # each method on its own (a view would show a spliced loop twice)
        loops = [l for l in walk_shallow(fv.node) if isinstance(l, ast.For) and any(is_attr_of(x, selfn, "connections") for x in ast.walk(l.iter))]
        if not loops:
            continue
        scanned += 1
        roles = Roles(ctx, fv)
        cfg = ctx.cfg(fv)

        def is_w(e):
            return isinstance(e, (ast.Name, ast.Attribute, ast.Subscript)) and roles.atom(e) == WGT
        for loop in loops:
            for st in walk_shallow(loop):
                if not (isinstance(st, ast.Continue) and in_loop_body(loop, st)):
                    continue
                if any(isinstance(a, (ast.For, ast.While)) and a is not loop and contains(loop, a) for a in _ancestors(st)):
                    continue
                # the tests that decide this `continue`: the if-statements of the loop body it is nested in
                lits = []
                child = st
                for a in _ancestors(st):
                    if a is loop:
                        break
                    if isinstance(a, ast.If):
                        R.split_literals(a.test, any(contains(b, child) for b in a.body), lits)
                    child = a
                kinds = [(t, pol, _zero_test_kind(t, pol, is_w)) for t, pol in lits]
                kinds = [k for k in kinds if k[2] is not None]
                if not kinds:
                    continue
                n_guards += 1
                label = _uniq(ctx, rid, fv, f"connection skipped: {' and '.join(('' if p else 'not ') + norm(t)[:50] for t, p, _ in kinds)}")
                tol = [k for k in kinds if k[2] == "tolerance"]
                if tol:
                    t, pol, _ = tol[0]
                    ctx.violation(rid, fv, st, f"a connection is skipped when `{('' if pol else 'not ') + norm(t)}` holds - a zero test with a tolerance: a "
                                               f"connection whose weights are all small (e.g. 1e-9) but non-zero is dropped, although the explicit "
                                               f"network has these edges; test exactly (not np.any(w))", label=label)
                elif all(k[2] == "exact" for k in kinds):
                    ctx.ok(rid, fv, st, "a connection is skipped only when it has no non-zero weight (exact test)", label=label)
                else:
                    raise AnalysisError(f"{rid}: cannot classify the test under which {fv.qual} skips a connection: "
                                        f"{[norm(t) for t, _, k in kinds if k == 'unknown']}")
    if scanned == 0:
        raise AnalysisError(f"{rid}: no method of CircuitTemplate loops over self.connections (anchor vanished)")
    if n_guards == 0:
        ctx.ok(rid, None, None, f"no loop over self.connections ({scanned} method(s)) skips a connection on account of its weights",
               construct=f"{FE}::CircuitTemplate::connections skipped only when empty", loc=f"{FE}:1", nontrivial=False)


RULES = [
    ("C16-R1", r1_index_roles, 30),
    ("C16-R2", r2_coupling_helpers, 14),
    ("C16-R3", r3_population_params, 6),
    ("C16-R4", r4_collision_and_forwarding, 10),
    ("C16-R5", r5_source_records, 3),
    ("C16-R6", r6_no_state_carried_between_connections, 1),
    ("C16-R7", r7_emitted_terms_are_summed, 3),
    ("C16-R8", r8_entries_located_on_mask, 1),
    ("C16-R9", r9_connections_skipped_only_when_empty, 1),
]
