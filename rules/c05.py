"""C05 — the equation language means what its arithmetic says (DESIGN §4 C05): the clause about names that resemble
compiler-generated names."""
from __future__ import annotations

import ast
import re
from typing import Dict, List, Optional, Set, Tuple

from engine import AnalysisError
from engine.cfg import stmt_of
from engine.dataflow import target_names, assigned_value, stmt_defs
from engine.srcmodel import walk_shallow, norm, parent
from engine.util import call_name, contains, in_body
from ._c01_util import (alias_root, loads, load_ids, read_reserved, key_templates, literal_pieces,
                        dict_key_exprs, template_holes, always_raises)
from .c01 import r4_fresh_name_generator, _bind_args, _view, _plain

PROPERTY = "C05"
IR = "pyrates/ir/circuit.py"

EXPLANATION = (
    "Arithmetic meaning, precedence and sympy's re-ordering are library behaviour and not decided.  Decided: the clause that a "
    "variable whose name resembles a compiler-generated name keeps its meaning.  "
    "R1 (= C01-R4) the compute graph's fresh-name generator never hands out a label that is taken, registers every label, "
    "add_var/add_op key the node with the returned label, and callers that discard the returned label request a reserved name.  "
    "R2 every statement in pyrates/ir/circuit.py that puts compiler-generated names into the namespace of an operator the user "
    "declared — (a) `op['variables'].update(generated)` / `op['variables'][k] = …`, (b) rewriting `op['equations']` by substituting "
    "a generated term (`replace(eq, var, term)`) — is dominated by a collision test between the generated names and the operator's "
    "declared variables that raises (forms: truthiness of a set intersection, any(k in A for k in B), not A.isdisjoint(B), a loop "
    "`for k in B: if k in A: raise`, a `while name in A` renaming loop), the tested dict is not changed between test and use, or "
    "all generated names are reserved by check_vname.  "
    "R3 vocabulary: (A) every name template (f-string) the compiler stores into a dict that R2 found to be injected into a user "
    "operator either contains a sub-string check_vname reserves or is covered by that site's collision test; (B) every name the "
    "compiler invents (no user-chosen part) for the variables of a generated edge operator — whose namespace also holds the "
    "user's source and target variable names — is reserved by check_vname; check_vname is applied to every declared variable and "
    "raises for its two tables (read by structure).  "
    "R4 the constant character collection(s) that the membership tests of parser.replace read (a local string, a module-level "
    "constant, set(...)/frozenset(...) of characters, also inside a private helper the scanner calls) contain every operator "
    "character of the equation grammar, and var_in_expression reads the same set.  "
    "R5 a constant right-hand side is inlined with a round-trip-exact literal.  "
    "R6 parse_equations decides whether an entry `node/op/var` of equation_args belongs to the operator scope `node/op` by "
    "comparing the '/'-separated path components before the last one with the scope's components (list equality, equality of "
    "the '/'-joined head, or a prefix test with the scope extended by the separator); a prefix / sub-string / leading-characters "
    "test on the joined strings is a violation (scope `p/rate` would capture `p/rate_slow/tau`).  "
    "R7 on the way from the parsing function to ComputeGraph.add_op (all functions of backend/parser.py reachable from "
    "ExpressionParser.parse_expr; expression-valued names found by a small type inference) a parsed sympy expression is "
    "transformed only by the enumerated renamings subs / replace / xreplace; a sympy simplifier, normaliser or numeric "
    "evaluation (expand, simplify, factor, cancel, together, nsimplify, powsimp, expand_*, rewrite, evalf, …) applied to it is "
    "a violation, any other expression-returning method an AnalysisError.  "
    "R8 every comparison of two sympy precedence(...) values in pyrates/backend/** that selects between a parenthesised and a "
    "bare string adds the parentheses whenever the inserted text does not bind strictly stronger than the expression it is "
    "inserted into (equal precedence is not associative for **, -, /); synthetic controls run on every check.  "
    "NOT decided: values; names that collide only through equality of two user-chosen names (source variable named like the "
    "target variable of one edge); collisions inside generated operators between two user-derived templates."
)
RULE_TEXT = ("instances = injection statements / name templates found by provenance (which dict is handed to `variables=`, which "
             "keys are stored into it, through one call level); non-trivial = dominance of the raising collision test, "
             "reaching definitions of the key names, comparison with the reserved tables read from check_vname")
ASSUMPTIONS = [
    "check_vname is the only gate for user-declared variable names (OperatorTemplate.apply); names created by the compiler do "
    "not pass through it.",
    "A name template whose literal text contains a reserved sub-string cannot equal a declared variable name.",
]


def _anc(n):
    p = parent(n)
    while p is not None:
        yield p
        p = parent(p)


# ================================================================================================
# R2 generated names never overwrite declared ones
# ================================================================================================

def _is_existing_operator(ctx, f, name_node: ast.Name) -> bool:
    """X in `X['variables']`: bound from a lookup (self[...], node_ir[op], graph[...]) rather than created here."""
    defs = ctx.rd(f).defs_reaching(name_node)
    if not defs:
        return False
    for d in defs:
        v = assigned_value(d, name_node.id)
        if v is None:
            return False
        if isinstance(v, ast.Dict) or (isinstance(v, ast.Call) and call_name(v) in ("dict", "OrderedDict", "defaultdict")):
            return False
    return True


def _op_field(e: ast.AST, field: str) -> Optional[ast.Name]:
    """`X['field']` or `X.get('field', ...)` -> X (a Name)."""
    if isinstance(e, ast.Subscript) and isinstance(e.value, ast.Name) and isinstance(e.slice, ast.Constant) and e.slice.value == field:
        return e.value
    if isinstance(e, ast.Call) and isinstance(e.func, ast.Attribute) and e.func.attr == "get" and isinstance(e.func.value, ast.Name) \
            and e.args and isinstance(e.args[0], ast.Constant) and e.args[0].value == field:
        return e.func.value
    return None


class Site:
    def __init__(self, f, stmt, kind, op_name, carriers: Set[str], what: str, dict_name: Optional[str] = None):
        self.f, self.stmt, self.kind, self.op_name = f, stmt, kind, op_name
        self.carriers = carriers          # local names that carry the generated names
        self.what = what
        self.dict_name = dict_name
        self.guard = None
        self.problem = None


def injection_sites(ctx) -> List[Site]:
    sites: List[Site] = []
    for f in ctx.repo.all_functions([IR]):
        cfg = None
        for st in [n for n in walk_shallow(f.node) if isinstance(n, ast.stmt)]:
            # (a) X['variables'].update(D)
            if isinstance(st, ast.Expr) and isinstance(st.value, ast.Call) and isinstance(st.value.func, ast.Attribute) \
                    and st.value.func.attr in ("update", "setdefault"):
                x = _op_field(st.value.func.value, "variables")
                if x is not None and _is_existing_operator(ctx, f, x) and st.value.args:
                    d = st.value.args[0]
                    if not isinstance(d, ast.Name):
                        raise AnalysisError(f"C05-R2: {f.qual}: `{norm(st)}` injects an expression that is not a local dict name")
                    sites.append(Site(f, st, "variables", x.id, {d.id}, f"`{norm(st)}`", dict_name=d.id))
            # (a') X['variables'][k] = v
            if isinstance(st, ast.Assign):
                for t in st.targets:
                    if isinstance(t, ast.Subscript):
                        x = _op_field(t.value, "variables")
                        if x is not None and _is_existing_operator(ctx, f, x):
                            sites.append(Site(f, st, "variables", x.id, load_ids(t.slice), f"`{norm(st)}`"))
            # (b) X['equations'] = [replace(eq, old, NEW) ...]
            if isinstance(st, (ast.Assign, ast.AugAssign)):
                tgts = st.targets if isinstance(st, ast.Assign) else [st.target]
                for t in tgts:
                    x = _op_field(t, "equations") if isinstance(t, ast.Subscript) else None
                    if x is None or not _is_existing_operator(ctx, f, x):
                        continue
                    subs = [c for c in ast.walk(st.value) if isinstance(c, ast.Call) and call_name(c) in ("replace", "eq_replace", "sub")
                            and len(c.args) >= 3]
                    for c in subs:
                        new = c.args[2]
                        carriers = {n.id for n in loads(new)}
                        # names bound together with the substituted term (same loop target tuple) carry the same generated names
                        for a in _anc(st):
                            if isinstance(a, ast.For) and carriers & set(target_names(a.target)):
                                carriers |= set(target_names(a.target)) - {n.id for n in loads(c.args[1])}
                                carriers |= load_ids(a.iter)
                        sites.append(Site(f, st, "equations", x.id, carriers, f"`{norm(st)}`"))
    return sites


def _resolve(ctx, f, e: ast.AST, depth=0) -> List[ast.AST]:
    """The expression itself plus, for plain names, the values they were assigned (one level per depth)."""
    out = [e]
    if depth < 3:
        for n in loads(e):
            for d in ctx.rd(f).defs_reaching(n):
                v = assigned_value(d, n.id)
                if v is not None:
                    out += _resolve(ctx, f, v, depth + 1)
    return out


def _covers_op_vars(ctx, f, e: ast.AST, op_name: str) -> bool:
    for x in _resolve(ctx, f, e):
        for n in ast.walk(x):
            o = _op_field(n, "variables")
            if o is not None and o.id == op_name:
                return True
    return False


def _op_var_aliases(ctx, f, op_name: str) -> Set[str]:
    """Local names bound to (a copy of) X['variables']."""
    out: Set[str] = set()
    for st in walk_shallow(f.node):
        if isinstance(st, ast.Assign) and len(st.targets) == 1 and isinstance(st.targets[0], ast.Name):
            for n in ast.walk(st.value):
                o = _op_field(n, "variables")
                if o is not None and o.id == op_name:
                    out.add(st.targets[0].id)
    return out


def _mentions(ctx, f, e: ast.AST, names: Set[str]) -> bool:
    return any(load_ids(x) & names for x in _resolve(ctx, f, e))


def _raises(body: List[ast.stmt]) -> bool:
    r = always_raises(body)
    if r is None:
        raise AnalysisError(f"C05: the branch starting with `{norm(body[0])}` raises on some of its paths only (unrecognised)")
    return r


def _collision_form(test: ast.AST) -> bool:
    """Is the (resolved) test one of the enumerated collision-test idioms?"""
    for n in ast.walk(test):
        if isinstance(n, ast.BinOp) and isinstance(n.op, ast.BitAnd):
            return True
        if isinstance(n, ast.Call) and call_name(n) in ("intersection", "isdisjoint"):
            return True
        if isinstance(n, ast.Call) and call_name(n) == "any" and n.args and isinstance(n.args[0], (ast.GeneratorExp, ast.ListComp)) \
                and any(isinstance(c, ast.Compare) and isinstance(c.ops[0], ast.In) for c in ast.walk(n.args[0].elt)):
            return True
        if isinstance(n, ast.Compare) and len(n.ops) == 1 and isinstance(n.ops[0], ast.In):
            return True
    return False


def find_guard(ctx, site: Site):
    """(guard, problem).  guard = dominating statement that raises on a collision; problem = text when a collision test is
    present but ineffective."""
    f, st = site.f, site.stmt
    cfg = ctx.cfg(f)
    aliases = _op_var_aliases(ctx, f, site.op_name)

    def about_both(e) -> bool:
        op_side = _covers_op_vars(ctx, f, e, site.op_name) or _mentions(ctx, f, e, aliases)
        return op_side and _mentions(ctx, f, e, site.carriers)
    weak = None
    for d in cfg.dominators(st):
        if d is st or not isinstance(d, ast.stmt):
            continue
        if isinstance(d, ast.If) and not any(contains(b, st) for b in d.body) and about_both(d.test):
            resolved = _resolve(ctx, f, d.test)
            if not any(_collision_form(x) for x in resolved):
                raise AnalysisError(f"C05-R2: {f.qual}: `{norm(d)}` compares generated names with the operator's variables in an "
                                    f"unrecognised form")
            if _raises(d.body):
                return d, None
            weak = weak or (d, f"the collision test `{norm(d)}` does not raise (its branch ends with `{norm(d.body[-1])}`), so "
                               f"the colliding names are injected anyway")
        if isinstance(d, ast.For) and not in_body(d, st):
            for sub in d.body:
                if isinstance(sub, ast.If) and _raises(sub.body) and isinstance(sub.test, ast.Compare) \
                        and isinstance(sub.test.ops[0], ast.In) and _mentions(ctx, f, d.iter, site.carriers) \
                        and (_covers_op_vars(ctx, f, sub.test, site.op_name) or _mentions(ctx, f, sub.test, aliases)):
                    return d, None
        if isinstance(d, ast.While) and not in_body(d, st) and isinstance(d.test, ast.Compare) and isinstance(d.test.ops[0], ast.In) \
                and about_both(d.test):
            return d, None
    if weak:
        return None, weak[1]
    return None, None


def _mutated_between(ctx, site: Site, guard) -> Optional[ast.stmt]:
    """A statement that changes the injected dict after the guard and before the injection."""
    if site.dict_name is None or guard is None:
        return None
    f, cfg = site.f, ctx.cfg(site.f)
    D = site.dict_name
    for s in cfg.stmts():
        if s is site.stmt or s is guard:
            continue
        mut = False
        if isinstance(s, (ast.Assign, ast.AugAssign)):
            tg = s.targets if isinstance(s, ast.Assign) else [s.target]
            for t in tg:
                if isinstance(t, ast.Subscript) and isinstance(t.value, ast.Name) and t.value.id == D:
                    mut = True
                if isinstance(t, ast.Name) and t.id == D:
                    mut = True
        if isinstance(s, ast.Expr) and isinstance(s.value, ast.Call) and isinstance(s.value.func, ast.Attribute) \
                and isinstance(s.value.func.value, ast.Name) and s.value.func.value.id == D \
                and s.value.func.attr in ("update", "setdefault", "pop", "clear"):
            mut = True
        if mut and cfg.reachable_after(guard, s) and cfg.reachable_after(s, site.stmt) and cfg.dominates(guard, s):
            return s
    return None


def analysed_sites(ctx) -> List[Site]:
    sites = injection_sites(ctx)
    for s in sites:
        s.guard, s.problem = find_guard(ctx, s)
        if s.guard is not None:
            m = _mutated_between(ctx, s, s.guard)
            if m is not None:
                s.problem = f"`{norm(m)}` adds to the injected dict after the collision test `{norm(s.guard)}` was evaluated"
                s.guard = None
    return sites


def _callee_generated_names_reserved(ctx, site: Site, reserved) -> Optional[str]:
    """For an equation rewrite whose term comes from a helper (e.g. _map_multiple_inputs): are all names the helper puts into
    the mapping it returns reserved by check_vname?  Returns a reason string when they are, None otherwise."""
    f = site.f
    helpers = []
    for st in walk_shallow(f.node):
        if isinstance(st, ast.Assign) and isinstance(st.value, ast.Call):
            tnames = set()
            for t in st.targets:
                tnames |= {n.id for n in ast.walk(t) if isinstance(n, ast.Name)}
            if tnames & site.carriers:
                for g in ctx.cg.resolve_call(f, st.value)[0]:
                    helpers.append(g)
    if not helpers:
        return None
    reasons = []
    for g in helpers:
        rets = [r for r in walk_shallow(g.node) if isinstance(r, ast.Return) and r.value is not None]
        dict_names = set()
        for r in rets:
            for e in (r.value.elts if isinstance(r.value, ast.Tuple) else [r.value]):
                if isinstance(e, ast.Name) and dict_key_exprs(g, e.id):
                    dict_names.add(e.id)
        if not dict_names:
            return None
        for dn in dict_names:
            for kexpr, _kst in dict_key_exprs(g, dn):
                for tpl, _node in key_templates(ctx, g, kexpr):
                    why = None
                    for piece in literal_pieces(tpl):
                        why = why or reserved.why(piece)
                    if why is None:
                        return None
                    reasons.append(f"`{tpl}` {why}")
    return "; ".join(sorted(set(reasons))) if reasons else None


def r2_generated_names_never_overwrite(ctx, rid):
    sites = analysed_sites(ctx)
    reserved = read_reserved(ctx, rid)
    for s in sites:
        facts = {"operator": s.op_name, "kind": s.kind, "generated_names_carried_by": sorted(s.carriers),
                 "guard": norm(s.guard) if s.guard is not None else None}
        label = None if s.kind == "variables" else "generated input term substituted into a declared operator's equations"
        if s.guard is not None:
            ctx.ok(rid, s.f, s.stmt, f"{s.what} is dominated by `{norm(s.guard)}`, which raises when a generated name equals a "
                                     f"variable the operator declares", facts, label=label)
            continue
        if s.kind == "equations":
            why = _callee_generated_names_reserved(ctx, s, reserved)
            if why:
                facts["reserved_because"] = why
                ctx.ok(rid, s.f, s.stmt, f"{s.what}: every name inside the substituted term is reserved ({why})", facts, label=label)
                continue
        if s.kind == "variables":
            ctx.violation(rid, s.f, s.stmt,
                          f"{s.what} writes compiler-generated variable names into the variable dictionary of an operator the user "
                          f"declared, " + (s.problem or "and no test that raises on a name collision dominates it") +
                          ": a declared variable of the same name (e.g. a rate constant `k_d1`) is silently replaced by the "
                          "generated one", facts)
        else:
            ctx.violation(rid, s.f, s.stmt,
                          f"{s.what} substitutes a compiler-generated term into the equations of an operator the user declared; the "
                          f"names inside that term ({', '.join(sorted(s.carriers))}) become names of the operator's scope, " +
                          (s.problem or "and no test that raises on a collision with the operator's own variables dominates it") +
                          ": a declared variable that happens to carry such a name (e.g. `r_v1`, the label the compute graph gave the "
                          "second source `r`) is captured by the input term", facts, label=label)


# ================================================================================================
# R3 reserved sub-strings cover the generated names
# ================================================================================================

def _is_counter(ctx, f, hole: ast.AST) -> bool:
    """A hole that is filled by the compiler itself: an enumerate()/range() loop counter or a literal number."""
    if isinstance(hole, ast.Constant):
        return True
    if isinstance(hole, ast.BinOp):
        return all(_is_counter(ctx, f, x) for x in (hole.left, hole.right))
    if not isinstance(hole, ast.Name):
        return False
    defs = ctx.rd(f).defs_reaching(hole)
    if not defs:
        return False
    for d in defs:
        if isinstance(d, ast.For):
            it = d.iter
            if isinstance(it, ast.Call) and call_name(it) == "range":
                continue
            if isinstance(it, ast.Call) and call_name(it) == "enumerate" and isinstance(d.target, (ast.Tuple, ast.List)) \
                    and hole.id in target_names(d.target.elts[0]):
                continue
            return False
        v = assigned_value(d, hole.id)
        if isinstance(v, ast.Constant) and isinstance(v.value, (int, str)):
            continue
        return False
    return True


def _calls_of(ctx, f):
    """(call, targets, how) of every call in f; for an inlined view (not part of the call graph) resolved on the fly."""
    if f in ctx.cg.calls:
        return ctx.cg.calls[f]
    out = []
    for c in walk_shallow(f.node):
        if isinstance(c, ast.Call):
            try:
                targets, how = ctx.cg.resolve_call(f, c)
            except Exception:
                targets, how = [], "unresolved"
            out.append((c, targets, how))
    return out


class _Frame:
    """A function (or inlined view) together with what its parameters are bound to in the calling frame."""

    def __init__(self, f, binding=None, parent=None, site=None):
        self.f, self.binding, self.parent, self.site = f, binding or {}, parent, site

    @property
    def depth(self):
        return 0 if self.parent is None else self.parent.depth + 1


def _resolve_value(ctx, fr: _Frame, e: ast.AST, depth: int = 0) -> List[Tuple[ast.AST, _Frame]]:
    """The expressions a value may come from, following local names through all their reaching definitions (plain
    assignments, tuple unpacking of a tuple literal — also `a, b = T[:2]` — ) and parameters to the caller's arguments.
    Each result is (expression, frame in which its names are to be read)."""
    if depth > 8 or not (isinstance(e, ast.Name) and isinstance(e.ctx, ast.Load)):
        return [(e, fr)]
    try:
        defs = ctx.rd(fr.f).defs_reaching(e)
    except Exception:
        defs = []
    if not defs:
        return [(e, fr)]
    out: List[Tuple[ast.AST, _Frame]] = []
    for d in defs:
        if isinstance(d, ast.arguments):
            if e.id in fr.binding and fr.parent is not None:
                out += _resolve_value(ctx, fr.parent, fr.binding[e.id], depth + 1)
            else:
                out.append((e, fr))
            continue
        v = assigned_value(d, e.id)
        if v is not None:
            out += _resolve_value(ctx, fr, v, depth + 1) if isinstance(v, ast.Name) else [(v, fr)]
            continue
        got = False
        if isinstance(d, ast.Assign):
            for t in d.targets:
                if isinstance(t, (ast.Tuple, ast.List)) and not any(isinstance(x, ast.Starred) for x in t.elts):
                    idx = next((i for i, x in enumerate(t.elts) if isinstance(x, ast.Name) and x.id == e.id), None)
                    if idx is None:
                        continue
                    src = d.value
                    if isinstance(src, ast.Subscript) and isinstance(src.slice, ast.Slice) and src.slice.step is None \
                            and (src.slice.lower is None or (isinstance(src.slice.lower, ast.Constant) and src.slice.lower.value == 0)):
                        src = src.value         # a prefix of the tuple: element idx is element idx of the whole
                    for x, xfr in _resolve_value(ctx, fr, src, depth + 1):
                        if isinstance(x, (ast.Tuple, ast.List)) and idx < len(x.elts) \
                                and not any(isinstance(y, ast.Starred) for y in x.elts):
                            el = x.elts[idx]
                            out += _resolve_value(ctx, xfr, el, depth + 1) if isinstance(el, ast.Name) else [(el, xfr)]
                            got = True
        if not got:
            out.append((e, fr))
    return out


def _frame_templates(ctx, fr: _Frame, e: ast.AST, depth: int = 0) -> List[Tuple[str, bool]]:
    """Name templates (text with ⟨hole⟩s, all holes filled by the compiler itself?) an expression may evaluate to, names
    followed through frames (see _resolve_value); string-valued locals inside f-strings are spliced in."""
    from ._c01_util import expand_fstring
    out: List[Tuple[str, bool]] = []
    for x, xfr in _resolve_value(ctx, fr, e):
        if depth > 6:
            out.append(("⟨" + _plain(ast.unparse(x)) + "⟩", False))
        elif isinstance(x, ast.Constant) and isinstance(x.value, str):
            out.append((x.value, True))
        elif isinstance(x, ast.Constant):
            out.append((str(x.value), True))
        elif isinstance(x, ast.IfExp):
            out += _frame_templates(ctx, xfr, x.body, depth + 1) + _frame_templates(ctx, xfr, x.orelse, depth + 1)
        elif isinstance(x, ast.JoinedStr) or (isinstance(x, ast.BinOp) and isinstance(x.op, ast.Add)):
            parts = []
            if isinstance(x, ast.JoinedStr):
                for v in x.values:
                    if isinstance(v, ast.Constant):
                        parts.append([(str(v.value), True)])
                    elif v.format_spec is None and v.conversion == -1:
                        parts.append(_hole_templates(ctx, xfr, v.value, depth + 1))
                    else:
                        parts.append([("⟨" + _plain(ast.unparse(v.value)) + "⟩", _is_counter_in(ctx, xfr, v.value))])
            else:
                parts = [_frame_templates(ctx, xfr, x.left, depth + 1), _frame_templates(ctx, xfr, x.right, depth + 1)]
            acc = [("", True)]
            for alts in parts:
                acc = [(a + b, ia and ib) for a, ia in acc for b, ib in alts][:32]
            out += acc
        else:
            out.append(("⟨" + _plain(ast.unparse(x)) + "⟩", _is_counter_in(ctx, xfr, x)))
    seen, uniq = set(), []
    for t in out:
        if t not in seen:
            seen.add(t)
            uniq.append(t)
    return uniq


def _hole_templates(ctx, fr: _Frame, h: ast.AST, depth: int) -> List[Tuple[str, bool]]:
    """A hole of an f-string: spliced in when it is a local that holds a string template, otherwise kept as a hole."""
    res = _resolve_value(ctx, fr, h)
    if all(isinstance(x, (ast.JoinedStr, ast.IfExp)) or (isinstance(x, ast.Constant) and isinstance(x.value, str)) for x, _ in res):
        out: List[Tuple[str, bool]] = []
        for x, xfr in res:
            out += _frame_templates(ctx, xfr, x, depth + 1)
        return out
    out = []
    for x, xfr in res:
        t = ("⟨" + _plain(ast.unparse(x)) + "⟩", _is_counter_in(ctx, xfr, x))
        if t not in out:
            out.append(t)
    return out


def _is_counter_in(ctx, fr: _Frame, x: ast.AST) -> bool:
    """_is_counter, with names followed into the frame that defines them."""
    if isinstance(x, ast.Name):
        return all(isinstance(y, (ast.Name, ast.Constant, ast.BinOp)) and _is_counter(ctx, yfr.f, y)
                   for y, yfr in _resolve_value(ctx, fr, x))
    return _is_counter(ctx, fr.f, x)


def _keys_in_frames(ctx, fr: _Frame, dict_name: str, top_stmt=None, seen=None) -> List[Tuple[ast.AST, _Frame, ast.stmt]]:
    """Key expressions stored into the dict `dict_name` of frame fr — in the function itself and, through every call that
    hands the dict on, in the callees (three levels) — each with the frame it is written in and the statement of the
    outermost frame that causes the store."""
    seen = seen if seen is not None else set()
    out = [(k, fr, top_stmt or st) for k, st in dict_key_exprs(fr.f, dict_name)]
    if fr.depth >= 3:
        return out
    for call, targets, how in _calls_of(ctx, fr.f):
        if how == "by-name":
            continue
        for t in targets:
            bound = _bind_args(t, call)
            for p_, a in bound.items():
                if isinstance(a, ast.Name) and a.id == dict_name and (t, p_, id(call)) not in seen:
                    seen.add((t, p_, id(call)))
                    sub = _Frame(t, bound, fr, call)
                    st = top_stmt or stmt_of(ctx.cfg(fr.f), call)
                    out += _keys_in_frames(ctx, sub, p_, st, seen)
    return out


def _callee_keys(ctx, f, dict_name: str) -> List[Tuple[ast.AST, ast.stmt]]:
    """Keys stored into `dict_name` by a callee that receives it as an argument: `g(..., arg_dict=D, idx_str=K)` with
    `arg_dict[idx_str] = …` inside g  ->  (K at the call site, the call statement)."""
    out = []
    for call, targets, _how in _calls_of(ctx, f):
        for t in targets:
            bound = _bind_args(t, call)
            for p, a in bound.items():
                if isinstance(a, ast.Name) and a.id == dict_name:
                    for kexpr, _st in dict_key_exprs(t, p):
                        if isinstance(kexpr, ast.Name) and kexpr.id in bound:
                            out.append((bound[kexpr.id], stmt_of(ctx.cfg(f), call)))
                        elif not isinstance(kexpr, ast.Name):
                            out.append((kexpr, stmt_of(ctx.cfg(f), call)))
    return out


def r3_reserved_parts_cover_generated_names(ctx, rid):
    reserved = read_reserved(ctx, rid)
    cv = reserved.f
    if reserved.applied_call is not None:
        ctx.ok(rid, reserved.applied_in, reserved.applied_call, "every declared variable name of an operator template is passed "
               "through check_vname", label="check_vname is applied", nontrivial=False)
    else:
        ctx.violation(rid, reserved.applied_in, reserved.applied_in.node,
                      "OperatorTemplate.apply no longer passes the declared variable names through check_vname: the reserved names "
                      "and sub-strings protect nothing, any generated name can be declared by the user", label="check_vname is applied")
    for what, test, ok_, table in (("names", reserved.names_test, reserved.names_raise, sorted(reserved.raw_names)),
                                   ("sub-strings", reserved.parts_test, reserved.parts_raise, reserved.raw_parts)):
        if ok_:
            ctx.ok(rid, cv, test, f"check_vname raises for the {len(table)} reserved {what}", {"reserved_" + what: table},
                   label=f"reserved {what} are refused")
        else:
            ctx.violation(rid, cv, test, f"check_vname finds a reserved {what[:-1]} in a declared variable name (`{norm(test)}`) but does "
                                         f"not raise: the user can declare variables that the compiler's generated names overwrite",
                          {"reserved_" + what: table}, label=f"reserved {what} are refused")
    # ---- (A) names injected into operators the user declared
    sites = [s for s in analysed_sites(ctx) if s.kind == "variables"]
    seen = set()
    for s in sites:
        if s.dict_name is None:
            keys = [(k, s.stmt, s.f) for k in [s.stmt.targets[0].slice]]
        else:
            keys = [(k, st, s.f) for k, st in dict_key_exprs(s.f, s.dict_name)]
            if not keys and s.dict_name in s.f.params:
                # the injection was extracted into a helper that receives the dict: its keys are stored by the callers
                for caller, call in ctx.cg.call_sites_of(s.f):
                    a = _bind_args(s.f, call).get(s.dict_name)
                    if not isinstance(a, ast.Name):
                        raise AnalysisError(f"{rid}: {caller.qual}: the dict handed to {s.f.qualname} as `{s.dict_name}` is not a local name")
                    found = dict_key_exprs(caller, a.id)
                    if not found:
                        raise AnalysisError(f"{rid}: {caller.qual}: no key stores into `{a.id}` (injected by {s.f.qualname}) found")
                    keys += [(k, st, caller) for k, st in found]
        if not keys:
            raise AnalysisError(f"{rid}: {s.f.qual}: no key stores into the injected dict `{s.dict_name}` found")
        for kexpr, kst, kf in keys:
            for tpl, node in key_templates(ctx, kf, kexpr):
                if (kf.qual, tpl) in seen:
                    continue
                seen.add((kf.qual, tpl))
                why = None
                for piece in literal_pieces(tpl):
                    why = why or reserved.why(piece)
                facts = {"template": tpl, "injected_by": norm(s.stmt), "collision_test": norm(s.guard) if s.guard is not None else None}
                label = f"generated name `{tpl}` in a declared operator"
                if why:
                    facts["reserved_because"] = why
                    ctx.ok(rid, kf, kst, f"`{tpl}` {why}: no declared variable can carry it", facts, label=label)
                elif s.guard is not None:
                    ctx.ok(rid, kf, kst, f"`{tpl}` is not reserved, but its injection is dominated by the raising collision test "
                                          f"`{norm(s.guard)}`", facts, label=label)
                else:
                    ctx.violation(rid, kf, kst,
                                  f"the compiler names a variable `{tpl}` inside an operator the user declared; that pattern contains none "
                                  f"of the reserved sub-strings {reserved.parts} and the injection `{norm(s.stmt)}` is not protected by a "
                                  f"raising collision test: a declared variable of that name is overwritten", facts, label=label)
    # ---- (B) names the compiler invents inside generated edge operators (namespace shared with user-chosen names)
    n_ops = 0
    # pass 1: every function as written; a creation whose dicts are handed in as parameters (the operator is created by an
    # extracted helper) is deferred to pass 2, where it is looked at inside its callers with the private helpers spliced in
    funcs = ctx.repo.all_functions([IR])
    done, deferred = set(), {}
    work = [(f0, f0) for f0 in funcs] + [(f0, None) for f0 in funcs]
    for f0, f in work:
        if f is None:
            if not deferred:
                break
            f = _view(ctx, f0)
            if f is f0:
                continue
        for call in [c for c in walk_shallow(f.node) if isinstance(c, ast.Call) and call_name(c) == "add_op"]:
            kw = {k.arg: k.value for k in call.keywords}
            if not ({"variables", "inputs", "equations"} <= set(kw)):
                continue
            pos = (call.lineno, call.col_offset)
            if pos in done or (f is not f0 and pos not in deferred):
                continue
            dicts = [v.id for v in (kw["variables"], kw["inputs"]) if isinstance(v, ast.Name)]
            if len(dicts) != 2:
                raise AnalysisError(f"{rid}: {f.qual}: `variables=`/`inputs=` of the generated operator are not local dict names")
            if any(d in f.params and not dict_key_exprs(f, d) for d in dicts):
                deferred[pos] = f0
                continue
            done.add(pos)
            deferred.pop(pos, None)
            n_ops += 1
            templates: Dict[str, Tuple[ast.AST, ast.stmt, bool]] = {}
            top = _Frame(f)
            for dn in dicts:
                for kexpr, kfr, kst in _keys_in_frames(ctx, top, dn):
                    for tpl, invented in _frame_templates(ctx, kfr, kexpr):
                        # a bare expression is one hole: the name is taken from data
                        templates.setdefault(tpl, (kexpr, kst, invented))
            user_named = sorted(t for t, (_n, _s, inv) in templates.items() if not inv)
            if not user_named:
                raise AnalysisError(f"{rid}: {f.qual}: no user-chosen name found in the generated operator's namespace (unrecognised form)")
            for tpl, (node, kst, invented) in sorted(templates.items()):
                if not invented:
                    continue
                why = None
                for piece in literal_pieces(tpl):
                    why = why or reserved.why(piece)
                if why is None and "⟨" not in tpl:
                    why = reserved.why_exact(tpl)
                facts = {"template": tpl, "namespace_also_holds": user_named, "operator_created_by": norm(stmt_of(ctx.cfg(f), call))}
                label = f"invented name `{tpl}` in a generated operator"
                if why:
                    facts["reserved_because"] = why
                    ctx.ok(rid, f, kst, f"`{tpl}` {why}: the user's source/target variable cannot be called like that", facts, label=label)
                else:
                    ctx.violation(rid, f, kst,
                                  f"the generated edge operator gets a variable called `{tpl}` next to variables named after the user's "
                                  f"source and target variables ({', '.join(user_named[:4])}…); `{tpl}` is neither a reserved name nor "
                                  f"contains a reserved sub-string, so a source or target variable the user called `{tpl.split('⟨')[0]}…` "
                                  f"is the same name as the connection weight (`inp = weight * weight` for a source variable `weight`)",
                                  facts, label=label)
    if deferred:
        g = next(iter(deferred.values()))
        raise AnalysisError(f"{rid}: {g.qual}: the generated operator's `variables=`/`inputs=` are parameters and no caller could be "
                            f"analysed with this helper spliced in (unrecognised form)")
    ctx.require(n_ops >= 1, f"{rid}: no generated operator (`add_op(..., inputs=, equations=, variables=)`) found in {IR}")



# characters that may directly neighbour an identifier in an equation of the documented grammar (C05: binary/unary operators,
# `^` and `**`, parentheses, call/argument separators, comparison, indexing helpers, spacing)
REQUIRED_BOUNDARY_CHARS = set("+-*/^()=<>, ")


def _char_collection(ctx, scope, e: ast.AST, depth: int = 0):
    """(set of characters, defining statement) when `e` denotes a constant collection of single characters: a string literal,
    a list/tuple/set of one-character strings, set(...)/frozenset(...)/tuple(...)/list(...) of one, a concatenation / union of
    such, a local name with one such definition, or a module-level constant (also one imported from another module).
    `scope` is the FunctionInfo (or the Module, for module-level expressions) in which the names of `e` are resolved.
    None when `e` is anything else."""
    from engine.srcmodel import FunctionInfo
    if depth > 6 or e is None:
        return None
    if isinstance(e, ast.Constant) and isinstance(e.value, str):
        return set(e.value), None
    if isinstance(e, (ast.List, ast.Tuple, ast.Set)):
        if e.elts and all(isinstance(x, ast.Constant) and isinstance(x.value, str) and len(x.value) == 1 for x in e.elts):
            return {x.value for x in e.elts}, None
        return None
    if isinstance(e, ast.Call) and isinstance(e.func, ast.Name) and e.func.id in ("set", "frozenset", "tuple", "list", "str") \
            and len(e.args) == 1 and not e.keywords:
        return _char_collection(ctx, scope, e.args[0], depth + 1)
    if isinstance(e, ast.BinOp) and isinstance(e.op, (ast.Add, ast.BitOr)):
        l, r = _char_collection(ctx, scope, e.left, depth + 1), _char_collection(ctx, scope, e.right, depth + 1)
        if l is not None and r is not None:
            return l[0] | r[0], l[1] or r[1]
        return None
    module = scope.module if isinstance(scope, FunctionInfo) else scope
    if isinstance(e, ast.Name):
        if isinstance(scope, FunctionInfo) and ctx.rd(scope).is_local(e.id):
            if e.id in scope.params:
                return _optional_param_vocabulary(ctx, scope, e.id, depth)
            defs = [st for st in ctx.cfg(scope).stmts() if e.id in stmt_defs(st)]
            if len(defs) != 1:
                return None
            r = _char_collection(ctx, scope, assigned_value(defs[0], e.id), depth + 1)
            return (r[0], r[1] or defs[0]) if r is not None else None
        return _module_constant(ctx, module, e.id, depth)
    if isinstance(e, ast.Attribute):
        base = ctx.repo.resolve_expr(module, e.value)
        if base is not None and hasattr(base, "assigns"):
            return _module_constant(ctx, base, e.attr, depth)
    return None


def _optional_param_vocabulary(ctx, f, pname: str, depth: int):
    """The character collection an optional parameter stands for when the caller passes nothing: its default value, or — for a
    default of None — the collection it is bound to on the `is None` branch (`if p is None: p = '…'`, `p = '…' if p is None else p`,
    `p = p or '…'`).  No caller inside the package may pass the parameter (then the decision would be per call site)."""
    a = f.node.args
    pos = a.posonlyargs + a.args
    dflt = None
    if pname in [x.arg for x in pos]:
        i = [x.arg for x in pos].index(pname) - (len(pos) - len(a.defaults))
        dflt = a.defaults[i] if i >= 0 else None
    elif pname in [x.arg for x in a.kwonlyargs]:
        dflt = a.kw_defaults[[x.arg for x in a.kwonlyargs].index(pname)]
    if dflt is None:
        return None                             # a required parameter: the vocabulary is the caller's
    for caller, call in ctx.cg.call_sites_of(f):
        bound_pos = [x.arg for x in pos][:len(call.args)]
        if pname in bound_pos or any(k.arg == pname or k.arg is None for k in call.keywords):
            raise AnalysisError(f"C05-R4: {caller.qual}: passes its own `{pname}` to {f.qualname} (the boundary set of this call is not the default one)")
    is_none = isinstance(dflt, ast.Constant) and dflt.value is None
    if not is_none:
        r = _char_collection(ctx, f.module, dflt, depth + 1)
        stores = [n for n in walk_shallow(f.node) if isinstance(n, ast.Name) and n.id == pname and isinstance(n.ctx, ast.Store)]
        return (r[0], r[1] or f.node) if r is not None and not stores else None

    def none_test(t):
        """True: `p is None` / `not p`; False: `p is not None` / `p`; None: something else."""
        pol = True
        while isinstance(t, ast.UnaryOp) and isinstance(t.op, ast.Not):
            t, pol = t.operand, not pol
        if isinstance(t, ast.Name) and t.id == pname:
            return not pol
        if isinstance(t, ast.Compare) and len(t.ops) == 1 and isinstance(t.left, ast.Name) and t.left.id == pname \
                and isinstance(t.comparators[0], ast.Constant) and t.comparators[0].value is None:
            if isinstance(t.ops[0], (ast.Is, ast.Eq)):
                return pol
            if isinstance(t.ops[0], (ast.IsNot, ast.NotEq)):
                return not pol
        return None
    found = []
    for st in walk_shallow(f.node):
        if isinstance(st, ast.If) and none_test(st.test) is not None:
            branch = st.body if none_test(st.test) else st.orelse
            for b in branch:
                if isinstance(b, ast.Assign) and pname in target_names(b.targets[0]) and len(b.targets) == 1:
                    found.append((assigned_value(b, pname), b))
        elif isinstance(st, ast.Assign) and len(st.targets) == 1 and isinstance(st.targets[0], ast.Name) and st.targets[0].id == pname:
            v = st.value
            if isinstance(v, ast.IfExp) and none_test(v.test) is not None:
                found.append((v.body if none_test(v.test) else v.orelse, st))
            elif isinstance(v, ast.BoolOp) and isinstance(v.op, ast.Or) and len(v.values) == 2 and isinstance(v.values[0], ast.Name) \
                    and v.values[0].id == pname:
                found.append((v.values[1], st))
    stores = [n for n in walk_shallow(f.node) if isinstance(n, ast.Name) and n.id == pname and isinstance(n.ctx, ast.Store)]
    if len(found) != 1 or len(stores) != 1:
        return None
    r = _char_collection(ctx, f, found[0][0], depth + 1)
    return (r[0], r[1] or found[0][1]) if r is not None else None


def _module_constant(ctx, m, name: str, depth: int):
    if name in m.assigns:
        sts = m.assigns[name]
        if len(sts) != 1:
            return None
        r = _char_collection(ctx, m, assigned_value(sts[0], name), depth + 1)
        return (r[0], r[1] or sts[0]) if r is not None else None
    if name in m.imports:
        src, sym = m.imports[name]
        tm = ctx.repo.modules.get(src)
        if tm is not None and sym is not None and sym != "*":
            return _module_constant(ctx, tm, sym, depth + 1)
    return None


def _boundary_sets(ctx, rid, f):
    """The character collections against which the scanner `f` tests the neighbours of a match: right-hand sides of
    `<expr> in <collection>` / `not in` tests in f — and in private helpers of the same module that f calls — that denote a
    constant collection of (at least four) characters.  Returns [(chars, defining stmt, test, function)]."""
    out = []
    funcs = [f]
    for _call, targets, how in ctx.cg.calls.get(f, ()):
        if how in ("module", "local-def", "qualified") and len(targets) == 1 and targets[0].module is f.module \
                and targets[0] not in funcs:
            funcs.append(targets[0])
    for g in funcs:
        for c in ast.walk(g.node):
            if not (isinstance(c, ast.Compare) and len(c.ops) == 1 and isinstance(c.ops[0], (ast.In, ast.NotIn))):
                continue
            if isinstance(c.left, ast.Constant):
                continue            # `"=" in eq_part`: a fixed character looked up in data, not a neighbour looked up in a set
            r = _char_collection(ctx, g, c.comparators[0])
            if r is not None and len(r[0]) >= 4:
                out.append((r[0], r[1] or stmt_of(ctx.cfg(g), c), c, g))
    return out


def r4_boundary_vocabulary(ctx, rid):
    """parser.replace substitutes an identifier only when both neighbours are in its boundary-character set.  Every operator
    character of the equation grammar must be in that set, otherwise the substitution silently depends on how the equation is
    written (`s^2` vs `s**2` vs `s ^ 2`).  Also: the sibling scanner var_in_expression must use the same set.
    The set is found by role: the constant character collection(s) that the scanner's membership tests read — a local
    string, a module-level constant, a set(...) of characters; also inside a private helper the scanner calls."""
    sets = {}
    for q in ("replace", "var_in_expression"):
        f = ctx.repo.find_func("pyrates/backend/parser.py", q)
        if f is None:
            if q == "replace":
                raise AnalysisError(f"{rid}: parser.replace vanished")
            continue
        found = _boundary_sets(ctx, rid, f)
        if not found:
            raise AnalysisError(f"{rid}: boundary-character set of parser.{q} not recognised")
        # several tests (neighbour before / neighbour after) may read different collections: a character is a token
        # boundary only if it is one on both sides
        chars = set.intersection(*[x[0] for x in found])
        sets[q] = (f, found[0][1], chars, found)
    f, st, chars, found = sets["replace"]
    missing = sorted(REQUIRED_BOUNDARY_CHARS - chars)
    facts = {"boundary_set": "".join(sorted(chars)), "required": "".join(sorted(REQUIRED_BOUNDARY_CHARS)),
             "read_by": sorted({norm(x[2]) for x in found})}
    if missing:
        ctx.violation(rid, f, st, f"the boundary set of parser.replace lacks {missing}: an identifier written directly next to "
                                  f"{' or '.join(repr(m) for m in missing)} is not substituted (summed operator inputs, template `replace` edits), "
                                  f"so the value of an equation depends on its spelling", facts, label="boundary characters cover the operator vocabulary")
    else:
        ctx.ok(rid, f, st, "every operator character of the equation grammar is a token boundary for substitution", facts,
               label="boundary characters cover the operator vocabulary")
    if "var_in_expression" in sets:
        g, st2, chars2, _found2 = sets["var_in_expression"]
        if chars2 == chars:
            ctx.ok(rid, g, st2, "the sibling scanner uses the same boundary set", label="sibling boundary sets agree")
        else:
            ctx.violation(rid, f, st, f"parser.replace and parser.var_in_expression disagree on token boundaries "
                                      f"(only in one: {sorted(chars ^ chars2)})", facts, label="sibling boundary sets agree")



def r5_literals_inlined_exactly(ctx, rid):
    """A right-hand side that is constant is stored by the parser as a `dummy_constant` variable and inlined into the generated
    source as a literal.  The text must identify the float exactly - `str(x)` / `repr(x)` are shortest round-trip forms - while a
    format specification (`:g`, `:f`, `:.6e`, round(...)) truncates it: the generated code and the direct evaluation of the
    parsed expression then disagree."""
    import ast as _ast
    from engine import AnalysisError as _AE
    f = ctx.repo.get_func("pyrates/backend/computegraph.py", "ComputeGraph._node_to_expr")
    branches = [st for st in walk_shallow(f.node) if isinstance(st, _ast.If) and "dummy_constant" in _ast.unparse(st.test)]
    if len(branches) != 1:
        raise _AE(f"{rid}: the dummy_constant branch of _node_to_expr was not found")
    br = branches[0]
    syms = [c for b in br.body for c in _ast.walk(b) if isinstance(c, _ast.Call) and call_name(c) == "Symbol" and c.args]
    if len(syms) != 1:
        raise _AE(f"{rid}: expected one Symbol(<literal text>) in the dummy_constant branch, found {len(syms)}")
    arg = syms[0].args[0]
    # value chain: val = float(np.squeeze(node.value))
    def lossy(e) -> Optional[str]:
        if isinstance(e, _ast.JoinedStr):
            for v in e.values:
                if isinstance(v, _ast.FormattedValue) and v.format_spec is not None:
                    spec = "".join(x.value for x in v.format_spec.values if isinstance(x, _ast.Constant))
                    m = re.fullmatch(r"[<>^=+\- ]*\d*(?:\.(\d+))?([efgEFG%n]?)", spec)
                    if m is None or m.group(2) or (m.group(1) is not None):
                        prec = int(m.group(1)) if m and m.group(1) else 6
                        if m is None or prec < 17:
                            return f"format specification `:{spec}` keeps {prec} digits"
            return None
        if isinstance(e, _ast.Call) and call_name(e) == "format" and e.args and isinstance(e.args[-1], _ast.Constant):
            return f"format(..., {e.args[-1].value!r})"
        if isinstance(e, _ast.Call) and call_name(e) in ("round", "around") :
            return "the value is rounded before it is printed"
        if isinstance(e, _ast.BinOp) and isinstance(e.op, _ast.Mod) and isinstance(e.left, _ast.Constant) and isinstance(e.left.value, str):
            return f"%-formatting `{e.left.value}`"
        return None
    chain = [arg]
    if isinstance(arg, _ast.Call) and call_name(arg) in ("str", "repr") and arg.args:
        chain.append(arg.args[0])
    for n in list(chain):
        if isinstance(n, _ast.Name):
            v = single_def_value_local(ctx, f, n)
            if v is not None:
                chain.append(v)
    problems = [w for w in (lossy(x) for e in chain for x in _ast.walk(e)) if w]
    exact_form = isinstance(arg, _ast.Call) and call_name(arg) in ("str", "repr")
    facts = {"literal_text": _ast.unparse(arg)}
    if problems:
        ctx.violation(rid, f, syms[0], f"a constant right-hand side is inlined into the generated code as `{_ast.unparse(arg)}`: {problems[0]}, "
                                       f"so the generated function returns a truncated value while the parsed expression evaluates exactly", facts,
                      label="constant right-hand side inlined with a round-trip-exact literal")
    elif exact_form:
        ctx.ok(rid, f, syms[0], "the constant is inlined as str()/repr() of the float (shortest round-trip text)", facts,
               label="constant right-hand side inlined with a round-trip-exact literal")
    else:
        raise _AE(f"{rid}: unrecognised literal text `{_ast.unparse(arg)}`")


def single_def_value_local(ctx, f, n):
    from engine.util import single_def_value
    return single_def_value(ctx, f, n)


# ================================================================================================
# R6 a variable belongs to an operator scope iff its path components before the last equal the scope's components
# ================================================================================================

PARSER_REL = "pyrates/backend/parser.py"
SEP = "/"


def _path_shape(ctx, f, e: ast.AST, roles, depth: int = 0) -> Optional[str]:
    """What an expression of the scope matcher denotes, in terms of the variable key K (`node/op/var`) and the scope S (`node/op`):
    'K', 'S' (the strings), 'Ksplit' / 'Ssplit' (their lists of path components), 'Khead_list' / 'Khead_str' (the components of K
    before the last one, as list / as '/'-joined string), 'Klast', 'S/' (the scope extended by the separator), 'K[:len(S)]'.
    None = something else.  `roles` maps loop statements to the role of their targets."""
    if depth > 8 or e is None:
        return None
    e = strip_calls(e)
    if isinstance(e, ast.Name):
        defs = ctx.rd(f).defs_reaching(e)
        if len(defs) != 1:
            return None
        d = defs[0]
        if d in roles:
            return roles[d].get(e.id)
        if isinstance(d, ast.arguments):
            return None
        v = assigned_value(d, e.id)
        if v is not None:
            return _path_shape(ctx, f, v, roles, depth + 1)
        if isinstance(d, ast.Assign) and len(d.targets) == 1 and isinstance(d.targets[0], (ast.Tuple, ast.List)):
            elts = d.targets[0].elts
            src = _path_shape(ctx, f, d.value, roles, depth + 1)
            # *head, last = K.split('/')
            if len(elts) == 2 and isinstance(elts[0], ast.Starred) and isinstance(elts[0].value, ast.Name) and isinstance(elts[1], ast.Name) \
                    and src == "Ksplit":
                return "Khead_list" if elts[0].value.id == e.id else ("Klast" if elts[1].id == e.id else None)
            # head, last = K.rsplit('/', 1)
            if len(elts) == 2 and all(isinstance(x, ast.Name) for x in elts) and src == "Krsplit1":
                return "Khead_str" if elts[0].id == e.id else "Klast"
        return None
    if isinstance(e, ast.Call) and isinstance(e.func, ast.Attribute):
        recv = _path_shape(ctx, f, e.func.value, roles, depth + 1)
        args = e.args
        is_sep = lambda x: isinstance(x, ast.Constant) and x.value == SEP
        if e.func.attr == "split" and len(args) == 1 and is_sep(args[0]):
            return {"K": "Ksplit", "S": "Ssplit", "Khead_str": "Khead_list"}.get(recv)
        if e.func.attr == "rsplit" and len(args) == 2 and is_sep(args[0]) and isinstance(args[1], ast.Constant) and args[1].value == 1 \
                and recv == "K":
            return "Krsplit1"
        if e.func.attr == "join" and is_sep(e.func.value) and len(args) == 1:
            inner = _path_shape(ctx, f, args[0], roles, depth + 1)
            return {"Khead_list": "Khead_str", "Ssplit": "S", "Ksplit": "K"}.get(inner)
        return None
    if isinstance(e, ast.Subscript):
        base = _path_shape(ctx, f, e.value, roles, depth + 1)
        sl = e.slice
        minus1 = lambda x: isinstance(x, ast.UnaryOp) and isinstance(x.op, ast.USub) and isinstance(x.operand, ast.Constant) and x.operand.value == 1
        if isinstance(sl, ast.Slice) and sl.step is None and (sl.lower is None or (isinstance(sl.lower, ast.Constant) and sl.lower.value == 0)):
            if minus1(sl.upper) and base == "Ksplit":
                return "Khead_list"
            if isinstance(sl.upper, ast.Call) and call_name(sl.upper) == "len" and len(sl.upper.args) == 1 and base == "K" \
                    and _path_shape(ctx, f, sl.upper.args[0], roles, depth + 1) == "S":
                return "K[:len(S)]"
            return None
        if base == "Krsplit1" and isinstance(sl, ast.Constant) and sl.value == 0:
            return "Khead_str"
        if base in ("Ksplit", "Krsplit1") and (minus1(sl) or (base == "Krsplit1" and isinstance(sl, ast.Constant) and sl.value == 1)):
            return "Klast"
        return None
    if isinstance(e, ast.BinOp) and isinstance(e.op, ast.Add):
        l, r = _path_shape(ctx, f, e.left, roles, depth + 1), e.right
        if l == "S" and isinstance(r, ast.Constant) and r.value == SEP:
            return "S/"
        return None
    if isinstance(e, ast.JoinedStr) and len(e.values) == 2 and isinstance(e.values[0], ast.FormattedValue) \
            and isinstance(e.values[1], ast.Constant) and e.values[1].value == SEP \
            and _path_shape(ctx, f, e.values[0].value, roles, depth + 1) == "S":
        return "S/"
    return None


def strip_calls(e: ast.AST) -> ast.AST:
    """list(x) / tuple(x) / str(x) -> x"""
    while isinstance(e, ast.Call) and isinstance(e.func, ast.Name) and e.func.id in ("list", "tuple", "str") and len(e.args) == 1 \
            and not e.keywords:
        e = e.args[0]
    return e


def _path_roots(ctx, f, e: ast.AST, roles, depth: int = 0) -> Set[str]:
    """{'K', 'S'}: which of the two path strings the value of `e` is computed from."""
    out: Set[str] = set()
    if depth > 5:
        return out
    for n in loads(e):
        for d in ctx.rd(f).defs_reaching(n):
            if d in roles:
                r = roles[d].get(n.id)
                if r in ("K", "S"):
                    out.add(r)
            elif isinstance(d, (ast.Assign, ast.AnnAssign)) and d.value is not None:
                out |= _path_roots(ctx, f, d.value, roles, depth + 1)
    return out


def _classify_scope_test(ctx, f, t: ast.AST, roles):
    """('ok'|'bad', text) for a test that relates the variable key to the scope; None when it is not understood."""
    while isinstance(t, ast.UnaryOp) and isinstance(t.op, ast.Not):
        t = t.operand
    sh = lambda x: _path_shape(ctx, f, x, roles)
    if isinstance(t, ast.Compare) and len(t.ops) == 1:
        l, r, op = sh(t.left), sh(t.comparators[0]), t.ops[0]
        if isinstance(op, (ast.Eq, ast.NotEq)):
            if {l, r} in ({"Khead_list", "Ssplit"}, {"Khead_str", "S"}):
                return "ok", "the path components of the key before the last one are compared with the scope's components for equality"
            if {l, r} == {"K[:len(S)]", "S"}:
                return "bad", "the leading characters of the '/'-joined key are compared with the scope string"
        if isinstance(op, (ast.In, ast.NotIn)) and l == "S" and r == "K":
            return "bad", "the scope string is looked up as a sub-string of the '/'-joined key"
        return None
    if isinstance(t, ast.Call) and isinstance(t.func, ast.Attribute) and t.func.attr in ("startswith", "find", "index", "count") \
            and len(t.args) >= 1 and sh(t.func.value) in ("K", "Khead_str"):
        a = sh(t.args[0])
        if t.func.attr == "startswith" and a == "S/":
            return "ok", "the key is tested for the prefix `<scope>/` (scope extended by the separator)"
        if a == "S":
            return "bad", f"`{t.func.attr}` matches the scope string as a prefix / sub-string of the '/'-joined key"
    return None


def r6_scope_membership_by_path_components(ctx, rid):
    """parse_equations collects, for every (equation, scope) pair, the entries of equation_args that belong to the operator
    `scope`.  Keys are '/'-joined paths `node/op/var`; a variable belongs to the scope iff its components before the last equal
    the scope's components.  A prefix or sub-string test on the joined strings also captures the variables of an operator
    whose name merely starts with this operator's name (`p/rate` vs `p/rate_slow/tau`): the equation is then parsed with a
    foreign variable of the same short name."""
    f0 = ctx.repo.get_func(PARSER_REL, "parse_equations")
    f = _view(ctx, f0)
    params = [p_ for p_ in f0.params]
    ctx.require(len(params) >= 2, f"{rid}: signature of parse_equations changed")
    eqs_p, args_p = params[0], params[1]
    roles: Dict[object, Dict[str, str]] = {}
    for L in [n for n in walk_shallow(f.node) if isinstance(n, ast.For)]:
        it = L.iter
        src = alias_root(ctx, f, strip_calls(it), wrappers=("list", "tuple"))
        if isinstance(src.expr, ast.Name) and src.expr.id == eqs_p and src.defstmt is None and isinstance(L.target, (ast.Tuple, ast.List)) \
                and len(L.target.elts) == 2 and isinstance(L.target.elts[1], ast.Name):
            roles[L] = {L.target.elts[1].id: "S"}
        reads_args = any(isinstance(n, ast.Name) and _reads_param(ctx, f, n, args_p) for n in ast.walk(it))
        if reads_args and any(isinstance(c, ast.Call) and call_name(c) == "items" for c in ast.walk(it)) \
                and isinstance(L.target, (ast.Tuple, ast.List)) and len(L.target.elts) == 2 and isinstance(L.target.elts[0], ast.Name):
            roles[L] = {L.target.elts[0].id: "K"}
        elif reads_args and isinstance(L.target, ast.Name) and not any(isinstance(c, ast.Call) and call_name(c) in ("items", "values")
                                                                       for c in ast.walk(it)):
            roles.setdefault(L, {L.target.id: "K"})
    k_loops = [L for L, r in roles.items() if "K" in r.values()]
    s_loops = [L for L, r in roles.items() if "S" in r.values()]
    if not k_loops or not s_loops:
        raise AnalysisError(f"{rid}: loops over the (equation, scope) pairs / over the entries of equation_args not found in parse_equations")
    n = 0
    for L in k_loops:
        if not any(contains(sl, L) for sl in s_loops):
            continue
        tests = []
        for node in walk_shallow(L):
            t = None
            if isinstance(node, (ast.If, ast.While, ast.IfExp)):
                t = node.test
            elif isinstance(node, ast.comprehension):
                continue
            if t is not None and in_body(L, node) and _path_roots(ctx, f, t, roles) >= {"K", "S"}:
                tests.append((node, t))
        for node, t in tests:
            parts = t.values if isinstance(t, ast.BoolOp) else [t]
            verdicts = [(p_, _classify_scope_test(ctx, f, p_, roles)) for p_ in parts if _path_roots(ctx, f, p_, roles) >= {"K", "S"}]
            st = stmt_of(ctx.cfg(f), node)
            text = _plain(norm(st))
            known = [v for _p, v in verdicts if v is not None]
            bad = [v for v in known if v[0] == "bad"]
            if isinstance(t, ast.BoolOp) and isinstance(t.op, ast.Or):
                # membership is granted by any operand: one prefix / sub-string operand suffices for a violation
                decided = bool(bad) or (known and len(known) == len(verdicts))
            elif isinstance(t, ast.BoolOp):
                # conjuncts narrow each other: a component-wise (or separator-extended) conjunct suffices, a prefix conjunct
                # may be repaired by another one that is not understood
                decided = bool(known) and not bad
                verdicts = [(p_, v) for p_, v in verdicts if v is not None]
            else:
                decided = len(known) == 1
            if not decided:
                raise AnalysisError(f"{rid}: parse_equations: `{text}` relates the variable key to the operator scope in an unrecognised form")
            n += 1
            verdicts = [(p_, v) for p_, v in verdicts if v is not None]
            label = "operator scope membership of a variable key"
            if bad:
                ctx.violation(rid, f0, st, f"`{text}`: {bad[0][1]}; scope `p/rate` then also captures `p/rate_slow/tau`, so an operator whose "
                                           f"name is a prefix of another operator's name is parsed with that operator's variables "
                                           f"(membership must compare the '/'-separated path components)", label=label)
            else:
                ctx.ok(rid, f0, st, f"`{text}`: {verdicts[0][1][1]}", label=label)
    ctx.require(n >= 1, f"{rid}: no test that relates a variable key of equation_args to the operator scope found in parse_equations")


def _reads_param(ctx, f, n: ast.Name, param: str) -> bool:
    if not isinstance(n.ctx, ast.Load):
        return False
    r = alias_root(ctx, f, n, wrappers=("list", "tuple", "dict"))
    return isinstance(r.expr, ast.Name) and r.expr.id == param and r.defstmt is None



# ================================================================================================
# R7 between parsing and the compute graph the expression tree is only transformed by the enumerated rewrites
# ================================================================================================

# transformations of a parsed expression that are present today, with the reason why they keep its floating-point meaning
ACCEPTED_EXPR_TRANSFORMS = {
    "subs": "replaces argument sub-expressions by the symbols of the compute-graph variables they were parsed into (renaming)",
    "replace": "same renaming for occurrences that `subs` did not reach (exact structural replacement of a sub-expression)",
    "xreplace": "exact structural replacement of sub-expressions (renaming)",
}
# read-only queries on an expression
EXPR_QUERIES = {"count", "find", "has", "atoms", "match", "equals", "as_coeff_Mul", "as_coeff_Add", "as_independent", "is_constant",
                "could_extract_minus_sign", "__str__", "__repr__", "count_ops", "as_ordered_terms", "as_ordered_factors"}
# sympy operations that rewrite the arithmetic (simplifiers / normalisers / numeric evaluation)
REWRITING_OPS = {"expand", "simplify", "factor", "cancel", "together", "apart", "nsimplify", "powsimp", "powdenest", "trigsimp",
                 "radsimp", "ratsimp", "collect", "logcombine", "combsimp", "gammasimp", "hyperexpand", "expand_log", "expand_mul",
                 "expand_multinomial", "expand_power_base", "expand_power_exp", "expand_trig", "expand_func", "expand_complex",
                 "rewrite", "evalf", "n", "normal", "horner", "separatevars", "sqrtdenest", "signsimp", "besselsimp", "kroneckersimp",
                 "cse", "refine", "posify", "factor_terms", "radsimp", "fraction", "nfloat", "N"}
PARSE_CALLS = {"sympy.sympify", "sympy.parse_expr", "sympy.parsing.sympy_parser.parse_expr", "sympy.S", "sympy.core.sympify.sympify"}


def _expr_typing(ctx, funcs, parser_attrs):
    """Which local names / self attributes hold parsed sympy expressions, per function (fix point of a small type inference:
    results of the parsing function, parameters annotated `Expr`, results of expression-returning methods, elements of
    `.args`, loop variables over such collections).  Returns (is_expr(f, node) predicate, expression-valued self attributes)."""
    expr_attrs: Set[str] = set()
    env: Dict[object, Set[str]] = {f: set() for f in funcs}
    tup: Dict[object, Set[str]] = {f: set() for f in funcs}           # names holding collections of expressions
    for f in funcs:
        a = f.node.args
        for arg in a.posonlyargs + a.args + a.kwonlyargs:
            ann = ast.unparse(arg.annotation) if arg.annotation is not None else ""
            if ann.split(".")[-1] in ("Expr", "Basic"):
                env[f].add(arg.arg)

    def parses(f, call) -> bool:
        fn = call.func
        if (ctx.repo.external_name(f.module, fn) or "") in PARSE_CALLS:
            return True
        if isinstance(fn, ast.Attribute) and isinstance(fn.value, ast.Name) and fn.value.id == f.self_name and fn.attr in parser_attrs:
            return True
        try:
            targets, how = ctx.cg.resolve_call(f, call)
        except Exception:
            return False
        return how != "by-name" and any(t in funcs_parsing for t in targets)
    funcs_parsing: Set[object] = set()

    def is_expr(f, e) -> bool:
        if isinstance(e, ast.Name):
            return e.id in env[f]
        if isinstance(e, ast.Attribute) and isinstance(e.value, ast.Name) and e.value.id == f.self_name:
            return e.attr in expr_attrs
        if isinstance(e, ast.Call):
            if parses(f, e):
                return True
            fn = e.func
            if isinstance(fn, ast.Attribute) and is_expr(f, fn.value) and (fn.attr in ACCEPTED_EXPR_TRANSFORMS or fn.attr in REWRITING_OPS
                                                                          or fn.attr in ("func", "doit", "copy")):
                return True
            ext = ctx.repo.external_name(f.module, fn) or ""
            if ext.startswith("sympy.") and ext.split(".")[-1] in REWRITING_OPS and e.args and is_expr(f, e.args[0]):
                return True
            try:
                targets, how = ctx.cg.resolve_call(f, e)
            except Exception:
                return False
            return how != "by-name" and bool(targets) and all(t in returns_expr for t in targets)
        if isinstance(e, ast.Subscript):
            return is_tuple(f, e.value)
        if isinstance(e, ast.IfExp):
            return is_expr(f, e.body) or is_expr(f, e.orelse)
        return False

    def is_tuple(f, e) -> bool:
        if isinstance(e, ast.Name):
            return e.id in tup[f]
        if isinstance(e, ast.Attribute) and e.attr == "args":
            return is_expr(f, e.value)
        if isinstance(e, ast.Call):
            if isinstance(e.func, ast.Name) and e.func.id in ("list", "tuple", "sorted", "reversed", "enumerate") and e.args:
                return is_tuple(f, e.args[0])
            return any(is_tuple(f, a) for a in e.args)      # a helper that re-orders / filters the arguments
        if isinstance(e, (ast.List, ast.Tuple)):
            return any(is_expr(f, x) for x in e.elts)
        if isinstance(e, (ast.ListComp, ast.GeneratorExp)):
            return any(is_tuple(f, g.iter) for g in e.generators)
        return False
    returns_expr: Set[object] = set()
    for _ in range(6):
        before = (sum(len(v) for v in env.values()), sum(len(v) for v in tup.values()), len(expr_attrs), len(returns_expr), len(funcs_parsing))
        for f in funcs:
            for st in walk_shallow(f.node):
                if isinstance(st, (ast.Assign, ast.AnnAssign)) and st.value is not None:
                    targets = st.targets if isinstance(st, ast.Assign) else [st.target]
                    for t in targets:
                        pairs = [(t, st.value)]
                        if isinstance(t, (ast.Tuple, ast.List)) and isinstance(st.value, (ast.Tuple, ast.List)) and len(t.elts) == len(st.value.elts):
                            pairs = list(zip(t.elts, st.value.elts))
                        for tt, vv in pairs:
                            if isinstance(tt, ast.Name):
                                if is_expr(f, vv):
                                    env[f].add(tt.id)
                                elif is_tuple(f, vv):
                                    tup[f].add(tt.id)
                            elif isinstance(tt, ast.Attribute) and isinstance(tt.value, ast.Name) and tt.value.id == f.self_name and is_expr(f, vv):
                                expr_attrs.add(tt.attr)
                elif isinstance(st, (ast.For, ast.comprehension)) and is_tuple(f, st.iter):
                    for nm in target_names(st.target):
                        env[f].add(nm)
                elif isinstance(st, ast.Return) and st.value is not None:
                    if is_expr(f, st.value):
                        returns_expr.add(f)
                    if isinstance(st.value, ast.Call) and parses(f, st.value):
                        funcs_parsing.add(f)
                    if isinstance(st.value, ast.Subscript) and any(isinstance(c, ast.Call) and parses(f, c) for c in ast.walk(f.node)):
                        returns_expr.add(f)         # a memo of parse results
            # parameters that receive expressions at call sites inside the analysed functions
            for call, targets, how in ctx.cg.calls.get(f, ()):
                if how == "by-name":
                    continue
                for g in targets:
                    if g in env:
                        for q, x in _bind_args(g, call).items():
                            if q in g.params:
                                if is_expr(f, x):
                                    env[g].add(q)
                                elif is_tuple(f, x):
                                    tup[g].add(q)
        after = (sum(len(v) for v in env.values()), sum(len(v) for v in tup.values()), len(expr_attrs), len(returns_expr), len(funcs_parsing))
        if after == before:
            break
    return is_expr, expr_attrs


def r7_parsed_expression_is_not_rewritten(ctx, rid):
    """ExpressionParser turns an equation string into a sympy expression tree (parse_func) and hands its nodes to the compute
    graph.  The arithmetic that is evaluated and printed is that tree: floating-point evaluation depends on how it is
    written (exp(a - b) vs exp(a)*exp(-b): inf*0 = nan; (a - b)**2 vs a**2 - 2ab + b**2: cancellation).  Necessary: on the way
    from the parser's result to ComputeGraph.add_op the tree is changed only by the enumerated rewrites (ACCEPTED_EXPR_TRANSFORMS,
    each with its reason); a sympy simplifier / normaliser / numeric evaluation applied to a parsed expression is a violation;
    any other method that returns a new expression is not understood (AnalysisError)."""
    root = ctx.repo.get_func(PARSER_REL, "ExpressionParser.parse_expr")
    reach = [g for g in ctx.cg.reachable([root]) if g.module is root.module]
    cls = root.cls
    # the parsing function: attributes of self that are bound to a function which calls sympy's parser (or another parser object)
    parser_attrs: Set[str] = set()
    for m in cls.methods.values():
        for st in walk_shallow(m.node):
            if isinstance(st, ast.Assign) and len(st.targets) == 1 and isinstance(st.targets[0], ast.Attribute) \
                    and isinstance(st.targets[0].value, ast.Name) and st.targets[0].value.id == m.self_name:
                r = ctx.repo.resolve_expr(m.module, st.value) if isinstance(st.value, (ast.Name, ast.Attribute)) else None
                ext = ctx.repo.external_name(m.module, st.value) if isinstance(st.value, (ast.Name, ast.Attribute)) else None
                if (ext or "") in PARSE_CALLS or (r is not None and hasattr(r, "node") and any(
                        isinstance(c, ast.Call) and (ctx.repo.external_name(r.module, c.func) or "") in PARSE_CALLS for c in ast.walk(r.node))):
                    parser_attrs.add(st.targets[0].attr)
    ctx.require(parser_attrs, f"{rid}: the attribute that holds the parsing function (bound to a sympify wrapper) was not found in {cls.name}")
    funcs = sorted(set(reach) | {ctx.repo.resolve_expr(m.module, st.value) for m in cls.methods.values() for st in walk_shallow(m.node)
                                 if isinstance(st, ast.Assign) and len(st.targets) == 1 and isinstance(st.targets[0], ast.Attribute)
                                 and st.targets[0].attr in parser_attrs and isinstance(st.value, (ast.Name, ast.Attribute))
                                 and hasattr(ctx.repo.resolve_expr(m.module, st.value), "node")}, key=lambda g: g.qual)
    is_expr, expr_attrs = _expr_typing(ctx, funcs, parser_attrs)
    n_parse = n = 0
    for f in funcs:
        cfg = ctx.cfg(f)
        for c in [x for x in walk_shallow(f.node) if isinstance(x, ast.Call)]:
            fn = c.func
            ext = ctx.repo.external_name(f.module, fn) or ""
            meth = fn.attr if isinstance(fn, ast.Attribute) else None
            recv_is_expr = isinstance(fn, ast.Attribute) and is_expr(f, fn.value)
            fn_on_expr = ext.startswith("sympy.") and c.args and is_expr(f, c.args[0])
            if ext in PARSE_CALLS or (isinstance(fn, ast.Attribute) and isinstance(fn.value, ast.Name) and fn.value.id == f.self_name
                                      and fn.attr in parser_attrs):
                n_parse += 1
                continue
            if not (recv_is_expr or fn_on_expr):
                continue
            name = meth if recv_is_expr else ext.split(".")[-1]
            st = stmt_of(cfg, c)
            target = ast.unparse(fn.value) if recv_is_expr else ast.unparse(c.args[0])
            if name in REWRITING_OPS:
                n += 1
                ctx.violation(rid, f, st, f"`{ast.unparse(c)[:120]}` applies sympy's `{name}` to the parsed expression `{target}`: the tree handed to "
                                          f"the compute graph is no longer the arithmetic that was written (e.g. exp(a - b) becomes "
                                          f"exp(a)*exp(-b), powers of sums are multiplied out), so the compiled function evaluates a "
                                          f"different floating-point expression (overflow to nan, cancellation)",
                              {"operation": name, "applied_to": target}, label=f"`{name}` applied to a parsed expression")
            elif name in ACCEPTED_EXPR_TRANSFORMS:
                n += 1
                ctx.ok(rid, f, st, f"`{name}` on the parsed expression: {ACCEPTED_EXPR_TRANSFORMS[name]}", {"operation": name, "applied_to": target},
                       label=f"`{name}` applied to a parsed expression")
            elif name in EXPR_QUERIES or name.startswith("is_") or name.startswith("as_"):
                continue
            elif recv_is_expr and name in ("func",):
                raise AnalysisError(f"{rid}: {f.qual}: `{ast.unparse(c)[:100]}` rebuilds a parsed expression (unrecognised transformation)")
            else:
                raise AnalysisError(f"{rid}: {f.qual}: `{ast.unparse(c)[:100]}` applies `{name}` to a parsed expression; it is neither an "
                                    f"enumerated rewrite nor a known read-only query")
    ctx.require(n_parse >= 1, f"{rid}: no call of the parsing function found on the way from parse_expr to the compute graph")
    ctx.require(n >= 1, f"{rid}: no transformation of a parsed expression found (the renaming of arguments in _parse_stack vanished?)")


# ================================================================================================
# R8 argument text spliced into a printed parent expression keeps its parentheses unless it binds strictly stronger
# ================================================================================================

_R8_CONTROL = '''
def control(expr, arg, text):
    if precedence(arg) {op} precedence(expr):
        text = f"({{text}})"
    return text
'''


def _wraps_in_parentheses(stmts) -> Optional[ast.AST]:
    """The expression `"(" + x + ")"` / f"({x})" assigned (or returned / appended) in a statement list, if any."""
    for st in stmts:
        for n in ast.walk(st):
            if isinstance(n, ast.JoinedStr) and len(n.values) >= 3 and isinstance(n.values[0], ast.Constant) and isinstance(n.values[-1], ast.Constant) \
                    and str(n.values[0].value).endswith("(") and str(n.values[-1].value).startswith(")") \
                    and any(isinstance(v, ast.FormattedValue) for v in n.values[1:-1]):
                return n
            if isinstance(n, ast.BinOp) and isinstance(n.op, ast.Add) and isinstance(n.right, ast.Constant) and str(n.right.value).startswith(")") \
                    and isinstance(n.left, ast.BinOp) and isinstance(n.left.op, ast.Add) and isinstance(n.left.left, ast.Constant) \
                    and str(n.left.left.value).endswith("("):
                return n
    return None


def _precedence_decisions(fnode, is_prec):
    """[(compare, child arg, parent arg, 'child OP parent' relation under which parentheses are ADDED, wrapped expr, holder)] for
    every comparison of two precedence(...) values that decides whether a string is wrapped in parentheses."""
    out = []
    for holder in [n for n in ast.walk(fnode) if isinstance(n, (ast.If, ast.IfExp))]:
        cmps = [c for c in ast.walk(holder.test) if isinstance(c, ast.Compare) and len(c.ops) == 1
                and isinstance(c.left, ast.Call) and is_prec(c.left) and isinstance(c.comparators[0], ast.Call) and is_prec(c.comparators[0])
                and len(c.left.args) == 1 and len(c.comparators[0].args) == 1]
        if not cmps:
            continue
        body = holder.body if isinstance(holder, ast.If) else [ast.Expr(value=holder.body)]
        orelse = holder.orelse if isinstance(holder, ast.If) else [ast.Expr(value=holder.orelse)]
        wb, wo = _wraps_in_parentheses(body), _wraps_in_parentheses(orelse)
        if (wb is None) == (wo is None):
            continue                    # not a decision about parentheses (or both branches wrap)
        for c in cmps:
            # polarity of the comparison inside the test (under `not`)
            pol, x = True, c
            while parent(x) is not None and x is not holder.test:
                x = parent(x)
                if isinstance(x, ast.UnaryOp) and isinstance(x.op, ast.Not):
                    pol = not pol
            adds_when_true = (wb is not None) == pol
            out.append((c, c.left.args[0], c.comparators[0].args[0], type(c.ops[0]), adds_when_true, wb if wb is not None else wo, holder))
    return out


def r8_spliced_argument_text_keeps_parentheses(ctx, rid):
    """When the printed text of a processed argument is inserted into the printed text of its parent expression, the argument
    must be set in parentheses unless it binds STRICTLY stronger than the parent: at equal precedence `**`, `-` and `/` are not
    associative ((x**a)**b is not x**a**b, a - (b - c) is not a - b - c).  Decided for every comparison of two
    sympy `precedence(...)` values in pyrates/backend/** that selects between a parenthesised and a bare string: with c the
    precedence of the inserted text and p that of the expression it is inserted into, parentheses must be added whenever c <= p."""
    def is_prec_in(module):
        return lambda call: (ctx.repo.external_name(module, call.func) or "").endswith("precedence.precedence") or \
            ((ctx.repo.external_name(module, call.func) or "").startswith("sympy.") and call_name(call) in ("precedence", "precedence_traditional"))
    # controls
    for op, want_bad in (("<", True), ("<=", False)):
        tree = ast.parse(_R8_CONTROL.format(op=op))
        from engine.srcmodel import set_parents
        set_parents(tree)
        dec = _precedence_decisions(tree.body[0], lambda call: call_name(call) == "precedence")
        if len(dec) != 1 or (_r8_verdict(dec[0], {"arg"}, {"expr"})[0] == "bad") != want_bad:
            raise AnalysisError(f"{rid}: positive control failed — the precedence comparison `{op}` is no longer judged as expected")
    n_calls = n_dec = 0
    for f in ctx.repo.all_functions():
        if not f.module.rel.startswith("pyrates/backend/"):
            continue
        is_prec = is_prec_in(f.module)
        n_calls += sum(1 for c in walk_shallow(f.node) if isinstance(c, ast.Call) and is_prec(c))
        for dec in _precedence_decisions(f.node, is_prec):
            cmpn, a1, a2, op, adds_true, wrapped, holder = dec
            # which operand is the inserted text?  the one whose name the wrapped string is derived from
            wrapped_ids = set()
            for n in ast.walk(wrapped):
                if isinstance(n, ast.Name):
                    wrapped_ids.add(n.id)
                    for d in ctx.rd(f).defs_reaching(n) if isinstance(n.ctx, ast.Load) and hasattr(n, "_parent") else []:
                        v = assigned_value(d, n.id)
                        if v is not None:
                            wrapped_ids |= load_ids(v)
            verdict, text = _r8_verdict(dec, wrapped_ids, None)
            st = stmt_of(ctx.cfg(f), cmpn)
            n_dec += 1
            label = f"parenthesisation by `{ast.unparse(cmpn)}`"
            if verdict is None:
                raise AnalysisError(f"{rid}: {f.qual}: `{ast.unparse(cmpn)}` decides about parentheses, but which operand is the inserted text "
                                    f"could not be told (unrecognised form)")
            if verdict == "bad":
                ctx.violation(rid, f, st, f"`{ast.unparse(holder.test)[:140]}` sets the inserted argument text in parentheses only when {text}; at "
                                          f"equal precedence the text is inserted bare, but `**`, `-` and `/` are not associative: a power "
                                          f"inside a power prints as `x**a**b` (= x**(a**b)) instead of `(x**a)**b`", label=label)
            else:
                ctx.ok(rid, f, st, f"parentheses are added whenever {text}", label=label)
    ctx.ok(rid, None, None, f"controls: a strict precedence comparison is reported, the non-strict one accepted; {n_calls} precedence(...) "
                            f"calls and {n_dec} parenthesisation decisions found in pyrates/backend/**", construct="rules/c05.py::_R8_CONTROL",
           loc="rules/c05.py", nontrivial=False)


def _r8_verdict(dec, wrapped_ids, parent_ids):
    """('ok'|'bad'|None, text): are parentheses added whenever precedence(child) <= precedence(parent)?"""
    cmpn, a1, a2, op, adds_true, _wrapped, _holder = dec
    n1, n2 = load_ids(a1), load_ids(a2)
    if n1 & wrapped_ids and not (n2 & wrapped_ids):
        child_left = True
    elif n2 & wrapped_ids and not (n1 & wrapped_ids):
        child_left = False
    elif parent_ids is not None and n2 & parent_ids:
        child_left = True
    else:
        return None, ""
    # relation `child REL parent` that holds on the branch which adds parentheses
    rel = {ast.Lt: "<", ast.LtE: "<=", ast.Gt: ">", ast.GtE: ">=", ast.Eq: "==", ast.NotEq: "!="}.get(op)
    if rel is None:
        return None, ""
    if not child_left:
        rel = {"<": ">", "<=": ">=", ">": "<", ">=": "<=", "==": "==", "!=": "!="}[rel]
    if not adds_true:
        rel = {"<": ">=", "<=": ">", ">": "<=", ">=": "<", "==": "!=", "!=": "=="}[rel]
    text = f"precedence(inserted text) {rel} precedence(parent)"
    return ("ok" if rel in ("<=",) else "bad"), text


# ================================================================================================
# R9 a split of the arguments of a sum / product into "constants folded now" and "the rest" is exhaustive
# ================================================================================================

# sympy predicates that are true for numeric LITERALS only: false for pi, E, EulerGamma (NumberSymbol) and for compound
# numeric expressions such as sqrt(2)
LITERAL_ONLY_PREDICATES = {"is_Number", "is_Integer", "is_Float", "is_Rational", "is_NumberSymbol", "is_integer", "is_rational"}
LITERAL_ONLY_CLASSES = {"Number", "Float", "Integer", "Rational", "int", "float", "complex"}
COMPLETE_PREDICATES = {"is_number", "is_constant", "is_comparable"}
_R9_CONTROL = '''
def control(expr):
    consts = [arg for arg in expr.args if arg.{pred}]
    return expr.func(*consts)
'''


def _arg_filters(fnode):
    """[(node, element name, iterable `E.args`, predicate expr, polarity)] for comprehensions `[a for a in E.args if P(a)]`,
    `filter(lambda a: P(a), E.args)` and loops `for a in E.args: if P(a): …`."""
    out = []
    for n in ast.walk(fnode):
        if isinstance(n, (ast.ListComp, ast.GeneratorExp, ast.SetComp)) and len(n.generators) == 1:
            g = n.generators[0]
            if isinstance(g.iter, ast.Attribute) and g.iter.attr == "args" and isinstance(g.target, ast.Name) and len(g.ifs) == 1:
                out.append((n, g.target.id, g.iter, g.ifs[0], None))
        elif isinstance(n, ast.For) and isinstance(n.iter, ast.Attribute) and n.iter.attr == "args" and isinstance(n.target, ast.Name):
            for st in n.body:
                if isinstance(st, ast.If):
                    out.append((st, n.target.id, n.iter, st.test, bool(st.orelse)))
        elif isinstance(n, ast.Call) and isinstance(n.func, ast.Name) and n.func.id == "filter" and len(n.args) == 2 \
                and isinstance(n.args[0], ast.Lambda) and isinstance(n.args[1], ast.Attribute) and n.args[1].attr == "args" \
                and len(n.args[0].args.args) == 1:
            out.append((n, n.args[0].args.args[0].arg, n.args[1], n.args[0].body, None))
    return out


def _const_predicate(test: ast.AST, elem: str):
    """('literal'|'complete', text, negated) when the test is a sympy constant predicate of the element; None otherwise."""
    neg = False
    while isinstance(test, ast.UnaryOp) and isinstance(test.op, ast.Not):
        test, neg = test.operand, not neg
    if isinstance(test, ast.Call) and isinstance(test.func, ast.Attribute) and isinstance(test.func.value, ast.Name) \
            and test.func.value.id == elem and test.func.attr in COMPLETE_PREDICATES:
        return "complete", test.func.attr, neg
    if isinstance(test, ast.Attribute) and isinstance(test.value, ast.Name) and test.value.id == elem:
        if test.attr in LITERAL_ONLY_PREDICATES:
            return "literal", test.attr, neg
        if test.attr in COMPLETE_PREDICATES:
            return "complete", test.attr, neg
    if isinstance(test, ast.Call) and isinstance(test.func, ast.Name) and test.func.id == "getattr" and len(test.args) >= 2 \
            and isinstance(test.args[0], ast.Name) and test.args[0].id == elem and isinstance(test.args[1], ast.Constant):
        a = test.args[1].value
        if a in LITERAL_ONLY_PREDICATES:
            return "literal", a, neg
        if a in COMPLETE_PREDICATES:
            return "complete", a, neg
    if isinstance(test, ast.Call) and isinstance(test.func, ast.Name) and test.func.id == "isinstance" and len(test.args) == 2 \
            and isinstance(test.args[0], ast.Name) and test.args[0].id == elem:
        classes = test.args[1].elts if isinstance(test.args[1], ast.Tuple) else [test.args[1]]
        names = {c.attr if isinstance(c, ast.Attribute) else getattr(c, "id", None) for c in classes}
        if names and names <= LITERAL_ONLY_CLASSES:
            return "literal", "isinstance(" + ", ".join(sorted(names)) + ")", neg
    if not isinstance(test, ast.Call) and not isinstance(test, ast.BoolOp) and not (
            isinstance(test, ast.Attribute) and not (isinstance(test.value, ast.Name) and test.value.id == elem)):
        # `not arg.free_symbols`
        if isinstance(test, ast.Attribute) and test.attr == "free_symbols":
            return "complete", "not free_symbols", not neg
    return None


def r9_constant_split_of_arguments_is_exhaustive(ctx, rid):
    """Where the backend splits the arguments of a sympy sum / product into numeric constants that it folds at once and a rest
    that is supplied at run time, every argument must land in one of the two parts.  The run-time part consists of the node's
    input symbols; a constant test that is true for numeric literals only (`is_Number`, isinstance(.., Number/Float/Integer))
    is false for pi, E, EulerGamma and for compound numbers like sqrt(2) — they are no inputs either and silently drop out of
    the sum / product.  Accepted: a complete test (`is_number`, `is_constant()`, `not free_symbols`), or a literal-only test whose
    complement over the same `.args` is also taken in the same function."""
    for pred, want in (("is_Number", "literal"), ("is_number", "complete")):
        tree = ast.parse(_R9_CONTROL.format(pred=pred))
        fl = _arg_filters(tree.body[0])
        if len(fl) != 1 or (_const_predicate(fl[0][3], fl[0][1]) or (None,))[0] != want:
            raise AnalysisError(f"{rid}: positive control failed — the constant predicate `{pred}` is no longer classified as {want}")
    n_filters = n = 0
    for f in ctx.repo.all_functions():
        if not f.module.rel.startswith("pyrates/backend/"):
            continue
        filters = _arg_filters(f.node)
        n_filters += len(filters)
        judged = [(x, _const_predicate(x[3], x[1])) for x in filters]
        judged = [(x, c) for x, c in judged if c is not None]
        for (node, elem, it, test, has_else), (kind, text, neg) in judged:
            n += 1
            st = stmt_of(ctx.cfg(f), node) if hasattr(node, "_parent") else node
            label = f"constant split `{ast.unparse(test)}` over `{ast.unparse(it)}`"
            if kind == "complete":
                ctx.ok(rid, f, st, f"`{text}` is true for every argument without free symbols (numeric literals, pi, E, compound numbers)",
                       label=label)
                continue
            complement = has_else or any(c2[0] == "literal" and c2[1] == text and c2[2] != neg and ast.unparse(x2[2]) == ast.unparse(it)
                                         for x2, c2 in judged if x2[0] is not node)
            if complement:
                ctx.ok(rid, f, st, f"the complement of `{text}` over the same arguments is taken as well: the split is exhaustive", label=label)
            else:
                ctx.violation(rid, f, st,
                              f"`{ast.unparse(node)[:140]}` picks the constants of `{ast.unparse(it)}` by `{text}`, which is true for numeric "
                              f"literals only; pi, E, EulerGamma (and compound numbers such as sqrt(2)) are neither picked nor inputs of "
                              f"the node, and nothing in {f.qualname} handles the arguments for which the test is false: they drop out of "
                              f"the evaluated sum / product (`x + pi` evaluates to `x`)", label=label)
    ctx.ok(rid, None, None, f"controls: `is_Number` is classified literal-only, `is_number` complete; {n_filters} filters over `.args` in "
                            f"pyrates/backend/**, {n} of them constant splits", construct="rules/c05.py::_R9_CONTROL", loc="rules/c05.py",
           nontrivial=False)


RULES = [
    ("C05-R1", r4_fresh_name_generator, 6),
    ("C05-R2", r2_generated_names_never_overwrite, 3),
    ("C05-R3", r3_reserved_parts_cover_generated_names, 18),
    ("C05-R4", r4_boundary_vocabulary, 1),
    ("C05-R5", r5_literals_inlined_exactly, 1),
    ("C05-R6", r6_scope_membership_by_path_components, 1),
    ("C05-R7", r7_parsed_expression_is_not_rewritten, 2),
    ("C05-R8", r8_spliced_argument_text_keeps_parentheses, 1),
    ("C05-R9", r9_constant_split_of_arguments_is_exhaustive, 1),
]
